#!/bin/bash
# MANIFEST.setup_cmd: build the whole Coq development (full .vo build) and every harness crate, offline.
set -e
cd "$(dirname "$0")"
export CARGO_NET_OFFLINE=true
python3 tools/coqmake.py > .setup_coq.log 2>&1 || { tail -50 .setup_coq.log; echo "coq build failed"; exit 1; }
tail -3 .setup_coq.log
mkdir -p .cache
cp /repo/Cargo.lock harness/Cargo.lock
( cd harness && CARGO_TARGET_DIR="${VERIF_TARGET_DIR:-/verif/.cache/target}" \
  RUSTFLAGS="--cfg maidsafe_safe_network_verif -Awarnings" CARGO_INCREMENTAL=0 \
  cargo build --offline --workspace 2>&1 | tail -5 )
echo "setup done"
