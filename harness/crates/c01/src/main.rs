//! Record-store harness (C01, C10, C02): drives the REAL `NodeRecordStore` (through the
//! `UnifiedRecordStore` dispatch) on a current-thread tokio runtime that runs exactly one spawned
//! task per `step`, owns both channel receivers, and forwards completion notifications only when the
//! case says so, exactly as `SwarmDriver::handle_local_cmd` does.
//! One JSON object (a whole history) per input line, one JSON object per output line.
use ant_evm::U256;
use ant_networking::verif_hooks::record_store as rs;
use ant_networking::verif_hooks::{LocalSwarmCmd, NodeRecordStoreConfig, UnifiedRecordStore};
use ant_networking::NetworkEvent;
use ant_protocol::storage::{RecordHeader, RecordType};
use rs::{KadRecord as Record, KadRecordKey as Key, KadRecordStore, StoreError, StorePeerId};
use serde_json::{json, Value};
use std::collections::BTreeMap;
use std::io::{BufRead, Write};
use std::panic::{catch_unwind, AssertUnwindSafe};
use std::path::{Path, PathBuf};
use std::time::SystemTime;
use tokio::sync::mpsc;
use xor_name::XorName;

const NF: u64 = 999_999;

#[derive(serde::Deserialize)]
struct HistoricQuotingMetrics {
    received_payment_count: usize,
    timestamp: SystemTime,
}

struct World {
    rt: tokio::runtime::Runtime,
    store: UnifiedRecordStore,
    rx_cmd: mpsc::Receiver<LocalSwarmCmd>,
    tx_cmd: mpsc::Sender<LocalSwarmCmd>,
    _rx_evt: mpsc::Receiver<NetworkEvent>,
    inbox: Vec<LocalSwarmCmd>,
    /// small command channel, drained only when the case delivers: completions back up behind a
    /// full channel (their senders wait for capacity) instead of being moved to `inbox` at once
    lazy: bool,
}

struct Case {
    root: PathBuf,
    peer: StorePeerId,
    max_records: usize,
    cache_size: usize,
    max_value_bytes: Option<usize>,
    chan_cap: usize,
    version: String,
    keys: Vec<Key>,
    vals: Vec<Vec<u8>>,
    dists: Vec<U256>,
    hashes: Vec<XorName>,
    names: Vec<String>,
    epochs: Vec<Option<SystemTime>>,
    started: u64,
}

fn new_rt() -> tokio::runtime::Runtime {
    tokio::runtime::Builder::new_current_thread()
        .event_interval(1)
        .enable_time()
        .build()
        .expect("runtime")
}

/// The node's start-up check in front of the store (driver.rs, as `build_node` calls it).  With `kill`
/// it runs in a child process under `ulimit -f 0`: the kernel kills the child (SIGXFSZ) at its first
/// write of more than zero bytes to a regular file -- a real crash between "version file truncated"
/// and "version written", if start-up writes the file at all.  Returns (completed, error text).
fn run_startup(root: &Path, storage: &Path, cur: &str, kill: bool) -> (bool, Option<String>) {
    if !kill {
        return match rs::check_and_wipe_storage_dir_if_necessary(root.to_path_buf(), storage.to_path_buf(), cur.to_string()) {
            Ok(()) => (true, None),
            Err(e) => (false, Some(e)),
        };
    }
    let exe = std::env::current_exe().expect("own path");
    let st = std::process::Command::new("sh")
        .arg("-c")
        .arg("ulimit -f 0; exec \"$0\" --startup \"$1\" \"$2\" \"$3\"")
        .arg(exe)
        .arg(root)
        .arg(storage)
        .arg(cur)
        .stdin(std::process::Stdio::null())
        .stdout(std::process::Stdio::null())
        .stderr(std::process::Stdio::null())
        .status()
        .expect("spawn child");
    (st.success(), if st.success() { None } else { Some(format!("{st:?}")) })
}

impl Case {
    fn storage(&self) -> PathBuf {
        self.root.join("record_store")
    }

    fn config(&self) -> NodeRecordStoreConfig {
        // as driver.rs build_node: seed = first 16 bytes of the peer id, records under
        // root/record_store, historic quote file under root
        let seed: [u8; 16] = self.peer.to_bytes()[..16].try_into().unwrap();
        let d = NodeRecordStoreConfig::default();
        NodeRecordStoreConfig {
            storage_dir: self.storage(),
            historic_quote_dir: self.root.clone(),
            max_records: self.max_records,
            records_cache_size: self.cache_size,
            encryption_seed: seed,
            max_value_bytes: self.max_value_bytes.unwrap_or(d.max_value_bytes),
        }
    }

    fn open(&mut self) -> World {
        // what build_node does before the store exists: version-file check (wipes on a mismatch),
        // then the storage directory is (re)created
        let _ = run_startup(&self.root, &self.storage(), &self.version, false);
        std::fs::create_dir_all(self.storage()).unwrap();
        let rt = new_rt();
        let (tx_evt, rx_evt) = mpsc::channel(100_000);
        let (tx_cmd, rx_cmd) = mpsc::channel(self.chan_cap.max(1));
        let lazy = self.chan_cap < 100_000;
        let cfg = self.config();
        let peer = self.peer;
        let tx2 = tx_cmd.clone();
        let store = rt.block_on(async move { rs::new_node_store(peer, cfg, tx_evt, tx2) });
        let ts = rs::start_timestamp(&store);
        let n = self.epochs.len() as u64;
        match self.epochs.iter().position(|e| *e == Some(ts)) {
            Some(j) => {
                self.started = j as u64;
                self.epochs.push(None);
            }
            None => {
                self.started = n;
                self.epochs.push(Some(ts));
            }
        }
        World { rt, store, rx_cmd, tx_cmd, _rx_evt: rx_evt, inbox: vec![], lazy }
    }

    fn kix(&self, k: &Key) -> u64 {
        self.keys.iter().position(|x| x == k).map(|i| i as u64).unwrap_or(NF)
    }
    fn vix(&self, v: &[u8]) -> u64 {
        self.vals.iter().position(|x| x == v).map(|i| i as u64).unwrap_or(NF)
    }
    fn dix(&self, d: &U256) -> u64 {
        self.dists.iter().position(|x| x == d).map(|i| i as u64).unwrap_or(NF)
    }
    fn type_code(&self, t: &RecordType) -> u64 {
        match t {
            RecordType::Chunk => 0,
            RecordType::Scratchpad => 1,
            RecordType::NonChunk(h) => {
                let i = self.hashes.iter().position(|x| x == h).map(|i| i as u64).unwrap_or(NF);
                if i == NF { NF + 2 } else { 2 + i }
            }
        }
    }
    fn rtype(&self, v: usize, t: u64) -> RecordType {
        match t {
            0 => RecordType::Chunk,
            1 => RecordType::Scratchpad,
            _ => RecordType::NonChunk(XorName::from_content(&self.vals[v])),
        }
    }
}

fn drain(w: &mut World) {
    if w.lazy {
        return;
    }
    while let Ok(c) = w.rx_cmd.try_recv() {
        w.inbox.push(c);
    }
}

fn step(w: &mut World) {
    w.rt.block_on(async { tokio::task::yield_now().await });
    drain(w);
}

fn handle_notification(w: &mut World, n: LocalSwarmCmd) {
    // exactly what handle_local_cmd does with the two store notifications
    let store = &mut w.store;
    w.rt.block_on(async {
        match n {
            LocalSwarmCmd::AddLocalRecordAsStored { key, record_type } => rs::mark_as_stored(store, key, record_type),
            LocalSwarmCmd::RemoveFailedLocalRecord { key } => store.remove(&key),
            _ => {}
        }
    });
}

fn queued(w: &World) -> u64 {
    if w.lazy { (w.tx_cmd.max_capacity() - w.tx_cmd.capacity()) as u64 } else { w.inbox.len() as u64 }
}

fn alive(w: &World) -> u64 {
    w.rt.metrics().num_alive_tasks() as u64
}

fn list_dir(dir: &Path) -> BTreeMap<String, Vec<u8>> {
    let mut m = BTreeMap::new();
    if let Ok(rd) = std::fs::read_dir(dir) {
        for e in rd.flatten() {
            if e.path().is_file() {
                if let (Some(n), Ok(b)) = (e.file_name().to_str(), std::fs::read(e.path())) {
                    m.insert(n.to_string(), b);
                }
            }
        }
    }
    m
}

fn dump(c: &Case, w: &World) -> Value {
    let s = &w.store;
    let mut idx: Vec<(u64, u64)> = rs::record_addresses_ref(s)
        .iter()
        .map(|(k, _a, t)| (c.kix(k), c.type_code(t)))
        .collect();
    idx.sort();
    // record_addresses() must be the same set seen through the address map
    let ra = rs::record_addresses(s);
    let mut idx2: Vec<(u64, u64)> = ra
        .iter()
        .map(|(a, t)| {
            let k = a.to_record_key();
            (c.kix(&k), c.type_code(t))
        })
        .collect();
    idx2.sort();
    let contains: Vec<bool> = c.keys.iter().map(|k| rs::contains(s, k)).collect();
    let bydist: Vec<(u64, u64)> = rs::records_by_distance(s).iter().map(|(d, k)| (c.dix(d), c.kix(k))).collect();
    let far = rs::farthest_record(s).map(|(k, d)| (c.kix(&k), c.dix(&d)));
    let far_key = rs::get_farthest(s).map(|k| c.kix(&k));
    let cache: Vec<(u64, u64)> = rs::cache_entries(s).iter().map(|(k, v, _)| (c.kix(k), c.vix(v))).collect();
    let mut files: Vec<(u64, u64, u64)> = vec![];
    for (name, bytes) in list_dir(&c.storage()) {
        let owner = c.names.iter().position(|n| *n == name).map(|i| i as u64).unwrap_or(NF);
        let len = bytes.len() as u64;
        let val = match rs::key_of_filename(&name) {
            Some(k) => match rs::value_of_file_bytes(s, &k, bytes) {
                Some(v) => c.vix(&v),
                None => NF,
            },
            None => NF,
        };
        files.push((owner, val, len));
    }
    files.sort();
    let chan: Vec<(u64, u64)> = w
        .inbox
        .iter()
        .map(|n| match n {
            LocalSwarmCmd::AddLocalRecordAsStored { key, record_type } => (c.type_code(record_type), c.kix(key)),
            LocalSwarmCmd::RemoveFailedLocalRecord { key } => (NF, c.kix(key)),
            _ => (NF + 1, NF),
        })
        .collect();
    let metrics = std::fs::File::open(c.root.join(rs::HISTORICAL_QUOTING_METRICS_FILENAME))
        .ok()
        .and_then(|f| rmp_serde::from_read::<_, HistoricQuotingMetrics>(&f).ok())
        .map(|m| {
            let e = c.epochs.iter().position(|e| *e == Some(m.timestamp)).map(|i| i as u64).unwrap_or(NF);
            (m.received_payment_count as u64, e)
        });
    let gets: Vec<u64> = c
        .keys
        .iter()
        .map(|k| match s.get(k) {
            Some(r) => {
                // NF is reserved for "nothing": a wrong key is NF+1, bytes of no known value NF+2
                if r.key != *k { NF + 1 } else if c.vix(&r.value) == NF { NF + 2 } else { c.vix(&r.value) }
            }
            None => NF,
        })
        .collect();
    let started = c
        .epochs
        .iter()
        .position(|e| *e == Some(rs::start_timestamp(s)))
        .map(|i| i as u64)
        .unwrap_or(NF);
    json!({
        "idx": idx, "idx2": idx2, "contains": contains, "bydist": bydist, "far": far, "far_key": far_key,
        "cache": cache, "files": files, "chan": chan, "chan_count": queued(w), "ntasks": alive(w),
        "range": rs::responsible_distance_range(s).map(|d| d.to_string()),
        "range2": rs::get_farthest_replication_distance(s).map(|d| d.to_string()),
        "pay": rs::received_payment_count(s) as u64, "started": started, "metrics": metrics, "gets": gets,
        "max_records": rs::max_records(s) as u64, "cache_size": rs::cache_size(s) as u64,
        "vfile": std::fs::read(c.root.join("network_key_version")).ok().map(|b| String::from_utf8_lossy(&b).to_string()),
    })
}

fn put(c: &Case, w: &mut World, k: usize, v: usize, t: RecordType) -> Result<(), StoreError> {
    let rec = Record { key: c.keys[k].clone(), value: c.vals[v].clone(), publisher: None, expires: None };
    let store = &mut w.store;
    w.rt.block_on(async { rs::put_verified(store, rec, t) })
}

/// `OCrash tears`: snapshot the directory, find the real bytes of the first pending write of every
/// key to tear (by running the pending tasks one at a time over a sentinel), then rebuild the
/// directory as it was with the torn prefixes, drop everything in memory and open a new store.
fn crash(c: &mut Case, w: World, tears: &[(usize, u64)], kills: u64) -> World {
    let mut w = w;
    let storage = c.storage();
    let snap = list_dir(&storage);
    let metrics_path = c.root.join(rs::HISTORICAL_QUOTING_METRICS_FILENAME);
    let metrics_snap = std::fs::read(&metrics_path).ok();
    let mut torn: Vec<(String, Vec<u8>)> = vec![];
    if !tears.is_empty() {
        let sentinel = b"\x00verif-sentinel\x00".to_vec();
        let mut waiting: Vec<(usize, u64)> = tears.to_vec();
        for (k, _) in &waiting {
            let _ = std::fs::write(storage.join(&c.names[*k]), &sentinel);
        }
        let mut guard = 0;
        while alive(&w) > 0 && guard < 1_000_000 {
            guard += 1;
            step(&mut w);
            let mut still = vec![];
            for (k, m) in waiting.drain(..) {
                let p = storage.join(&c.names[k]);
                match std::fs::read(&p) {
                    Ok(b) if b == sentinel => still.push((k, m)),
                    Ok(b) => {
                        let n = (m as usize).min(b.len());
                        torn.push((c.names[k].clone(), b[..n].to_vec()));
                    }
                    Err(_) => {
                        // a pending delete ran: keep waiting for the first write
                        let _ = std::fs::write(&p, &sentinel);
                        still.push((k, m));
                    }
                }
            }
            waiting = still;
        }
    }
    let World { rt, store, rx_cmd, tx_cmd, _rx_evt, inbox, lazy: _ } = w;
    drop(store);
    drop(tx_cmd);
    drop(rx_cmd);
    drop(_rx_evt);
    drop(inbox);
    drop(rt); // pending tasks are dropped without running
    let _ = std::fs::remove_dir_all(&storage);
    std::fs::create_dir_all(&storage).unwrap();
    for (n, b) in &snap {
        std::fs::write(storage.join(n), b).unwrap();
    }
    // later tears of the same key win, as in the model's fold
    for (n, b) in &torn {
        std::fs::write(storage.join(n), b).unwrap();
    }
    match metrics_snap {
        Some(b) => std::fs::write(&metrics_path, b).unwrap(),
        None => {
            let _ = std::fs::remove_file(&metrics_path);
        }
    }
    // start-up attempts of the same version that are killed at their first write, before the one that completes
    for _ in 0..kills {
        let _ = run_startup(&c.root, &c.storage(), &c.version, true);
    }
    c.open()
}

fn run_hist(case: &Value, base: &Path, serial: u64) -> Value {
    let root = base.join(format!("case{serial}"));
    let _ = std::fs::remove_dir_all(&root);
    std::fs::create_dir_all(root.join("record_store")).unwrap();
    let peer_bytes = hex::decode(case["cfg"]["peer"].as_str().unwrap()).unwrap();
    let mut mh = vec![0x12u8, 0x20];
    mh.extend_from_slice(&peer_bytes);
    let peer = StorePeerId::from_bytes(&mh).expect("peer id");
    let keys: Vec<Key> = case["keys"].as_array().unwrap().iter()
        .map(|k| Key::from(hex::decode(k.as_str().unwrap()).unwrap())).collect();
    let vals: Vec<Vec<u8>> = case["vals"].as_array().unwrap().iter()
        .map(|k| hex::decode(k.as_str().unwrap()).unwrap()).collect();
    let mut c = Case {
        root: root.clone(),
        peer,
        max_records: case["cfg"]["max_records"].as_u64().unwrap() as usize,
        cache_size: case["cfg"]["cache_size"].as_u64().unwrap() as usize,
        max_value_bytes: case["cfg"].get("max_value_bytes").and_then(|x| x.as_u64()).map(|x| x as usize),
        chan_cap: case["cfg"].get("chan_cap").and_then(|x| x.as_u64()).unwrap_or(100_000) as usize,
        version: "1".to_string(),
        hashes: vals.iter().map(|v| XorName::from_content(v)).collect(),
        names: keys.iter().map(rs::filename_of).collect(),
        keys,
        vals,
        dists: vec![],
        epochs: vec![],
        started: 0,
    };
    let mut w = c.open();
    c.dists = c.keys.iter().map(|k| rs::distance_to(&w.store, k)).collect();
    let nonces: Vec<String> = c.keys.iter().map(|k| hex::encode(rs::nonce_of(&w.store, k))).collect();
    let file_lens: Vec<Vec<u64>> = vec![];
    let d0 = dump(&c, &w);
    let mut steps = vec![];
    for o in case["ops"].as_array().unwrap() {
        let name = o["op"].as_str().unwrap();
        let ku = o.get("k").and_then(|x| x.as_u64()).unwrap_or(0) as usize;
        let vu = o.get("v").and_then(|x| x.as_u64()).unwrap_or(0) as usize;
        let mut extra = json!(null);
        let out = match name {
            "put" => {
                let t = c.rtype(vu, o["t"].as_u64().unwrap());
                match put(&c, &mut w, ku, vu, t) {
                    Ok(()) => json!({"put": true}),
                    Err(StoreError::MaxRecords) => json!({"put": false}),
                    Err(e) => json!({"put": false, "err": format!("{e:?}")}),
                }
            }
            "put_local" => {
                // the PutLocalRecord arm of cmd.rs handle_local_cmd, line by line
                let rec = Record { key: c.keys[ku].clone(), value: c.vals[vu].clone(), publisher: None, expires: None };
                let record_type = match RecordHeader::from_record(&rec) {
                    Ok(h) => match h.kind {
                        ant_protocol::storage::RecordKind::Chunk => Some(RecordType::Chunk),
                        ant_protocol::storage::RecordKind::Scratchpad => Some(RecordType::Scratchpad),
                        ant_protocol::storage::RecordKind::Transaction
                        | ant_protocol::storage::RecordKind::Register => {
                            Some(RecordType::NonChunk(XorName::from_content(&rec.value)))
                        }
                        _ => None,
                    },
                    Err(_) => None,
                };
                match record_type {
                    None => json!({"put_local": 2, "far": null}),
                    Some(t) => match put(&c, &mut w, ku, vu, t) {
                        Ok(()) => json!({"put_local": 0, "far": null}),
                        Err(StoreError::MaxRecords) => {
                            json!({"put_local": 1, "far": rs::get_farthest(&w.store).map(|k| c.kix(&k))})
                        }
                        Err(e) => json!({"put_local": 9, "far": null, "err": format!("{e:?}")}),
                    },
                }
            }
            "put_unverified" => {
                // the kad RecordStore::put of an inbound, NOT validated record (what a peer's PUT reaches)
                let rec = Record { key: c.keys[ku].clone(), value: c.vals[vu].clone(), publisher: None, expires: None };
                let store = &mut w.store;
                let r = w.rt.block_on(async { store.put(rec) });
                json!({"ok": r.is_ok()})
            }
            "remove" => {
                let store = &mut w.store;
                let k = c.keys[ku].clone();
                w.rt.block_on(async { store.remove(&k) });
                json!(null)
            }
            "get" => {
                let r = w.store.get(&c.keys[ku]).map(|r| r.into_owned());
                match r {
                    Some(r) => json!({"get": if r.key != c.keys[ku] { NF + 1 } else if c.vix(&r.value) == NF { NF + 2 } else { c.vix(&r.value) },
                                      "raw": if c.vix(&r.value) == NF { Some(hex::encode(&r.value)) } else { None }}),
                    None => json!({"get": NF}),
                }
            }
            "step" => {
                step(&mut w);
                json!(null)
            }
            "settle" => {
                // run everything to quiescence: pending tasks first-in first-out, then the oldest
                // notification, until neither is left; the actions taken are reported (1 step, 0 deliver).
                // With a small channel: take a queued notification whenever there is one, else run a task.
                let mut log: Vec<u64> = vec![];
                let mut guard = 0;
                if w.lazy {
                    loop {
                        guard += 1;
                        if guard > 1_000_000 { break; }
                        if let Ok(n) = w.rx_cmd.try_recv() {
                            handle_notification(&mut w, n);
                            log.push(0);
                        } else if alive(&w) > 0 {
                            step(&mut w);
                            log.push(1);
                        } else {
                            break;
                        }
                    }
                } else {
                    while (alive(&w) > 0 || !w.inbox.is_empty()) && guard < 1_000_000 {
                        guard += 1;
                        if alive(&w) > 0 {
                            step(&mut w);
                            log.push(1);
                        } else {
                            let n = w.inbox.remove(0);
                            handle_notification(&mut w, n);
                            drain(&mut w);
                            log.push(0);
                        }
                    }
                }
                extra = json!(log);
                json!(null)
            }
            "deliver" => {
                if w.lazy {
                    // the driver takes the next command off the channel (first-in first-out)
                    match w.rx_cmd.try_recv() {
                        Ok(n) => {
                            let code = match &n {
                                LocalSwarmCmd::AddLocalRecordAsStored { key, record_type } => json!([c.type_code(record_type), c.kix(key)]),
                                LocalSwarmCmd::RemoveFailedLocalRecord { key } => json!([NF, c.kix(key)]),
                                _ => json!([NF + 1, NF]),
                            };
                            handle_notification(&mut w, n);
                            json!({"delivered": code})
                        }
                        Err(_) => json!({"delivered": null}),
                    }
                } else {
                    let j = o["j"].as_u64().unwrap() as usize;
                    if j < w.inbox.len() {
                        let n = w.inbox.remove(j);
                        handle_notification(&mut w, n);
                    }
                    json!(null)
                }
            }
            "set_range_at" => {
                // range = distance of key k plus delta (-1, 0, +1), computed from the real distance
                let d = c.dists[ku];
                let delta = o["delta"].as_i64().unwrap_or(0);
                let r = if delta < 0 { d.saturating_sub(U256::from((-delta) as u64)) } else { d.saturating_add(U256::from(delta as u64)) };
                rs::set_distance_range(&mut w.store, r);
                extra = json!(r.to_string());
                json!(null)
            }
            "set_range" => {
                let r = U256::from_str_radix(o["d"].as_str().unwrap(), 10).unwrap();
                rs::set_distance_range(&mut w.store, r);
                extra = json!(r.to_string());
                json!(null)
            }
            "cleanup" => {
                let store = &mut w.store;
                w.rt.block_on(async { rs::cleanup_irrelevant_records(store) });
                json!(null)
            }
            "pay" => {
                let store = &mut w.store;
                w.rt.block_on(async { rs::payment_received(store) });
                json!(null)
            }
            "quote" => {
                let (q, stored) = rs::quoting_metrics(&w.store, &c.keys[ku], None);
                json!({"close": q.close_records_stored as u64, "maxr": q.max_records as u64,
                       "pay": q.received_payment_count as u64, "stored": stored,
                       "density": q.network_density.map(|b| U256::from_be_bytes(b).to_string()),
                       "within": rs::responsible_distance_range(&w.store).map(|r| rs::records_within_distance_range(&w.store, r) as u64)})
            }
            "crash" => {
                let tears: Vec<(usize, u64)> = o["tears"].as_array().map(|a| {
                    a.iter().map(|p| (p[0].as_u64().unwrap() as usize, p[1].as_u64().unwrap())).collect()
                }).unwrap_or_default();
                let kills = o.get("kills").and_then(|x| x.as_u64()).unwrap_or(0);
                w = crash(&mut c, w, &tears, kills);
                json!(null)
            }
            other => json!({"error": format!("unknown op {other}")}),
        };
        drain(&mut w);
        let d = if o.get("nodump").and_then(|x| x.as_bool()).unwrap_or(false) { json!(null) } else { dump(&c, &w) };
        steps.push(json!({"out": out, "dump": d, "extra": extra}));
    }
    let res = json!({
        "encrypt": rs::encrypt_records_enabled(),
        "dists": c.dists.iter().map(|d| d.to_string()).collect::<Vec<_>>(),
        "hashes": c.hashes.iter().map(|h| U256::from_be_bytes(h.0).to_string()).collect::<Vec<_>>(),
        "names": c.names, "nonces": nonces, "d0": d0, "steps": steps,
        "val_lens": c.vals.iter().map(|v| v.len() as u64).collect::<Vec<_>>(),
        "consts": {"max_records_count": rs::MAX_RECORDS_COUNT as u64, "max_cache": rs::MAX_RECORDS_CACHE_SIZE as u64},
        "_unused": file_lens,
    });
    drop(w);
    let _ = std::fs::remove_dir_all(&root);
    res
}

/// Parallel stress (no model term): the real store on a MULTI-THREAD runtime, many validated puts of
/// large values to distinct keys issued back to back so that their disk-write tasks truly overlap,
/// notifications handled concurrently; then everything is read back from disk (1-entry cache).
fn run_stress(case: &Value, base: &Path, serial: u64) -> Value {
    let n = case["n"].as_u64().unwrap() as usize;
    let smin = case["size_min"].as_u64().unwrap() as usize;
    let smax = case["size_max"].as_u64().unwrap() as usize;
    let workers = case["workers"].as_u64().unwrap_or(8) as usize;
    let mut seed = case["seed"].as_u64().unwrap_or(1) | 1;
    let mut next = move || {
        // xorshift64*
        seed ^= seed >> 12;
        seed ^= seed << 25;
        seed ^= seed >> 27;
        seed.wrapping_mul(0x2545F4914F6CDD1D)
    };
    let root = base.join(format!("stress{serial}"));
    let _ = std::fs::remove_dir_all(&root);
    let storage = root.join("record_store");
    std::fs::create_dir_all(&storage).unwrap();
    let mut keys: Vec<Key> = vec![];
    let mut vals: Vec<Vec<u8>> = vec![];
    for i in 0..n {
        let mut k = vec![0u8; 32];
        for b in k.iter_mut() { *b = (next() >> 32) as u8; }
        k[0] = (i >> 8) as u8;
        k[1] = i as u8;
        keys.push(Key::from(k));
        let len = smin + (next() as usize) % (smax - smin + 1);
        let mut v = vec![0u8; len];
        let (a, b) = ((next() >> 24) as u8, ((next() >> 24) as u8) | 1);
        for (j, x) in v.iter_mut().enumerate() { *x = a.wrapping_add((j as u8).wrapping_mul(b)).wrapping_add((j >> 8) as u8); }
        v[0] = 0x91;
        v[1] = 1;
        v[2] = i as u8;
        v[3] = (i >> 8) as u8;
        vals.push(v);
    }
    let rt = tokio::runtime::Builder::new_multi_thread().worker_threads(workers).enable_time().build().expect("runtime");
    let _g = rt.enter();
    let mut mh = vec![0x12u8, 0x20];
    mh.extend_from_slice(&[7u8; 32]);
    let peer = StorePeerId::from_bytes(&mh).unwrap();
    let seed16: [u8; 16] = peer.to_bytes()[..16].try_into().unwrap();
    let cfg = NodeRecordStoreConfig {
        storage_dir: storage.clone(),
        historic_quote_dir: root.clone(),
        max_records: 16384,
        records_cache_size: 1,
        encryption_seed: seed16,
        ..Default::default()
    };
    let (tx_evt, _rx_evt) = mpsc::channel(1000);
    let (tx_cmd, mut rx_cmd) = mpsc::channel::<LocalSwarmCmd>(case["chan_cap"].as_u64().unwrap_or(10_000) as usize);
    let mut store = rs::new_node_store(peer, cfg, tx_evt, tx_cmd);
    let t0 = std::time::Instant::now();
    let mut accepted = 0usize;
    let mut refused: Vec<usize> = vec![];
    let mut stored_n = 0usize;
    let mut failed: Vec<u64> = vec![];
    let kix = |k: &Key, keys: &Vec<Key>| keys.iter().position(|x| x == k).map(|i| i as u64).unwrap_or(NF);
    let mut handle = |store: &mut UnifiedRecordStore, n: LocalSwarmCmd, stored_n: &mut usize, failed: &mut Vec<u64>| match n {
        LocalSwarmCmd::AddLocalRecordAsStored { key, record_type } => {
            *stored_n += 1;
            rs::mark_as_stored(store, key, record_type)
        }
        LocalSwarmCmd::RemoveFailedLocalRecord { key } => {
            failed.push(kix(&key, &keys));
            store.remove(&key)
        }
        _ => {}
    };
    for i in 0..n {
        let rec = Record { key: keys[i].clone(), value: vals[i].clone(), publisher: None, expires: None };
        match rs::put_verified(&mut store, rec, RecordType::Chunk) {
            Ok(()) => accepted += 1,
            Err(_) => refused.push(i),
        }
        // the driver keeps taking commands while puts arrive
        while let Ok(c) = rx_cmd.try_recv() {
            handle(&mut store, c, &mut stored_n, &mut failed);
        }
    }
    // drain until every accepted write has reported its outcome (or 60 s passed)
    let deadline = std::time::Instant::now() + std::time::Duration::from_secs(60);
    while stored_n + failed.len() < accepted && std::time::Instant::now() < deadline {
        match rt.block_on(async { tokio::time::timeout(std::time::Duration::from_millis(200), rx_cmd.recv()).await }) {
            Ok(Some(c)) => handle(&mut store, c, &mut stored_n, &mut failed),
            _ => {}
        }
    }
    // let the remaining background tasks (deletes of failed writes, metrics flush) finish
    let mut spins = 0;
    while rt.metrics().num_alive_tasks() > 0 && spins < 2000 {
        std::thread::sleep(std::time::Duration::from_millis(5));
        spins += 1;
    }
    let write_ms = t0.elapsed().as_millis() as u64;
    // read every key back: 1-entry cache, so (almost) everything comes from disk
    let mut bad: Vec<Value> = vec![];
    let mut listed = 0usize;
    for i in 0..n {
        if rs::contains(&store, &keys[i]) { listed += 1; }
        match store.get(&keys[i]).map(|r| r.into_owned()) {
            Some(r) => {
                if r.key != keys[i] || r.value != vals[i] {
                    let whose = vals.iter().position(|v| *v == r.value).map(|j| j as u64);
                    bad.push(json!({"k": i, "got": "other", "value_of_key": whose, "len": r.value.len()}));
                }
            }
            None => bad.push(json!({"k": i, "got": "nothing", "listed": rs::contains(&store, &keys[i])})),
        }
    }
    let leftovers: Vec<String> = list_dir(&storage).keys().filter(|nm| rs::key_of_filename(nm).map(|k| kix(&k, &keys) == NF).unwrap_or(true)).cloned().collect();
    drop(store);
    drop(_g);
    drop(rt);
    let _ = std::fs::remove_dir_all(&root);
    json!({"n": n, "accepted": accepted, "refused": refused, "stored": stored_n, "failed": failed, "listed": listed,
           "bad": bad, "leftover_files": leftovers, "ms": write_ms, "encrypt": rs::encrypt_records_enabled()})
}

/// NODE mode (no model term): a REAL `SwarmDriver` built by `NetworkBuilder::build_node` over a root
/// directory (start-up check, seed derivation from the identity, store open -- all the real code), driven
/// through the real `handle_local_cmd`: `PutLocalRecord`, and the store's completion notifications taken
/// off the driver's own receiver and handed to the real `AddLocalRecordAsStored` /
/// `RemoveFailedLocalRecord` arms when the case says so.  A restart drops everything and builds the
/// node again with the same keypair and root directory.
fn run_node(case: &Value, base: &Path, serial: u64) -> Value {
    use ant_networking::verif_hooks::cmd as vcmd;
    use ant_networking::{NetworkBuilder, SwarmDriver};
    let root = base.join(format!("node{serial}"));
    let _ = std::fs::remove_dir_all(&root);
    std::fs::create_dir_all(&root).unwrap();
    let kseed: Vec<u8> = hex::decode(case["cfg"]["peer"].as_str().unwrap()).unwrap();
    let keys: Vec<Key> = case["keys"].as_array().unwrap().iter().map(|k| Key::from(hex::decode(k.as_str().unwrap()).unwrap())).collect();
    let vals: Vec<Vec<u8>> = case["vals"].as_array().unwrap().iter().map(|k| hex::decode(k.as_str().unwrap()).unwrap()).collect();
    let kix = |k: &Key| keys.iter().position(|x| x == k).map(|i| i as u64).unwrap_or(NF);
    let vix = |v: &[u8]| vals.iter().position(|x| x == v).map(|i| i as u64).unwrap_or(NF + 2);
    struct Node {
        rt: tokio::runtime::Runtime,
        driver: SwarmDriver,
        _network: ant_networking::Network,
        _events: mpsc::Receiver<NetworkEvent>,
        inbox: Vec<LocalSwarmCmd>,
    }
    let build = |root: &Path, kseed: &[u8]| -> Node {
        let rt = tokio::runtime::Builder::new_current_thread().event_interval(1).enable_all().build().expect("runtime");
        let mut sk = [0u8; 32];
        sk.copy_from_slice(&kseed[..32]);
        let kp = libp2p::identity::Keypair::ed25519_from_bytes(sk).expect("keypair");
        let rootp = root.to_path_buf();
        let (network, events, driver) = rt.block_on(async move {
            let mut nb = NetworkBuilder::new(kp, true);
            nb.listen_addr("127.0.0.1:0".parse().unwrap());
            nb.build_node(rootp).expect("build_node")
        });
        Node { rt, driver, _network: network, _events: events, inbox: vec![] }
    };
    let pump = |n: &mut Node, yields: usize| {
        for _ in 0..yields {
            n.rt.block_on(async { tokio::task::yield_now().await });
            while let Some(c) = n.driver.verif_try_recv_local_cmd() {
                n.inbox.push(c);
            }
        }
    };
    let code = |c: &LocalSwarmCmd| match c {
        LocalSwarmCmd::AddLocalRecordAsStored { key, .. } => json!([0, kix(key)]),
        LocalSwarmCmd::RemoveFailedLocalRecord { key } => json!([NF, kix(key)]),
        _ => json!([NF + 1, NF]),
    };
    let handle = |n: &mut Node, c: LocalSwarmCmd| -> bool {
        let d = &mut n.driver;
        n.rt.block_on(async { vcmd::handle_local_cmd(d, c).is_ok() })
    };
    let observe = |n: &mut Node| -> Value {
        let mut listed: Vec<u64> = n.driver.verif_record_addresses().iter().map(|(a, _)| kix(&a.to_record_key())).collect();
        listed.sort();
        let gets: Vec<u64> = keys.iter().map(|k| match n.driver.verif_get_local_record(k) {
            Some(r) => if r.key != *k { NF + 1 } else { vix(&r.value) },
            None => NF,
        }).collect();
        let files = list_dir(&root.join("record_store")).len() as u64;
        json!({"listed": listed, "gets": gets, "inbox": n.inbox.iter().map(&code).collect::<Vec<_>>(), "files": files})
    };
    let mut n = build(&root, &kseed);
    let mut steps = vec![];
    for o in case["ops"].as_array().unwrap() {
        let ku = o.get("k").and_then(|x| x.as_u64()).unwrap_or(0) as usize;
        let vu = o.get("v").and_then(|x| x.as_u64()).unwrap_or(0) as usize;
        let out = match o["op"].as_str().unwrap() {
            "put_local" => {
                let rec = Record { key: keys[ku].clone(), value: vals[vu].clone(), publisher: None, expires: None };
                json!({"ok": handle(&mut n, LocalSwarmCmd::PutLocalRecord { record: rec })})
            }
            "step" => {
                pump(&mut n, o.get("n").and_then(|x| x.as_u64()).unwrap_or(1) as usize);
                json!(null)
            }
            "deliver" => {
                let j = o["j"].as_u64().unwrap() as usize;
                if !n.inbox.is_empty() {
                    let c = n.inbox.remove(j % n.inbox.len());
                    let what = code(&c);
                    json!({"delivered": what, "ok": handle(&mut n, c)})
                } else {
                    json!({"delivered": null})
                }
            }
            "settle" => {
                // run background tasks and hand every notification to the real arm until nothing moves any more
                let mut idle = 0;
                let mut guard = 0;
                while idle < 40 && guard < 100_000 {
                    guard += 1;
                    pump(&mut n, 1);
                    if n.inbox.is_empty() {
                        idle += 1;
                    } else {
                        idle = 0;
                        let c = n.inbox.remove(0);
                        let _ = handle(&mut n, c);
                    }
                }
                json!(null)
            }
            "get" => json!({"get": match n.driver.verif_get_local_record(&keys[ku]) { Some(r) => vix(&r.value), None => NF }}),
            "restart" => {
                let Node { rt, driver, _network, _events, inbox } = n;
                drop(driver);
                drop(_network);
                drop(_events);
                drop(inbox);
                drop(rt);
                n = build(&root, &kseed);
                json!(null)
            }
            other => json!({"error": format!("unknown op {other}")}),
        };
        let obs = observe(&mut n);
        steps.push(json!({"out": out, "obs": obs}));
    }
    let res = json!({"steps": steps, "encrypt": rs::encrypt_records_enabled()});
    drop(n);
    let _ = std::fs::remove_dir_all(&root);
    res
}

fn run(case: &Value, base: &Path, serial: u64) -> Value {
    match case["kind"].as_str().unwrap_or("hist") {
        "hist" => run_hist(case, base, serial),
        "header" => {
            let b: Vec<u8> = case["bytes"].as_array().unwrap().iter().map(|x| x.as_u64().unwrap() as u8).collect();
            let rec = Record { key: Key::from(vec![1u8]), value: b, publisher: None, expires: None };
            match RecordHeader::from_record(&rec) {
                Ok(h) => {
                    let tag = RecordHeader { kind: h.kind }.try_serialize().map(|b| b[1] as u64).ok();
                    json!({"kind": tag, "is_chunk": RecordHeader::is_record_of_type_chunk(&rec).ok()})
                }
                Err(_) => json!({"kind": null, "is_chunk": null}),
            }
        }
        "stress" => run_stress(case, base, serial),
        "node" => run_node(case, base, serial),
        "startup" => {
            // the real check_and_wipe_storage_dir_if_necessary on a prepared directory
            let root = base.join(format!("startup{serial}"));
            let _ = std::fs::remove_dir_all(&root);
            let storage = root.join("record_store");
            std::fs::create_dir_all(&storage).unwrap();
            let n = case["files"].as_u64().unwrap_or(0);
            for i in 0..n {
                std::fs::write(storage.join(format!("{i:064x}")), b"x").unwrap();
            }
            let vpath = root.join("network_key_version");
            if let Some(b) = case.get("before").and_then(|x| x.as_str()) {
                std::fs::write(&vpath, b.as_bytes()).unwrap();
            }
            let cur = case["cur"].as_str().unwrap();
            let kill = case["kill"].as_bool().unwrap_or(false);
            let (done, err) = run_startup(&root, &storage, cur, kill);
            let after = std::fs::read(&vpath).ok().map(|b| String::from_utf8_lossy(&b).to_string());
            let left = std::fs::read_dir(&storage).map(|rd| rd.flatten().count() as u64).unwrap_or(0);
            let res = json!({"done": done, "err": err, "after": after, "left": left, "dir": storage.is_dir()});
            let _ = std::fs::remove_dir_all(&root);
            res
        }
        other => json!({"error": format!("unknown kind {other}")}),
    }
}

fn main() {
    // Real nodes always run with a tracing subscriber, and `tracing` evaluates the ARGUMENTS of
    // error!/warn!/info!/debug!/trace! only when a subscriber enables the callsite: format every
    // event at TRACE level into a sink, so that a panicking log argument surfaces as a `panic` here.
    let _ = tracing_subscriber::fmt()
        .with_max_level(tracing::Level::TRACE)
        .with_writer(std::io::sink)
        .try_init();
    let args: Vec<String> = std::env::args().collect();
    if args.len() == 5 && args[1] == "--startup" {
        // child mode of run_startup(kill = true)
        let r = rs::check_and_wipe_storage_dir_if_necessary(PathBuf::from(&args[2]), PathBuf::from(&args[3]), args[4].clone());
        std::process::exit(if r.is_ok() { 0 } else { 1 });
    }
    std::panic::set_hook(Box::new(|_| {}));
    let base = std::env::var("C01_TMP")
        .map(PathBuf::from)
        .unwrap_or_else(|_| {
            let shm = Path::new("/dev/shm");
            let b = if shm.is_dir() { shm.to_path_buf() } else { std::env::temp_dir() };
            b.join(format!("verif_c01_{}", std::process::id()))
        });
    std::fs::create_dir_all(&base).unwrap();
    let stdin = std::io::stdin();
    let out = std::io::stdout();
    let mut out = out.lock();
    let mut serial = 0u64;
    for line in stdin.lock().lines() {
        let line = line.unwrap();
        if line.trim().is_empty() {
            continue;
        }
        serial += 1;
        let case: Value = serde_json::from_str(&line).unwrap();
        let res = catch_unwind(AssertUnwindSafe(|| run(&case, &base, serial))).unwrap_or_else(|p| {
            let msg = p.downcast_ref::<String>().cloned()
                .or_else(|| p.downcast_ref::<&str>().map(|s| s.to_string()))
                .unwrap_or_default();
            json!({"panic": msg})
        });
        writeln!(out, "{res}").unwrap();
    }
    let _ = std::fs::remove_dir_all(&base);
}
