//! C05 harness: quorum reads.
//!
//! * `hist`   -- a real client-mode `SwarmDriver` (never polled) receives `GetNetworkRecord` commands
//!               through the real `handle_network_cmd` and synthetic kad GetRecord progress events
//!               through the real `handle_kad_event`; every caller's outcome is read from its oneshot
//!               receiver (raw callers) or from the real `Network::get_record_from_network` future
//!               running on harness-owned channels (api callers). After every step the real
//!               `pending_get_record` is dumped through the read-only hook.
//! * `split`  -- the real `Network::handle_split_record_error` on `reps` freshly built hash maps holding
//!               the same versions (each `HashMap::new()` has its own iteration order).
//! * `target` -- the real `GetRecordCfg::does_target_match`;  `quorum` -- `get_quorum_value`.
//!
//! Contents travel as small abstract specs and are turned into real records (real BLS signatures,
//! real rmp encodings); outputs are mapped back to the same abstract form.
//! One JSON object per input line, one per output line.
use ant_networking::{
    close_group_majority, get_quorum_value, verif_hooks::NetworkSwarmCmd, GetRecordCfg,
    GetRecordError, Network, NetworkBuilder, NetworkError, SwarmDriver,
};
use ant_protocol::storage::{
    try_deserialize_record, RecordHeader, RecordKind, RetryStrategy, Scratchpad, ScratchpadAddress,
    Transaction,
};
use ant_registers::{Permissions, Register, RegisterCrdt, RegisterOp, SignedRegister};
use bls::{SecretKey, Signature};
use bytes::Bytes;
use libp2p::identity::Keypair;
use libp2p::kad::{
    self, GetRecordOk, PeerRecord, ProgressStep, QueryId, QueryResult, QueryStats, Quorum, Record,
    RecordKey,
};
use libp2p::PeerId;
use serde::Serialize;
use serde_json::{json, Value};
use std::collections::{BTreeSet, HashMap, HashSet};
use std::io::{BufRead, Write};
use std::num::NonZeroUsize;
use std::panic::{catch_unwind, AssertUnwindSafe};
use std::time::Duration;
use tokio::sync::{mpsc, oneshot};
use xor_name::XorName;

type Res = std::result::Result<Record, GetRecordError>;

fn sk(n: u8) -> SecretKey {
    let mut b = [0u8; 32];
    b[31] = n;
    SecretKey::from_bytes(b).expect("small scalar is a valid key")
}

/// field-for-field mirror of `Scratchpad` (whose fields are private) to build pads with chosen
/// counters / signatures; rmp-serde encodes structs positionally, so the encodings coincide
#[derive(Serialize)]
struct PadMirror {
    address: ScratchpadAddress,
    data_encoding: u64,
    encrypted_data: Bytes,
    counter: u64,
    signature: Option<Signature>,
}

struct Universe {
    owner: SecretKey,
    stranger: SecretKey,
    /// contentspec (canonical JSON text) -> value bytes
    built: HashMap<String, Vec<u8>>,
    /// value bytes -> contentspec
    known: HashMap<Vec<u8>, Value>,
    txs: HashMap<u64, Transaction>,
    tx_ids: HashMap<Vec<u8>, u64>,
    ops: HashMap<(u64, u64), RegisterOp>,
    op_ids: HashMap<Vec<u8>, u64>,
    peers: Vec<PeerId>,
    peer_idx: HashMap<PeerId, i64>,
}

fn kind_of_tag(t: u64) -> Option<RecordKind> {
    Some(match t {
        0 => RecordKind::ChunkWithPayment,
        1 => RecordKind::Chunk,
        2 => RecordKind::Transaction,
        3 => RecordKind::Register,
        4 => RecordKind::RegisterWithPayment,
        5 => RecordKind::Scratchpad,
        6 => RecordKind::ScratchpadWithPayment,
        7 => RecordKind::TransactionWithPayment,
        _ => return None,
    })
}

fn tag_of_kind(k: RecordKind) -> u64 {
    match k {
        RecordKind::ChunkWithPayment => 0,
        RecordKind::Chunk => 1,
        RecordKind::Transaction => 2,
        RecordKind::Register => 3,
        RecordKind::RegisterWithPayment => 4,
        RecordKind::Scratchpad => 5,
        RecordKind::ScratchpadWithPayment => 6,
        RecordKind::TransactionWithPayment => 7,
    }
}

impl Universe {
    fn new() -> Self {
        let mut peers = Vec::new();
        let mut peer_idx = HashMap::new();
        for j in 0..40u8 {
            let kp = Keypair::ed25519_from_bytes([j + 1; 32]).expect("32 bytes");
            let p = PeerId::from(kp.public());
            peers.push(p);
            peer_idx.insert(p, j as i64);
        }
        Universe {
            owner: sk(1),
            stranger: sk(2),
            built: HashMap::new(),
            known: HashMap::new(),
            txs: HashMap::new(),
            tx_ids: HashMap::new(),
            ops: HashMap::new(),
            op_ids: HashMap::new(),
            peers,
            peer_idx,
        }
    }

    fn tx(&mut self, id: u64) -> Transaction {
        if let Some(t) = self.txs.get(&id) {
            return t.clone();
        }
        let mut content = [0u8; 32];
        content[..8].copy_from_slice(&id.to_be_bytes());
        let t = Transaction::new(self.owner.public_key(), vec![], content, vec![], &self.owner);
        self.tx_ids.insert(rmp_serde::to_vec(&t).unwrap(), id);
        self.txs.insert(id, t.clone());
        t
    }

    fn base(&self, b: u64) -> Register {
        let meta = XorName::from_content(format!("meta-{}", b / 2).as_bytes());
        let perms = if b % 2 == 0 {
            Permissions::new_anyone_can_write()
        } else {
            Permissions::new_with([])
        };
        Register::new(self.owner.public_key(), meta, perms)
    }

    fn op(&mut self, b: u64, id: u64) -> RegisterOp {
        if let Some(o) = self.ops.get(&(b, id)) {
            return o.clone();
        }
        let addr = *self.base(b).address();
        let mut crdt = RegisterCrdt::new(addr);
        let (_h, addr, crdt_op) = crdt
            .write(format!("entry-{id}").into_bytes(), &BTreeSet::new())
            .unwrap();
        let signer = if id < 100 { &self.owner } else { &self.stranger };
        let o = RegisterOp::new(addr, crdt_op, signer);
        self.op_ids.insert(rmp_serde::to_vec(&o).unwrap(), id);
        self.ops.insert((b, id), o.clone());
        o
    }

    fn reg(&mut self, b: u64, salt: u64, ids: &[u64]) -> SignedRegister {
        let base = self.base(b);
        let signer = if salt == 0 { &self.owner } else { &self.stranger };
        let sig = signer.sign(base.bytes().unwrap());
        let ops: BTreeSet<RegisterOp> = ids.iter().map(|i| self.op(b, *i)).collect();
        SignedRegister::new(base, sig, ops)
    }

    fn header(hdr: &Value) -> Vec<u8> {
        match hdr.as_u64().and_then(kind_of_tag) {
            Some(k) => RecordHeader { kind: k }.try_serialize().unwrap().to_vec(),
            // a header that `RecordHeader::from_record` rejects (unknown kind tag)
            None => vec![0x91, 0x63],
        }
    }

    /// contentspec = {"hdr": tag|null, "p": ["tx",[ids]] | ["reg",base,valid,[ids],salt] |
    ///                                      ["pad",valid,count,data] | ["raw",id]}
    fn value(&mut self, spec: &Value) -> Vec<u8> {
        let keytxt = spec.to_string();
        if let Some(v) = self.built.get(&keytxt) {
            return v.clone();
        }
        let mut v = Self::header(&spec["hdr"]);
        let p = &spec["p"];
        match p[0].as_str().unwrap() {
            "tx" => {
                let txs: Vec<Transaction> =
                    p[1].as_array().unwrap().iter().map(|i| self.tx(i.as_u64().unwrap())).collect();
                v.extend(rmp_serde::to_vec(&txs).unwrap());
            }
            "reg" => {
                let ids: Vec<u64> = p[3].as_array().unwrap().iter().map(|i| i.as_u64().unwrap()).collect();
                let r = self.reg(p[1].as_u64().unwrap(), p[4].as_u64().unwrap(), &ids);
                v.extend(rmp_serde::to_vec(&r).unwrap());
            }
            "pad" => {
                let valid = p[1].as_bool().unwrap();
                let counter = p[2].as_u64().unwrap();
                let data = Bytes::from(format!("data-{}", p[3].as_u64().unwrap()).into_bytes());
                let mut signing = counter.to_be_bytes().to_vec();
                signing.extend(XorName::from_content(&data).to_vec());
                let signer = if valid { &self.owner } else { &self.stranger };
                let m = PadMirror {
                    address: ScratchpadAddress::new(self.owner.public_key()),
                    data_encoding: 0,
                    encrypted_data: data,
                    counter,
                    signature: Some(signer.sign(&signing)),
                };
                v.extend(rmp_serde::to_vec(&m).unwrap());
            }
            "raw" => {
                v.extend(rmp_serde::to_vec(&format!("raw-{}", p[1].as_u64().unwrap())).unwrap());
            }
            other => panic!("unknown payload {other}"),
        }
        self.built.insert(keytxt, v.clone());
        self.known.insert(v.clone(), spec.clone());
        v
    }

    fn key(k: u64) -> RecordKey {
        let mut b = [0u8; 32];
        b[..8].copy_from_slice(&k.to_be_bytes());
        b[31] = 0xAA;
        RecordKey::new(&b)
    }

    fn key_idx(k: &RecordKey) -> Value {
        let b: &[u8] = k.as_ref();
        if b.len() == 32 && b[31] == 0xAA && b[8..31].iter().all(|x| *x == 0) {
            let mut a = [0u8; 8];
            a.copy_from_slice(&b[..8]);
            json!(u64::from_be_bytes(a))
        } else {
            json!(-1)
        }
    }

    fn peer(&self, v: &Value, me: PeerId) -> Option<PeerId> {
        match v.as_u64() {
            None => None,
            Some(0) => Some(me),
            Some(j) => Some(self.peers[j as usize]),
        }
    }

    fn peer_abs(&self, p: &PeerId, me: PeerId) -> Value {
        if *p == me {
            json!(0)
        } else {
            json!(self.peer_idx.get(p).copied().unwrap_or(-1))
        }
    }

    /// recspec = {"key": k, "pub": null|peer, "c": contentspec}
    fn record(&mut self, spec: &Value, me: PeerId) -> Record {
        Record {
            key: Self::key(spec["key"].as_u64().unwrap()),
            value: self.value(&spec["c"]),
            publisher: self.peer(&spec["pub"], me),
            expires: None,
        }
    }

    /// what the real parsers make of a value: header kind tag and which typed decodings succeed
    fn parse_abs(&self, r: &Record) -> Value {
        let hdr = RecordHeader::from_record(r).ok().map(|h| tag_of_kind(h.kind));
        let reg = try_deserialize_record::<SignedRegister>(r).ok();
        let pad = try_deserialize_record::<Scratchpad>(r).ok();
        let txs = try_deserialize_record::<Vec<Transaction>>(r).ok();
        json!({"hdr": hdr,
               "reg": reg.as_ref().map(|x| x.verify().is_ok()),
               "pad": pad.as_ref().map(|x| json!([x.is_valid(), x.count()])),
               "tx": txs.as_ref().map(|x| x.len()),
               "gettx": ant_networking::get_transactions_from_record(r).is_ok()})
    }

    fn content_abs(&mut self, r: &Record) -> Value {
        if let Some(s) = self.known.get(&r.value) {
            return s.clone();
        }
        let hdr = RecordHeader::from_record(r).ok().map(|h| tag_of_kind(h.kind));
        let p = match hdr.and_then(kind_of_tag) {
            Some(RecordKind::Transaction) => match try_deserialize_record::<Vec<Transaction>>(r) {
                Ok(txs) => {
                    let ids: Vec<i64> = txs.iter().map(|t| {
                        self.tx_ids.get(&rmp_serde::to_vec(t).unwrap()).map(|x| *x as i64).unwrap_or(-1)
                    }).collect();
                    json!(["tx", ids])
                }
                Err(_) => json!(["unknown"]),
            },
            Some(RecordKind::Register) => match try_deserialize_record::<SignedRegister>(r) {
                Ok(reg) => {
                    let mut b = -1i64;
                    for cand in 0..16u64 {
                        if self.base(cand) == *reg.base_register() {
                            b = cand as i64;
                        }
                    }
                    let mut ids: Vec<i64> = reg.ops().iter().map(|o| {
                        self.op_ids.get(&rmp_serde::to_vec(o).unwrap()).map(|x| *x as i64).unwrap_or(-1)
                    }).collect();
                    ids.sort();
                    let salt = if b >= 0 {
                        let plain: Vec<u64> = ids.iter().filter(|x| **x >= 0).map(|x| *x as u64).collect();
                        if self.reg(b as u64, 0, &plain) == reg { 0 } else { 1 }
                    } else { 9 };
                    json!(["reg", b, reg.verify().is_ok(), ids, salt])
                }
                Err(_) => json!(["unknown"]),
            },
            Some(RecordKind::Scratchpad) => match try_deserialize_record::<Scratchpad>(r) {
                Ok(pad) => {
                    let d = String::from_utf8_lossy(pad.encrypted_data()).to_string();
                    let id = d.strip_prefix("data-").and_then(|x| x.parse::<i64>().ok()).unwrap_or(-1);
                    json!(["pad", pad.is_valid(), pad.count(), id])
                }
                Err(_) => json!(["unknown"]),
            },
            _ => json!(["unknown"]),
        };
        json!({"hdr": hdr, "p": p})
    }

    fn rec_abs(&mut self, r: &Record, me: PeerId) -> Value {
        json!({"key": Self::key_idx(&r.key),
               "pub": r.publisher.as_ref().map(|p| self.peer_abs(p, me)),
               "exp": r.expires.is_some(),
               "c": self.content_abs(r)})
    }

    fn quorum(v: &Value) -> Quorum {
        match v[0].as_str().unwrap() {
            "one" => Quorum::One,
            "maj" => Quorum::Majority,
            "all" => Quorum::All,
            "n" => Quorum::N(NonZeroUsize::new(v[1].as_u64().unwrap() as usize).expect("n >= 1")),
            other => panic!("unknown quorum {other}"),
        }
    }

    fn quorum_abs(q: &Quorum) -> Value {
        match q {
            Quorum::One => json!(["one"]),
            Quorum::Majority => json!(["maj"]),
            Quorum::All => json!(["all"]),
            Quorum::N(n) => json!(["n", n.get()]),
        }
    }

    /// cfgspec = {"q": quorum, "target": null|recspec, "isreg": bool, "holders": [peers], "retry": n}
    fn cfg(&mut self, v: &Value, me: PeerId) -> GetRecordCfg {
        let target_record = if v["target"].is_null() { None } else { Some(self.record(&v["target"], me)) };
        let expected_holders: HashSet<PeerId> = v["holders"].as_array().map(|a| {
            a.iter().filter_map(|p| self.peer(p, me)).collect()
        }).unwrap_or_default();
        let retry_strategy = match v["retry"].as_u64() {
            None | Some(0) => None,
            Some(1) => Some(RetryStrategy::None),
            Some(n) => Some(RetryStrategy::N(NonZeroUsize::new(n as usize).unwrap())),
        };
        GetRecordCfg {
            get_quorum: Self::quorum(&v["q"]),
            retry_strategy,
            target_record,
            expected_holders,
            is_register: v["isreg"].as_bool().unwrap_or(false),
        }
    }

    fn err_abs(&mut self, e: &GetRecordError, me: PeerId) -> Value {
        match e {
            GetRecordError::NotEnoughCopies { record, expected, got } =>
                json!({"err": "notenough", "rec": self.rec_abs(record, me), "expected": expected, "got": got}),
            GetRecordError::QueryTimeout => json!({"err": "timeout"}),
            GetRecordError::RecordDoesNotMatch(r) => json!({"err": "mismatch", "rec": self.rec_abs(r, me)}),
            GetRecordError::RecordKindMismatch => json!({"err": "kindmismatch"}),
            GetRecordError::RecordNotFound => json!({"err": "notfound"}),
            GetRecordError::SplitRecord { result_map } => {
                let mut vers: Vec<Value> = Vec::new();
                for (h, (rec, peers)) in result_map.iter() {
                    let mut ps: Vec<Value> = peers.iter().map(|p| self.peer_abs(p, me)).collect();
                    ps.sort_by_key(|x| x.as_i64());
                    vers.push(json!([self.rec_abs(rec, me), ps, *h == XorName::from_content(&rec.value)]));
                }
                vers.sort_by_key(|x| x.to_string());
                json!({"err": "split", "vers": vers})
            }
        }
    }

    fn outcome_abs(&mut self, r: &Res, me: PeerId) -> Value {
        match r {
            Ok(rec) => json!({"ok": self.rec_abs(rec, me)}),
            Err(e) => self.err_abs(e, me),
        }
    }
}

fn ret_abs(r: &std::result::Result<(), NetworkError>) -> Value {
    match r {
        Ok(()) => json!("ok"),
        Err(NetworkError::ReceivedKademliaEventDropped { .. }) => json!("dropped"),
        Err(NetworkError::InternalMsgChannelDropped) => json!("chan"),
        Err(e) => json!(format!("other: {e:?}")),
    }
}

enum Caller {
    Raw(Option<oneshot::Receiver<Res>>),
    Api(Option<tokio::task::JoinHandle<std::result::Result<Record, NetworkError>>>),
    /// the real oneshot of an api attempt lives inside `get_record_from_network`
    ApiAttempt,
}

fn pending_abs(u: &mut Universe, driver: &SwarmDriver, qids: &[QueryId], me: PeerId) -> Value {
    let mut qs: Vec<Value> = Vec::new();
    for (id, key, nsenders, vers, cfg) in driver.verif_pending_get_record() {
        let qi = qids.iter().position(|x| *x == id).map(|x| x as i64).unwrap_or(-1);
        let mut vs: Vec<Value> = vers.iter().map(|(rec, peers)| {
            let mut ps: Vec<Value> = peers.iter().map(|p| u.peer_abs(p, me)).collect();
            ps.sort_by_key(|x| x.as_i64());
            json!([u.rec_abs(rec, me), ps])
        }).collect();
        vs.sort_by_key(|x| x.to_string());
        let mut holders: Vec<Value> = cfg.expected_holders.iter().map(|p| u.peer_abs(p, me)).collect();
        holders.sort_by_key(|x| x.as_i64());
        qs.push(json!({"q": qi, "key": Universe::key_idx(&key), "senders": nsenders, "vers": vs,
                       "quorum": Universe::quorum_abs(&cfg.get_quorum),
                       "target": cfg.target_record.as_ref().map(|r| u.rec_abs(r, me)),
                       "isreg": cfg.is_register, "holders": holders}));
    }
    qs.sort_by_key(|x| x["q"].as_i64());
    json!(qs)
}

async fn settle() {
    for _ in 0..6 {
        tokio::task::yield_now().await;
    }
}

async fn run_hist(u: &mut Universe, case: &Value) -> Value {
    // "node": true -- the reader is a node with its own record store, pre-filled with "local": [recspec..]
    let node_mode = case["node"].as_bool().unwrap_or(false);
    let mut node_dir: Option<std::path::PathBuf> = None;
    let (_net, _evrx, mut driver) = if node_mode {
        static COUNTER: std::sync::atomic::AtomicUsize = std::sync::atomic::AtomicUsize::new(0);
        let dir = std::env::temp_dir().join(format!(
            "c05_node_{}_{}", std::process::id(), COUNTER.fetch_add(1, std::sync::atomic::Ordering::SeqCst)));
        let _ = std::fs::remove_dir_all(&dir);
        std::fs::create_dir_all(&dir).expect("node dir");
        node_dir = Some(dir.clone());
        let mut b = NetworkBuilder::new(Keypair::ed25519_from_bytes([0xEE; 32]).unwrap(), true);
        b.listen_addr("127.0.0.1:0".parse().unwrap());
        b.build_node(dir).expect("node-mode driver")
    } else {
        NetworkBuilder::new(Keypair::ed25519_from_bytes([0xEE; 32]).unwrap(), true)
            .build_client()
            .expect("client-mode driver")
    };
    let me = driver.verif_self_peer_id();
    let mut local_abs: Vec<Value> = Vec::new();
    if let Some(locals) = case["local"].as_array() {
        for spec in locals {
            let rec = u.record(spec, me);
            let key = rec.key.clone();
            let put = driver.verif_put_local_record(rec);
            let got = driver.verif_local_record(&key);
            local_abs.push(json!({"put": put.is_ok(), "held": got.map(|r| u.rec_abs(&r, me))}));
        }
    }
    // the Network handle the api callers use: its command channel is owned by the harness
    let (cmd_tx, mut cmd_rx) = mpsc::channel::<NetworkSwarmCmd>(64);
    let (local_tx, _local_rx) = mpsc::channel(64);
    let api_net = Network::new(cmd_tx, local_tx, me, Keypair::ed25519_from_bytes([0xEE; 32]).unwrap());

    let mut qids: Vec<QueryId> = Vec::new();
    let mut callers: Vec<Caller> = Vec::new();
    let mut steps: Vec<Value> = Vec::new();
    let mut abs_checks: Vec<Value> = Vec::new();
    let stale = |qids: &Vec<QueryId>, v: &Value| -> Option<QueryId> { qids.get(v.as_u64().unwrap() as usize).copied() };

    for ev in case["events"].as_array().unwrap() {
        let mut step = json!({});
        let kind = ev["e"].as_str().unwrap();
        let mut ret: Option<std::result::Result<(), NetworkError>> = None;
        match kind {
            "cmd" | "await_cmd" => {
                let before: HashSet<QueryId> = driver.verif_pending_get_record().iter().map(|x| x.0).collect();
                let senders_before: HashMap<QueryId, usize> =
                    driver.verif_pending_get_record().iter().map(|x| (x.0, x.2)).collect();
                let cmd = if kind == "await_cmd" {
                    // a retrying api caller sends its next attempt after its back-off sleep
                    match tokio::time::timeout(Duration::from_secs(8), cmd_rx.recv()).await {
                        Ok(Some(c)) => { callers.push(Caller::ApiAttempt); Some(c) }
                        _ => None,
                    }
                } else if ev["api"].as_bool().unwrap_or(false) {
                    let key = Universe::key(ev["key"].as_u64().unwrap());
                    let cfg = u.cfg(&ev["cfg"], me);
                    let net = api_net.clone();
                    let h = tokio::task::spawn_local(async move { net.get_record_from_network(key, &cfg).await });
                    callers.push(Caller::Api(Some(h)));
                    match tokio::time::timeout(Duration::from_secs(8), cmd_rx.recv()).await {
                        Ok(Some(c)) => Some(c),
                        _ => None,
                    }
                } else {
                    let (tx, rx) = oneshot::channel();
                    callers.push(Caller::Raw(Some(rx)));
                    Some(NetworkSwarmCmd::GetNetworkRecord {
                        key: Universe::key(ev["key"].as_u64().unwrap()),
                        sender: tx,
                        cfg: u.cfg(&ev["cfg"], me),
                    })
                };
                match cmd {
                    Some(c) => {
                        if let NetworkSwarmCmd::GetNetworkRecord { key, cfg, .. } = &c {
                            step["cmd_key"] = Universe::key_idx(key);
                            step["cmd_quorum"] = Universe::quorum_abs(&cfg.get_quorum);
                        }
                        ret = Some(driver.verif_handle_network_cmd(c));
                        let after = driver.verif_pending_get_record();
                        let mut qidx: i64 = -1;
                        for x in after.iter() {
                            if !before.contains(&x.0) {
                                qids.push(x.0);
                                qidx = (qids.len() - 1) as i64;
                                step["created"] = json!(true);
                            } else if senders_before.get(&x.0) != Some(&x.2) {
                                qidx = qids.iter().position(|q| *q == x.0).map(|p| p as i64).unwrap_or(-1);
                                step["created"] = json!(false);
                            }
                        }
                        step["q"] = json!(qidx);
                    }
                    None => { step["no_cmd"] = json!(true); }
                }
            }
            "found" => {
                let rec = u.record(&ev["rec"], me);
                if abs_checks.len() < 64 {
                    abs_checks.push(json!([ev["rec"]["c"], u.parse_abs(&rec)]));
                }
                match stale(&qids, &ev["q"]) {
                    Some(id) => {
                        let count = NonZeroUsize::new(ev["step"].as_u64().unwrap_or(1).max(1) as usize).unwrap();
                        let e = kad::Event::OutboundQueryProgressed {
                            id,
                            result: QueryResult::GetRecord(Ok(GetRecordOk::FoundRecord(PeerRecord {
                                peer: u.peer(&ev["peer"], me),
                                record: rec,
                            }))),
                            stats: QueryStats::empty(),
                            step: ProgressStep { count, last: false },
                        };
                        ret = Some(driver.verif_handle_kad_event(e));
                    }
                    None => { step["no_such_query"] = json!(true); }
                }
            }
            "finished" | "notfound" | "quorumfailed" | "timeout" => {
                match stale(&qids, &ev["q"]) {
                    Some(id) => {
                        // the key the query was issued for (the handlers only log it)
                        let key = Universe::key(ev["key"].as_u64().unwrap_or(0));
                        let result = match kind {
                            "finished" => QueryResult::GetRecord(Ok(GetRecordOk::FinishedWithNoAdditionalRecord { cache_candidates: Default::default() })),
                            "notfound" => QueryResult::GetRecord(Err(kad::GetRecordError::NotFound { key, closest_peers: vec![] })),
                            "quorumfailed" => QueryResult::GetRecord(Err(kad::GetRecordError::QuorumFailed { key, records: vec![], quorum: NonZeroUsize::new(1).unwrap() })),
                            _ => QueryResult::GetRecord(Err(kad::GetRecordError::Timeout { key })),
                        };
                        let count = NonZeroUsize::new(ev["step"].as_u64().unwrap_or(1).max(1) as usize).unwrap();
                        let e = kad::Event::OutboundQueryProgressed {
                            id, result, stats: QueryStats::empty(), step: ProgressStep { count, last: true },
                        };
                        ret = Some(driver.verif_handle_kad_event(e));
                    }
                    None => { step["no_such_query"] = json!(true); }
                }
            }
            "drop" => {
                // the caller gives up: its receiver is dropped
                if let Some(Caller::Raw(rx)) = callers.get_mut(ev["c"].as_u64().unwrap() as usize) {
                    *rx = None;
                }
            }
            other => panic!("unknown event {other}"),
        }
        if let Some(r) = &ret {
            step["ret"] = ret_abs(r);
        }
        settle().await;
        // read what every caller has received by now
        let mut outs: Vec<Value> = Vec::new();
        for (ci, c) in callers.iter_mut().enumerate() {
            match c {
                Caller::Raw(slot) => {
                    if let Some(rx) = slot {
                        match rx.try_recv() {
                            Ok(res) => { outs.push(json!([ci, u.outcome_abs(&res, me)])); *slot = None; }
                            Err(oneshot::error::TryRecvError::Closed) => { outs.push(json!([ci, {"closed": true}])); *slot = None; }
                            Err(oneshot::error::TryRecvError::Empty) => {}
                        }
                    }
                }
                Caller::Api(slot) => {
                    if slot.as_ref().map(|h| h.is_finished()).unwrap_or(false) {
                        let h = slot.take().unwrap();
                        let v = match h.await {
                            Ok(Ok(rec)) => json!({"api_ok": u.rec_abs(&rec, me)}),
                            Ok(Err(NetworkError::GetRecordError(e))) => json!({"api_err": u.err_abs(&e, me)}),
                            Ok(Err(NetworkError::InternalMsgChannelDropped)) => json!({"api_err": {"err": "chan"}}),
                            Ok(Err(e)) => json!({"api_err": {"err": format!("other: {e:?}")}}),
                            Err(e) => json!({"api_err": {"err": format!("join: {e:?}")}}),
                        };
                        outs.push(json!([ci, v]));
                    }
                }
                Caller::ApiAttempt => {}
            }
        }
        step["outs"] = json!(outs);
        step["pending"] = pending_abs(u, &driver, &qids, me);
        steps.push(step);
    }
    // callers still waiting when the history ends
    let waiting: Vec<usize> = callers.iter().enumerate().filter_map(|(i, c)| match c {
        Caller::Raw(Some(_)) => Some(i),
        Caller::Api(Some(_)) => Some(i),
        _ => None,
    }).collect();
    for c in callers.iter_mut() {
        if let Caller::Api(Some(h)) = c { h.abort(); }
    }
    drop(driver);
    if let Some(d) = node_dir {
        let _ = std::fs::remove_dir_all(d);
    }
    json!({"steps": steps, "waiting": waiting, "abs": abs_checks, "local": local_abs,
           "majority": close_group_majority()})
}

fn run_split(u: &mut Universe, case: &Value) -> Value {
    let me = u.peers[39];
    let key = Universe::key(case["key"].as_u64().unwrap());
    let recs: Vec<Record> = case["vers"].as_array().unwrap().iter().map(|r| u.record(r, me)).collect();
    let abs: Vec<Value> = case["vers"].as_array().unwrap().iter().zip(recs.iter())
        .map(|(s, r)| json!([s["c"], u.parse_abs(r)])).collect();
    let reps = case["reps"].as_u64().unwrap_or(16);
    let mut results: Vec<String> = Vec::new();
    let mut distinct: Vec<Value> = Vec::new();
    for _ in 0..reps {
        // a fresh map each time: every `HashMap::new()` draws new hash keys, hence a new iteration order
        let mut m: HashMap<XorName, (Record, HashSet<PeerId>)> = HashMap::new();
        for (i, r) in recs.iter().enumerate() {
            let mut hs = HashSet::new();
            hs.insert(u.peers[1 + (i % 30)]);
            m.insert(XorName::from_content(&r.value), (r.clone(), hs));
        }
        let out = match SwarmDriver::verif_handle_split_record_error(&m, &key) {
            Ok(Some(rec)) => json!({"some": u.rec_abs(&rec, me)}),
            Ok(None) => json!({"none": true}),
            Err(e) => json!({"error": format!("{e:?}")}),
        };
        let t = out.to_string();
        if !results.contains(&t) {
            results.push(t);
            distinct.push(out);
        }
    }
    distinct.sort_by_key(|x| x.to_string());
    json!({"results": distinct, "abs": abs, "nversions": recs.iter().map(|r| XorName::from_content(&r.value)).collect::<HashSet<_>>().len()})
}

fn run_case(rt: &tokio::runtime::Runtime, u: &mut Universe, case: &Value) -> Value {
    match case["kind"].as_str().unwrap() {
        "hist" => {
            let local = tokio::task::LocalSet::new();
            local.block_on(rt, run_hist(u, case))
        }
        "split" => run_split(u, case),
        "target" => {
            let me = u.peers[39];
            let cfg = u.cfg(&case["cfg"], me);
            let rec = u.record(&case["rec"], me);
            json!({"match": cfg.does_target_match(&rec), "abs": [[case["rec"]["c"], u.parse_abs(&rec)]]})
        }
        "quorum" => json!({"value": get_quorum_value(&Universe::quorum(&case["q"])), "majority": close_group_majority()}),
        other => json!({"error": format!("unknown kind {other}")}),
    }
}

fn main() {
    // every event of the code under test is formatted (into a sink): a panicking expression in the
    // arguments of a log line surfaces as a `panic` outcome of the case, as it would on a real node
    let _ = tracing_subscriber::fmt()
        .with_max_level(tracing::Level::TRACE)
        .with_writer(std::io::sink)
        .try_init();
    std::panic::set_hook(Box::new(|_| {}));
    // paused clock: timers fire as soon as every task is idle (back-off sleeps of the retry loop, our own timeouts)
    let rt = tokio::runtime::Builder::new_current_thread().enable_all().start_paused(true).build().unwrap();
    let mut u = Universe::new();
    let stdin = std::io::stdin();
    let out = std::io::stdout();
    let mut out = out.lock();
    for line in stdin.lock().lines() {
        let line = line.unwrap();
        if line.trim().is_empty() {
            continue;
        }
        let case: Value = serde_json::from_str(&line).unwrap();
        let res = catch_unwind(AssertUnwindSafe(|| run_case(&rt, &mut u, &case))).unwrap_or_else(|p| {
            let msg = p.downcast_ref::<String>().cloned()
                .or_else(|| p.downcast_ref::<&str>().map(|s| s.to_string()))
                .unwrap_or_default();
            json!({"panic": msg})
        });
        writeln!(out, "{res}").unwrap();
    }
}
