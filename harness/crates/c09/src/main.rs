//! C09 harness: two or three REAL nodes in one process. Each node is a real node-mode
//! `SwarmDriver` (real `NodeRecordStore`, real `ReplicationFetcher`, real routing table) plus the
//! real `ant_node` `Node` (validation, `handle_network_event`, `handle_query`) built around that
//! driver's own `Network` handle. libp2p never carries anything: this process takes every queued
//! command off the drivers' own receivers (cfg-guarded `verif_try_recv_*`), hands local commands
//! and responses to the real handlers, and keeps outbound requests (`Cmd::Replicate`,
//! `Query::GetReplicatedRecord`) in a pool from which the CASE decides what is delivered when.
//!
//! One JSON case per stdin line, one JSON result per stdout line; see tools/props/C09.py.
mod build;

use ant_evm::EvmNetwork;
use ant_networking::verif_hooks::{cmd as nethooks, LocalSwarmCmd, NetworkSwarmCmd};
use ant_networking::{MsgResponder, Network, NetworkBuilder, NetworkError, NetworkEvent, SwarmDriver};
use ant_node::verif_hooks::VerifNode;
use ant_node::NodeEventsChannel;
use ant_protocol::messages::{Cmd, Query, Request, Response};
use ant_protocol::storage::RecordType;
use ant_protocol::NetworkAddress;
use build::Registry;
use libp2p::kad::RecordKey;
use libp2p::{Multiaddr, PeerId};
use serde_json::{json, Value};
use std::io::{BufRead, Write};
use std::panic::{catch_unwind, AssertUnwindSafe};
use tokio::sync::{mpsc, oneshot};

struct SimNode {
    peer: PeerId,
    driver: SwarmDriver,
    network: Network,
    events: mpsc::Receiver<NetworkEvent>,
    node: VerifNode,
    _dir: tempfile::TempDir,
}

enum Msg {
    Replicate { from: usize, to: i64, holder: NetworkAddress, keys: Vec<(NetworkAddress, RecordType)> },
    Fetch { from: usize, to: i64, query: Query, sender: oneshot::Sender<Result<Response, NetworkError>> },
    Other { from: usize, to: i64, dbg: String, sender: Option<oneshot::Sender<Result<Response, NetworkError>>> },
}

struct Sim {
    nodes: Vec<SimNode>,
    pool: Vec<Msg>,
    reg: Registry,
    notes: Vec<Value>,
    /// peers that exist only as routing-table entries: peer id -> 100 + seed
    phantoms: std::collections::HashMap<PeerId, i64>,
    /// nodes whose `AddLocalRecordAsStored` commands (sent by the store after its spawned disk write) are
    /// held back instead of being handed to the driver, and the commands held back so far
    hold_local: std::collections::HashSet<usize>,
    held_back: Vec<(usize, LocalSwarmCmd)>,
}

fn peer_index(sim: &Sim, p: &PeerId) -> i64 {
    sim.nodes
        .iter()
        .position(|n| &n.peer == p)
        .map(|i| i as i64)
        .or_else(|| sim.phantoms.get(p).copied())
        .unwrap_or(-1)
}

/// distance between a peer and a record key: XOR of the SHA-256 digests, big-endian (computed
/// here independently of the repository's own conversion)
fn distance_u256(peer: &PeerId, key: &RecordKey) -> ant_evm::U256 {
    use sha2::{Digest, Sha256};
    let a = Sha256::digest(peer.to_bytes());
    let b = Sha256::digest(key.as_ref());
    let mut x = [0u8; 32];
    for i in 0..32 {
        x[i] = a[i] ^ b[i];
    }
    ant_evm::U256::from_be_bytes(x)
}

/// distance between two peers, the same independent way (SHA-256 of the PeerId bytes, XOR, big-endian)
fn peer_distance_u256(a: &PeerId, b: &PeerId) -> ant_evm::U256 {
    use sha2::{Digest, Sha256};
    let a = Sha256::digest(a.to_bytes());
    let b = Sha256::digest(b.to_bytes());
    let mut x = [0u8; 32];
    for i in 0..32 {
        x[i] = a[i] ^ b[i];
    }
    ant_evm::U256::from_be_bytes(x)
}

/// every routing-table peer of node `i` (what kademlia's own iterator over the table yields), each with
/// its independently computed distance to the node, nearest first by THAT distance
fn routing_table_by_distance(sim: &mut Sim, i: usize) -> Vec<(PeerId, ant_evm::U256)> {
    let me = sim.nodes[i].peer;
    let self_addr = NetworkAddress::from_peer(me);
    let mut l: Vec<(PeerId, ant_evm::U256)> = nethooks::closest_local_peers(&mut sim.nodes[i].driver, &self_addr)
        .into_iter()
        .map(|p| (p, peer_distance_u256(&me, &p)))
        .collect();
    l.sort_by(|a, b| a.1.cmp(&b.1));
    l
}

/// the record store's range asked for by a `set_range` op of node `i`:
/// "max" | {"key": k, "below"|"above": bool} | {"among": [k..], "rank": r, "delta": -1|0|1}
/// | {"peer_rank": r, "delta": -1|0|1}
/// (`among`/`rank`: the distance of the r-th nearest, 0-based, of the listed keys to node `i`;
///  `peer_rank`: the distance of the r-th nearest, 1-based, routing-table peer of node `i`)
fn range_of_spec(sim: &mut Sim, i: usize, spec: &Value) -> ant_evm::U256 {
    let one = ant_evm::U256::from(1u8);
    if spec.as_str() == Some("max") {
        return ant_evm::U256::MAX;
    }
    if let Some(r) = spec.get("peer_rank").and_then(|v| v.as_u64()) {
        let rt = routing_table_by_distance(sim, i);
        let pos = (r.max(1) as usize - 1).min(rt.len().saturating_sub(1));
        let d = rt.get(pos).map(|(_, d)| *d).unwrap_or(ant_evm::U256::MAX);
        return match spec["delta"].as_i64().unwrap_or(0) {
            x if x < 0 => d.saturating_sub(one),
            0 => d,
            _ => d.saturating_add(one),
        };
    }
    if let Some(keys) = spec.get("among").and_then(|v| v.as_array()) {
        let mut ds: Vec<ant_evm::U256> = keys
            .iter()
            .map(|kv| {
                let k = build::key(&mut sim.reg, kv);
                distance_u256(&sim.nodes[i].peer, &k)
            })
            .collect();
        ds.sort();
        let r = (spec["rank"].as_u64().unwrap_or(0) as usize).min(ds.len().saturating_sub(1));
        let d = ds.get(r).copied().unwrap_or(ant_evm::U256::MAX);
        return match spec["delta"].as_i64().unwrap_or(0) {
            x if x < 0 => d.saturating_sub(one),
            0 => d,
            _ => d.saturating_add(one),
        };
    }
    let k = build::key(&mut sim.reg, &spec["key"]);
    let d = distance_u256(&sim.nodes[i].peer, &k);
    if spec["below"].as_bool().unwrap_or(false) {
        d.saturating_sub(one)
    } else if spec["above"].as_bool().unwrap_or(false) {
        d.saturating_add(one)
    } else {
        d
    }
}

fn rtype_json(t: &RecordType) -> Value {
    match t {
        RecordType::Chunk => json!("chunk"),
        RecordType::Scratchpad => json!("pad"),
        RecordType::NonChunk(h) => json!({"nc": hex::encode(h.0)}),
    }
}

fn addr_key_name(reg: &Registry, a: &NetworkAddress) -> Value {
    build::key_name(reg, a.to_record_key().as_ref())
}

fn keys_json(reg: &Registry, keys: &[(NetworkAddress, RecordType)]) -> Value {
    let mut l: Vec<Value> = keys.iter().map(|(a, t)| json!([addr_key_name(reg, a), rtype_json(t)])).collect();
    l.sort_by_key(|v| v.to_string());
    Value::Array(l)
}

fn msg_json(sim: &Sim, m: &Msg) -> Value {
    match m {
        Msg::Replicate { from, to, holder, keys } => json!({
            "t": "replicate", "from": from, "to": to,
            "holder": holder.as_peer_id().map(|p| peer_index(sim, &p)).unwrap_or(-2),
            "keys": keys_json(&sim.reg, keys)}),
        Msg::Fetch { from, to, query, .. } => match query {
            Query::GetReplicatedRecord { requester, key } => json!({
                "t": "fetch", "from": from, "to": to,
                "requester": requester.as_peer_id().map(|p| peer_index(sim, &p)).unwrap_or(-2),
                "key": addr_key_name(&sim.reg, key)}),
            q => json!({"t": "query", "from": from, "to": to, "dbg": format!("{q:?}")}),
        },
        Msg::Other { from, to, dbg, .. } => json!({"t": "other", "from": from, "to": to, "dbg": dbg}),
    }
}

async fn yield_some() {
    for _ in 0..8 {
        tokio::task::yield_now().await;
    }
}

/// Pump every node until nothing moves: run spawned tasks, hand local commands to the real
/// `handle_local_cmd`, take outbound requests into the pool, let the real `handle_network_cmd`
/// deal with responses, and hand node-level events to the real `Node::handle_network_event`.
async fn settle(sim: &mut Sim, step: &mut Vec<Value>) {
    let mut idle = 0;
    let mut rounds = 0;
    while idle < 3 && rounds < 400 {
        rounds += 1;
        yield_some().await;
        let mut progress = false;
        for i in 0..sim.nodes.len() {
            while let Some(cmd) = sim.nodes[i].driver.verif_try_recv_local_cmd() {
                progress = true;
                if let LocalSwarmCmd::RemoveFailedLocalRecord { key } = &cmd {
                    step.push(json!({"node": i, "write_failed": build::key_name(&sim.reg, key.as_ref())}));
                }
                if let LocalSwarmCmd::PutLocalRecord { record } = &cmd {
                    // the point where the driver copies the store's range into the fetcher
                    step.push(json!({"node": i, "put_local": build::key_name(&sim.reg, record.key.as_ref())}));
                }
                if sim.hold_local.contains(&i) {
                    if let LocalSwarmCmd::AddLocalRecordAsStored { key, .. } = &cmd {
                        step.push(json!({"node": i, "held_back": build::key_name(&sim.reg, key.as_ref())}));
                        sim.held_back.push((i, cmd));
                        continue;
                    }
                }
                if let Err(e) = nethooks::handle_local_cmd(&mut sim.nodes[i].driver, cmd) {
                    step.push(json!({"node": i, "local_cmd_err": format!("{e:?}")}));
                }
            }
            while let Some(cmd) = sim.nodes[i].driver.verif_try_recv_network_cmd() {
                progress = true;
                match cmd {
                    NetworkSwarmCmd::SendRequest { req, peer, sender } => {
                        let to = peer_index(sim, &peer);
                        let m = match req {
                            Request::Cmd(Cmd::Replicate { holder, keys }) => Msg::Replicate { from: i, to, holder, keys },
                            Request::Query(query) => match sender {
                                Some(sender) => Msg::Fetch { from: i, to, query, sender },
                                None => Msg::Other { from: i, to, dbg: format!("{query:?}"), sender: None },
                            },
                            other => Msg::Other { from: i, to, dbg: format!("{other:?}"), sender },
                        };
                        step.push(json!({"sent": msg_json(sim, &m)}));
                        sim.pool.push(m);
                    }
                    NetworkSwarmCmd::SendResponse { resp, channel } => {
                        if let Err(e) = sim.nodes[i].driver.verif_handle_network_cmd(NetworkSwarmCmd::SendResponse { resp, channel }) {
                            step.push(json!({"node": i, "send_response_err": format!("{e:?}")}));
                        }
                    }
                    NetworkSwarmCmd::GetNetworkRecord { key, sender, .. } => {
                        // the fall-back after a failed fetch: the harness network has no kad; answer "not found"
                        step.push(json!({"node": i, "get_network_record": build::key_name(&sim.reg, key.as_ref())}));
                        let _ = sender.send(Err(ant_networking::GetRecordError::RecordNotFound));
                    }
                    other => {
                        step.push(json!({"node": i, "ignored_network_cmd": format!("{other:?}").chars().take(120).collect::<String>()}));
                    }
                }
            }
            while let Ok(ev) = sim.nodes[i].events.try_recv() {
                progress = true;
                match ev {
                    NetworkEvent::KeysToFetchForReplication(keys) => {
                        let mut l: Vec<Value> = keys
                            .iter()
                            .map(|(p, k)| json!([peer_index(sim, p), build::key_name(&sim.reg, k.as_ref())]))
                            .collect();
                        l.sort_by_key(|v| v.to_string());
                        step.push(json!({"node": i, "keys_to_fetch": l}));
                        sim.nodes[i].node.handle_network_event(NetworkEvent::KeysToFetchForReplication(keys));
                    }
                    NetworkEvent::FailedToFetchHolders(h) => {
                        step.push(json!({"node": i, "failed_holders": h.iter().map(|p| peer_index(sim, p)).collect::<Vec<_>>()}));
                    }
                    other => {
                        let d = format!("{other:?}");
                        if !d.starts_with("NetworkEvent::PeerAdded") && !d.starts_with("NetworkEvent::NewListenAddr") {
                            step.push(json!({"node": i, "event": d.chars().take(100).collect::<String>()}));
                        }
                    }
                }
            }
        }
        if progress {
            idle = 0;
        } else {
            idle += 1;
        }
    }
}

async fn deliver(sim: &mut Sim, m: Msg, step: &mut Vec<Value>) {
    match m {
        Msg::Replicate { to, holder, keys, .. } => {
            if to >= 0 && (to as usize) < sim.nodes.len() {
                sim.nodes[to as usize].driver.verif_handle_replicate_cmd(holder, keys);
            }
        }
        Msg::Fetch { to, query, sender, .. } => {
            if to >= 0 && (to as usize) < sim.nodes.len() {
                sim.nodes[to as usize].node.handle_network_event(NetworkEvent::QueryRequestReceived {
                    query,
                    channel: MsgResponder::FromSelf(Some(sender)),
                });
            } else {
                drop(sender);
            }
        }
        Msg::Other { sender, .. } => drop(sender),
    }
    settle(sim, step).await;
}

fn dump_node(sim: &mut Sim, i: usize) -> Value {
    let addrs = sim.nodes[i].driver.verif_record_addresses();
    let mut held = vec![];
    let mut bulk = 0usize;
    for (a, t) in &addrs {
        let key: RecordKey = a.to_record_key();
        if !sim.reg.keys.contains_key(key.as_ref()) {
            // filler records of a `bulk_store` op: only their number is reported
            bulk += 1;
            continue;
        }
        let content = match sim.nodes[i].driver.verif_get_local_record(&key) {
            Some(r) => build::describe(&sim.reg, &r.value),
            None => json!({"t": "unreadable"}),
        };
        let dist = distance_u256(&sim.nodes[i].peer, &key).to_string();
        held.push(json!({"key": build::key_name(&sim.reg, key.as_ref()), "type": rtype_json(t), "content": content, "dist": dist}));
    }
    // records the store serves (`RecordStore::get`, cache first) although its index does not list them yet:
    // put, but the follow-up AddLocalRecordAsStored has not been handled
    let indexed: std::collections::HashSet<Vec<u8>> = addrs.iter().map(|(a, _)| a.to_record_key().to_vec()).collect();
    let reg_keys: Vec<Vec<u8>> = sim.reg.keys.keys().cloned().collect();
    for kb in reg_keys {
        if indexed.contains(&kb) {
            continue;
        }
        let key = RecordKey::from(kb.clone());
        if let Some(r) = sim.nodes[i].driver.verif_get_local_record(&key) {
            let dist = distance_u256(&sim.nodes[i].peer, &key).to_string();
            held.push(json!({"key": build::key_name(&sim.reg, &kb), "type": Value::Null, "unindexed": true,
                             "content": build::describe(&sim.reg, &r.value), "dist": dist}));
        }
    }
    held.sort_by_key(|v| v["key"].to_string());
    let self_addr = NetworkAddress::from_peer(sim.nodes[i].peer);
    let closest: Vec<i64> = sim.nodes[i].driver.verif_closest_k_value_local_peers().iter().map(|p| peer_index(sim, p)).collect();
    let cands: Vec<i64> = nethooks::get_replicate_candidates(&mut sim.nodes[i].driver, &self_addr).iter().map(|p| peer_index(sim, p)).collect();
    let range = nethooks::get_responsible_distance_range(&mut sim.nodes[i].driver).map(|r| r.to_string());
    let (inflight, queued) = sim.nodes[i].driver.verif_fetcher_inflight_and_queued();
    let mut infl: Vec<Value> = inflight.iter().map(|(k, t)| json!([build::key_name(&sim.reg, k.as_ref()), rtype_json(t)])).collect();
    infl.sort_by_key(|v| v.to_string());
    let mut qd: Vec<Value> = queued
        .iter()
        .map(|(k, t, p)| json!([build::key_name(&sim.reg, k.as_ref()), rtype_json(t), peer_index(sim, p)]))
        .collect();
    qd.sort_by_key(|v| v.to_string());
    // the routing table as kademlia's own iterator yields it (peer indices)
    let rt: Vec<i64> = nethooks::closest_local_peers(&mut sim.nodes[i].driver, &self_addr).iter().map(|p| peer_index(sim, p)).collect();
    json!({"held": held, "closest_k": closest, "candidates": cands, "range": range, "inflight": infl, "queued": qd, "rt": rt, "bulk": bulk})
}

/// final dump only: the distance from node `i` to EVERY key the case mentioned and to every peer of its
/// routing table, computed here (SHA-256 XOR) independently of the repository
fn dump_distances(sim: &mut Sim, i: usize, node: &mut Value) {
    let me = sim.nodes[i].peer;
    let mut dists: Vec<Value> = sim
        .reg
        .keys
        .iter()
        .map(|(kb, name)| json!([name, distance_u256(&me, &RecordKey::from(kb.clone())).to_string()]))
        .collect();
    dists.sort_by_key(|v| v.to_string());
    let peer_dists: Vec<Value> = routing_table_by_distance(sim, i)
        .iter()
        .map(|(p, d)| json!([peer_index(sim, p), d.to_string()]))
        .collect();
    node["dists"] = Value::Array(dists);
    node["peer_dists"] = Value::Array(peer_dists);
}

fn snapshot(sim: &mut Sim, eff: Value, log: Vec<Value>) -> Value {
    let pending: Vec<Value> = sim.pool.iter().map(|m| msg_json(sim, m)).collect();
    let mut state = vec![];
    for i in 0..sim.nodes.len() {
        state.push(dump_node(sim, i));
    }
    json!({"eff": eff, "log": log, "pool": pending, "state": state})
}

async fn run_case_async(case: &Value) -> Value {
    let seeds: Vec<i64> = case["nodes"].as_array().unwrap().iter().map(|v| v.as_i64().unwrap()).collect();
    let mut sim = Sim { nodes: vec![], pool: vec![], reg: Registry::default(), notes: vec![], phantoms: Default::default(), hold_local: Default::default(), held_back: vec![] };
    for s in &seeds {
        let kp = build::peer_kp(*s);
        let peer = kp.public().to_peer_id();
        let dir = tempfile::tempdir().expect("tempdir");
        let mut nb = NetworkBuilder::new(kp, true);
        nb.listen_addr("127.0.0.1:0".parse().unwrap());
        let (network, events, driver) = nb.build_node(dir.path().to_path_buf()).expect("build_node");
        let node = VerifNode::new(network.clone(), EvmNetwork::ArbitrumOne, build::rewards(*s), NodeEventsChannel::default());
        sim.nodes.push(SimNode { peer, driver, network, events, node, _dir: dir });
    }
    let mut steps = vec![];
    for op in case["ops"].as_array().unwrap() {
        let mut step: Vec<Value> = vec![];
        let mut eff = op.clone();
        match op["op"].as_str().unwrap() {
            "connect" => {
                let (a, b) = (op["a"].as_u64().unwrap() as usize, op["b"].as_u64().unwrap() as usize);
                let peer = sim.nodes[b].peer;
                let addr: Multiaddr = format!("/ip4/127.0.0.1/udp/{}/quic-v1/p2p/{}", 40000 + b, peer).parse().unwrap();
                let ok = nethooks::add_peer_to_routing_table(&mut sim.nodes[a].driver, peer, addr);
                step.push(json!({"added": ok}));
                settle(&mut sim, &mut step).await;
            }
            "phantom" => {
                // peers that are only routing-table entries of node `node`
                let i = op["node"].as_u64().unwrap() as usize;
                let mut added = 0;
                for sv in op["seeds"].as_array().unwrap() {
                    let sd = sv.as_i64().unwrap();
                    let peer = build::peer_id(sd);
                    sim.phantoms.insert(peer, 100 + sd);
                    let addr: Multiaddr = format!("/ip4/127.0.0.1/udp/{}/quic-v1/p2p/{}", 41000 + sd, peer).parse().unwrap();
                    if nethooks::add_peer_to_routing_table(&mut sim.nodes[i].driver, peer, addr) {
                        added += 1;
                    }
                }
                step.push(json!({"added": added}));
                settle(&mut sim, &mut step).await;
            }
            "set_range" => {
                // the record store's responsible distance range of node `node`:
                // "max", or just below / exactly at the distance of a key
                let i = op["node"].as_u64().unwrap() as usize;
                let range = range_of_spec(&mut sim, i, &op["range"]);
                nethooks::set_responsible_distance_range(&mut sim.nodes[i].driver, range);
                step.push(json!({"range": range.to_string()}));
                eff["value"] = json!(range.to_string());
            }
            "seed" => {
                // a record enters node `node` through the real replication-path validation
                let i = op["node"].as_u64().unwrap() as usize;
                let k = build::key(&mut sim.reg, &op["key"]);
                let v = build::value(&mut sim.reg, op["hdr"].as_i64().unwrap(), &op["body"], &None);
                let node = sim.nodes[i].node.clone();
                let (tx, mut rx) = oneshot::channel();
                tokio::spawn(async move {
                    let r = node.store_replicated_in_record(build::record(k, v)).await;
                    let _ = tx.send(r.map_err(|e| format!("{e:?}")));
                });
                settle(&mut sim, &mut step).await;
                match rx.try_recv() {
                    Ok(Ok(())) => step.push(json!({"seed": "ok"})),
                    Ok(Err(e)) => step.push(json!({"seed": "err", "err": e.chars().take(80).collect::<String>()})),
                    Err(_) => step.push(json!({"seed": "pending"})),
                }
            }
            "replicate" => {
                let i = op["node"].as_u64().unwrap() as usize;
                sim.nodes[i].driver.verif_reset_replication_timers();
                sim.nodes[i].network.trigger_interval_replication();
                settle(&mut sim, &mut step).await;
            }
            "advert" => {
                // an explicit replication list, e.g. claiming a holder that is not a close peer
                let to = op["to"].as_u64().unwrap() as usize;
                if let Some(r) = op["holder"].get("rank").and_then(|v| v.as_u64()) {
                    // the r-th nearest (1-based) routing-table peer of the receiver, by the distance
                    // computed here; the concrete peer goes into the step's effective op
                    let rt = routing_table_by_distance(&mut sim, to);
                    let pos = (r.max(1) as usize - 1).min(rt.len().saturating_sub(1));
                    let idx = rt.get(pos).map(|(p, _)| peer_index(&sim, p)).unwrap_or(-3);
                    eff["holder"] = json!(if idx >= 100 { idx - 100 } else { idx });
                    eff["rank"] = json!(pos + 1);
                    eff["table_size"] = json!(rt.len());
                }
                let holder = match eff["holder"].as_i64().unwrap() {
                    h if h >= 0 && (h as usize) < sim.nodes.len() => NetworkAddress::from_peer(sim.nodes[h as usize].peer),
                    -3 => NetworkAddress::from_chunk_address(ant_protocol::storage::ChunkAddress::new(xor_name::XorName([7u8; 32]))),
                    h => NetworkAddress::from_peer(build::peer_id(h)),
                };
                let mut keys = vec![];
                for kv in op["keys"].as_array().unwrap() {
                    let k = build::key(&mut sim.reg, &kv[0]);
                    let t = match &kv[1] {
                        Value::String(s) if s == "chunk" => RecordType::Chunk,
                        Value::String(_) => RecordType::Scratchpad,
                        v => RecordType::NonChunk(xor_name::XorName([v["ncb"].as_u64().unwrap() as u8; 32])),
                    };
                    keys.push((NetworkAddress::from_record_key(&k), t));
                }
                sim.nodes[to].driver.verif_handle_replicate_cmd(holder, keys);
                settle(&mut sim, &mut step).await;
            }
            "deliver" => {
                if !sim.pool.is_empty() {
                    let i = (op["i"].as_u64().unwrap() as usize) % sim.pool.len();
                    let m = sim.pool.remove(i);
                    eff = json!({"deliver": msg_json(&sim, &m)});
                    deliver(&mut sim, m, &mut step).await;
                }
            }
            "drop" => {
                if !sim.pool.is_empty() {
                    let i = (op["i"].as_u64().unwrap() as usize) % sim.pool.len();
                    let m = sim.pool.remove(i);
                    eff = json!({"drop": msg_json(&sim, &m)});
                    drop(m);
                    settle(&mut sim, &mut step).await;
                }
            }
            "run" => {
                // deliver everything, choosing the next message with the case's own sequence;
                // every delivery is reported as a step of its own
                let picks: Vec<u64> = op.get("picks").and_then(|p| p.as_array()).map(|l| l.iter().map(|v| v.as_u64().unwrap()).collect()).unwrap_or_default();
                let mut n = 0usize;
                while !sim.pool.is_empty() && n < 500 {
                    let i = (picks.get(n % picks.len().max(1)).copied().unwrap_or(0) as usize) % sim.pool.len();
                    let m = sim.pool.remove(i);
                    let e = json!({"deliver": msg_json(&sim, &m)});
                    let mut sub = vec![];
                    deliver(&mut sim, m, &mut sub).await;
                    let snap = snapshot(&mut sim, e, sub);
                    steps.push(snap);
                    n += 1;
                }
                continue;
            }
            "run_replicates" | "run_fetch_of" => {
                // deliver, oldest first, every pending replication list / every pending fetch of one key;
                // each delivery is reported as a step of its own
                let only_key = if op["op"].as_str() == Some("run_fetch_of") { Some(build::key(&mut sim.reg, &op["key"])) } else { None };
                let mut guard = 0;
                loop {
                    guard += 1;
                    let pos = sim.pool.iter().position(|m| match (m, &only_key) {
                        (Msg::Replicate { .. }, None) => true,
                        (Msg::Fetch { query: Query::GetReplicatedRecord { key, .. }, .. }, Some(k)) => &key.to_record_key() == k,
                        _ => false,
                    });
                    let Some(i) = pos else { break };
                    if guard > 300 { break }
                    let m = sim.pool.remove(i);
                    let e = json!({"deliver": msg_json(&sim, &m)});
                    let mut sub = vec![];
                    deliver(&mut sim, m, &mut sub).await;
                    let snap = snapshot(&mut sim, e, sub);
                    steps.push(snap);
                }
                continue;
            }
            "bulk_store" => {
                // fill node `node`'s index with `count` filler chunk keys (spread over the whole key space)
                // through the real handler of the store's own AddLocalRecordAsStored command
                let i = op["node"].as_u64().unwrap() as usize;
                let salt = op["salt"].as_u64().unwrap_or(0);
                for j in 0..op["count"].as_u64().unwrap() {
                    use sha2::{Digest, Sha256};
                    let h = Sha256::digest(format!("verif-c09-filler-{salt}-{j}").as_bytes());
                    let key = RecordKey::new(&xor_name::XorName(h.into()));
                    let _ = nethooks::handle_local_cmd(
                        &mut sim.nodes[i].driver,
                        LocalSwarmCmd::AddLocalRecordAsStored { key, record_type: RecordType::Chunk },
                    );
                }
                settle(&mut sim, &mut step).await;
            }
            "cleanup" => {
                // the periodic irrelevant-record clean-up of node `node`, through the real handler
                let i = op["node"].as_u64().unwrap() as usize;
                let before = sim.nodes[i].driver.verif_record_addresses().len();
                if let Err(e) = nethooks::handle_local_cmd(&mut sim.nodes[i].driver, LocalSwarmCmd::TriggerIrrelevantRecordCleanup) {
                    step.push(json!({"node": i, "local_cmd_err": format!("{e:?}")}));
                }
                settle(&mut sim, &mut step).await;
                let after = sim.nodes[i].driver.verif_record_addresses().len();
                eff["before"] = json!(before);
                eff["after"] = json!(after);
                eff["threshold"] = json!(ant_networking::verif_hooks::record_store::MAX_RECORDS_COUNT / 10);
            }
            "break_disk" | "fix_disk" => {
                // make node `node`'s record-store directory unusable (a plain file takes its place), so that the
                // store's spawned disk writes fail and it sends RemoveFailedLocalRecord; `fix_disk` puts it back
                let i = op["node"].as_u64().unwrap() as usize;
                let dir = sim.nodes[i]._dir.path().join("record_store");
                let off = sim.nodes[i]._dir.path().join("record_store.off");
                let r = if op["op"].as_str() == Some("break_disk") {
                    std::fs::rename(&dir, &off).and_then(|_| std::fs::write(&dir, b"not a directory"))
                } else {
                    std::fs::remove_file(&dir).and_then(|_| std::fs::rename(&off, &dir))
                };
                step.push(json!({"node": i, "disk": format!("{r:?}")}));
            }
            "hold_local" => {
                let _ = sim.hold_local.insert(op["node"].as_u64().unwrap() as usize);
            }
            "release_local" => {
                let i = op["node"].as_u64().unwrap() as usize;
                let _ = sim.hold_local.remove(&i);
                let (mine, rest): (Vec<_>, Vec<_>) = std::mem::take(&mut sim.held_back).into_iter().partition(|(n, _)| *n == i);
                sim.held_back = rest;
                for (_, cmd) in mine {
                    if let Err(e) = nethooks::handle_local_cmd(&mut sim.nodes[i].driver, cmd) {
                        step.push(json!({"node": i, "local_cmd_err": format!("{e:?}")}));
                    }
                }
                settle(&mut sim, &mut step).await;
            }
            "settle" => settle(&mut sim, &mut step).await,
            "dump" => {}
            other => step.push(json!({"error": format!("unknown op {other}")})),
        }
        let snap = snapshot(&mut sim, eff, step);
        steps.push(snap);
    }
    let mut fin = vec![];
    for i in 0..sim.nodes.len() {
        let mut d = dump_node(&mut sim, i);
        dump_distances(&mut sim, i, &mut d);
        fin.push(d);
    }
    let pending: Vec<Value> = sim.pool.iter().map(|m| msg_json(&sim, m)).collect();
    json!({"steps": steps, "final": fin, "undelivered": pending, "notes": sim.notes})
}

fn run_case(case: &Value) -> Value {
    let rt = tokio::runtime::Builder::new_current_thread().enable_all().build().expect("runtime");
    rt.block_on(run_case_async(case))
}

/// message of the last panic anywhere in the process (also inside spawned tasks, where tokio swallows it)
static LAST_PANIC: std::sync::Mutex<Option<String>> = std::sync::Mutex::new(None);

fn main() {
    std::panic::set_hook(Box::new(|info| {
        if let Ok(mut g) = LAST_PANIC.lock() {
            *g = Some(info.to_string());
        }
    }));
    // Real nodes always run with a tracing subscriber, and `tracing` evaluates the arguments of
    // `error!`/`warn!`/`debug!`/`trace!` lines only when one enables the callsite: install one at TRACE
    // level that formats every event's fields into a sink, so that log-argument evaluation is part of
    // every implementation run (a panic there surfaces as the `panic` class).
    let _ = tracing_subscriber::fmt()
        .with_max_level(tracing::Level::TRACE)
        .with_writer(std::io::sink)
        .try_init();
    let stdin = std::io::stdin();
    let out = std::io::stdout();
    let mut out = out.lock();
    for line in stdin.lock().lines() {
        let line = line.unwrap();
        if line.trim().is_empty() {
            continue;
        }
        let case: Value = serde_json::from_str(&line).unwrap();
        if let Ok(mut g) = LAST_PANIC.lock() {
            *g = None;
        }
        let mut res = catch_unwind(AssertUnwindSafe(|| run_case(&case))).unwrap_or_else(|p| {
            let msg = p
                .downcast_ref::<String>()
                .cloned()
                .or_else(|| p.downcast_ref::<&str>().map(|s| s.to_string()))
                .unwrap_or_default();
            json!({"panic": msg})
        });
        // a panic inside a spawned task does not unwind into run_case: report it all the same
        if res.get("panic").is_none() {
            if let Some(msg) = LAST_PANIC.lock().ok().and_then(|mut g| g.take()) {
                res = json!({"panic": format!("in a spawned task: {msg}")});
            }
        }
        writeln!(out, "{res}").unwrap();
        out.flush().unwrap();
    }
}
