//! C14 / C15 harness: drives the real autonomi `Client` (built by the cfg-guarded
//! `Client::verif_new`) around an `ant_networking::Network` whose command channels the harness
//! owns. Every `NetworkSwarmCmd::GetNetworkRecord` is answered from a script (C15: adversarial
//! replies) or from an in-memory chunk store (C14), in a completion order chosen by the case.
//! One JSON object per input line, one per output line. Deterministic apart from BLS encryption
//! randomness (never observable in the output).
use ant_networking::verif_hooks::{LocalSwarmCmd, NetworkSwarmCmd};
use ant_networking::{GetRecordError, Network, NetworkBuilder, NetworkError};
use ant_protocol::storage::{
    try_serialize_record, Chunk, ChunkAddress, RecordKind, Scratchpad, ScratchpadAddress,
};
use ant_protocol::NetworkAddress;
use autonomi::client::data::{DataMapChunk, GetError};
use autonomi::client::vault::VaultError;
use autonomi::Client;
use bytes::Bytes;
use libp2p::identity::Keypair;
use libp2p::kad::{self, GetRecordOk, PeerRecord, ProgressStep, QueryId, QueryResult, QueryStats, Record};
use std::num::NonZeroUsize;
use libp2p::PeerId;
use rand::{Rng, SeedableRng};
use serde::{Deserialize, Serialize};
use serde_json::{json, Value};
use sha3::{Digest, Sha3_256};
use std::collections::{HashMap, HashSet};
use std::io::{BufRead, Write};
use std::panic::{catch_unwind, AssertUnwindSafe};
use tokio::sync::mpsc;
use xor_name::XorName;

type Reply = Result<Record, GetRecordError>;

// ------------------------------------------------------------------------------------------------
// deterministic keys

fn sk(id: u64) -> bls::SecretKey {
    let mut rng = rand::rngs::StdRng::seed_from_u64(0x5eed_0000 + id);
    rng.gen::<bls::SecretKey>()
}

// ------------------------------------------------------------------------------------------------
// building (possibly forged) records

/// serde mirror of `ant_protocol::storage::Scratchpad` (all fields private there): lets the harness
/// build pads no honest API would produce (unsigned, signed by someone else, stale signature, ...)
#[derive(Serialize)]
struct PadMirror {
    address: ScratchpadAddress,
    data_encoding: u64,
    encrypted_data: Bytes,
    counter: u64,
    signature: Option<bls::Signature>,
}

/// serde mirror of autonomi's crate-private `DataMapLevel` (same derive, same variant names)
#[derive(Serialize, Deserialize)]
enum DataMapLevel {
    First(self_encryption::DataMap),
    Additional(self_encryption::DataMap),
}

fn hx(v: &Value) -> Vec<u8> {
    hex::decode(v.as_str().unwrap_or("")).expect("hex")
}

fn header_bytes(kind: u64) -> Vec<u8> {
    // what rmp_serde writes for `RecordHeader { kind }` if `kind` could be any u32: [fixarray 1, uint]
    let mut v = vec![0x91u8];
    if kind < 128 {
        v.push(kind as u8);
    } else if kind < 256 {
        v.extend([0xcc, kind as u8]);
    } else if kind < 65536 {
        v.extend([0xcd, (kind >> 8) as u8, kind as u8]);
    } else {
        v.extend([0xce, (kind >> 24) as u8, (kind >> 16) as u8, (kind >> 8) as u8, kind as u8]);
    }
    v
}

fn signing_bytes(counter: u64, encrypted: &[u8]) -> Vec<u8> {
    let mut b = counter.to_be_bytes().to_vec();
    b.extend(XorName::from_content(encrypted).to_vec());
    b
}

fn pad_body(p: &Value) -> Vec<u8> {
    let owner = sk(p["owner"].as_u64().unwrap()).public_key();
    let counter = p["counter"].as_u64().unwrap();
    let plain = hx(&p["data"]);
    let encrypted: Vec<u8> = match p.get("enc_to").and_then(|v| v.as_u64()) {
        Some(k) => {
            // "ct_rank": encryption is randomised; re-encrypt until the ciphertext bytes sort high / low
            // (first byte >= / < 0xa0), so that a case can fix how two versions' encrypted_data compare
            let want = p.get("ct_rank").and_then(|r| r.as_str());
            let mut ct = sk(k).public_key().encrypt(&plain).to_bytes();
            for _ in 0..200 {
                let ok = match want {
                    Some("high") => ct[0] >= 0xa0,
                    Some("low") => ct[0] < 0xa0,
                    _ => true,
                };
                if ok {
                    break;
                }
                ct = sk(k).public_key().encrypt(&plain).to_bytes();
            }
            ct
        }
        None => plain.clone(), // not a ciphertext at all
    };
    let signature = match p["sig"]["t"].as_str().unwrap_or("none") {
        "none" => None,
        // signature by `by` over exactly this counter and this ciphertext
        "good" => Some(sk(p["sig"]["by"].as_u64().unwrap()).sign(signing_bytes(counter, &encrypted))),
        // signature by `by` over another counter (a replayed older signature)
        "counter" => Some(
            sk(p["sig"]["by"].as_u64().unwrap())
                .sign(signing_bytes(p["sig"]["counter"].as_u64().unwrap(), &encrypted)),
        ),
        // signature by `by` over this counter but another ciphertext
        "data" => {
            let other = sk(p["sig"]["by"].as_u64().unwrap()).public_key().encrypt(b"other").to_bytes();
            Some(sk(p["sig"]["by"].as_u64().unwrap()).sign(signing_bytes(counter, &other)))
        }
        // bytes that are a well-formed signature of nothing relevant (an unrelated key over unrelated bytes)
        "junk" => Some(sk(99).sign(b"junk")),
        other => panic!("sig kind {other}"),
    };
    let m = PadMirror {
        address: ScratchpadAddress::new(owner),
        data_encoding: p["encoding"].as_u64().unwrap_or(0),
        encrypted_data: Bytes::from(encrypted),
        counter,
        signature,
    };
    rmp_serde::to_vec(&m).expect("pad mirror")
}

fn record_value(spec: &Value) -> Vec<u8> {
    if spec["t"] == "raw" {
        return hx(&spec["hex"]);
    }
    let mut v = match spec["kind"].as_u64() {
        Some(k) => header_bytes(k),
        None => vec![],
    };
    let body = &spec["body"];
    match body["t"].as_str().unwrap() {
        "chunk" => v.extend(rmp_serde::to_vec(&Chunk::new(Bytes::from(hx(&body["hex"])))).unwrap()),
        "pad" => v.extend(pad_body(body)),
        "junk" => v.extend(hx(&body["hex"])),
        other => panic!("body kind {other}"),
    }
    v
}

/// which key the returned record carries: the adversary controls it (nothing upstream of the client
/// checks that a reply is keyed with what was asked for)
#[derive(Clone)]
enum KeySpec {
    Requested,
    Bytes(Vec<u8>),
}

fn key_spec(spec: &Value) -> KeySpec {
    match spec.get("key") {
        None => KeySpec::Requested,
        Some(Value::String(s)) if s == "requested" => KeySpec::Requested,
        Some(Value::String(s)) if s == "unrelated" => KeySpec::Bytes(vec![0x77; 32]),
        // the key under which the substituted content would honestly be stored
        Some(Value::String(s)) if s == "content" => {
            let body = &spec["body"];
            match body["t"].as_str().unwrap_or("") {
                "chunk" => KeySpec::Bytes(XorName::from_content(&hx(&body["hex"])).0.to_vec()),
                "pad" => KeySpec::Bytes(
                    ScratchpadAddress::new(sk(body["owner"].as_u64().unwrap()).public_key()).xorname().0.to_vec()),
                _ => KeySpec::Bytes(XorName::from_content(&hx(&body["hex"])).0.to_vec()),
            }
        }
        Some(Value::String(s)) => KeySpec::Bytes(hex::decode(s).expect("key hex")),
        Some(other) => panic!("key spec {other}"),
    }
}

fn keyed(key: &libp2p::kad::RecordKey, ks: &KeySpec, value: Vec<u8>) -> Record {
    match ks {
        KeySpec::Requested => mk_record(key, value),
        KeySpec::Bytes(b) => mk_record(&libp2p::kad::RecordKey::new(b), value),
    }
}

fn mk_record(key: &libp2p::kad::RecordKey, value: Vec<u8>) -> Record {
    Record { key: key.clone(), value, publisher: None, expires: None }
}

/// A scripted reply, independent of the key that will be asked for (values are built once so that
/// the two observations of a vault case see byte-identical records).
#[derive(Clone)]
enum Script {
    Rec(Vec<u8>, KeySpec),
    /// error kind and, for the variants that carry a record, the record the holders planted in it
    Err(String, Option<(Vec<u8>, KeySpec)>),
    /// versions, and (optionally) which of them the map must yield first when iterated
    Split(Vec<(Vec<u8>, KeySpec)>, Option<usize>),
}

/// the key each scripted record will carry (script order), given the key that is requested
fn script_keys(requested: &[u8], s: &Script) -> Vec<String> {
    let one = |ks: &KeySpec| match ks {
        KeySpec::Requested => hex::encode(requested),
        KeySpec::Bytes(b) => hex::encode(b),
    };
    match s {
        Script::Rec(_, ks) => vec![one(ks)],
        Script::Err(_, Some((_, ks))) => vec![one(ks)],
        Script::Err(_, None) => vec![],
        Script::Split(vs, _) => vs.iter().map(|(_, ks)| one(ks)).collect(),
    }
}

fn build_script(spec: &Value) -> Script {
    match spec["t"].as_str().unwrap() {
        "rec" | "raw" => Script::Rec(record_value(spec), key_spec(spec)),
        "err" => Script::Err(
            spec["e"].as_str().unwrap().to_string(),
            spec.get("rec").filter(|r| !r.is_null()).map(|r| (record_value(r), key_spec(r))),
        ),
        "split" => Script::Split(
            spec["recs"].as_array().unwrap().iter().map(|r| (record_value(r), key_spec(r))).collect(),
            spec.get("first").and_then(|f| f.as_u64()).map(|f| f as usize),
        ),
        other => panic!("reply kind {other}"),
    }
}

/// returns the reply and, for split maps, the iteration order of the map the client will see
/// (indices into the script's record list; HashMap iteration order is fixed once the map is built)
fn reply_for(key: &libp2p::kad::RecordKey, s: &Script) -> (Reply, Vec<usize>) {
    match s {
        Script::Rec(v, ks) => (Ok(keyed(key, ks, v.clone())), vec![]),
        Script::Err(e, carried) => {
            let carried_rec = match carried {
                Some((v, ks)) => keyed(key, ks, v.clone()),
                None => mk_record(key, vec![1, 2, 3]),
            };
            (
                Err(match e.as_str() {
                    "NotFound" => GetRecordError::RecordNotFound,
                    "Timeout" => GetRecordError::QueryTimeout,
                    "KindMismatch" => GetRecordError::RecordKindMismatch,
                    "DoesNotMatch" => GetRecordError::RecordDoesNotMatch(carried_rec),
                    "NotEnoughCopies" => GetRecordError::NotEnoughCopies { record: carried_rec, expected: 3, got: 1 },
                    other => panic!("err kind {other}"),
                }),
                vec![],
            )
        }
        Script::Split(vs, first) => {
            // HashMap iteration order depends on the map's random hasher keys: rebuild the map until
            // the requested version comes first (the case decides the order the client will see)
            let mut tries = 0;
            loop {
                let mut result_map: HashMap<XorName, (Record, HashSet<PeerId>)> = HashMap::new();
                let mut idx_of: HashMap<XorName, usize> = HashMap::new();
                for (i, (v, ks)) in vs.iter().enumerate() {
                    // the network layer keys versions by content hash; identical values collapse
                    let h = XorName::from_content(v);
                    if !idx_of.contains_key(&h) {
                        let _ = idx_of.insert(h, i);
                        let _ = result_map.insert(h, (keyed(key, ks, v.clone()), HashSet::new()));
                    }
                }
                let order: Vec<usize> = result_map.keys().map(|h| idx_of[h]).collect();
                tries += 1;
                let ok = match first {
                    Some(f) => order.first() == Some(f) || !order.contains(f) || tries > 500,
                    None => true,
                };
                if ok {
                    return (Err(GetRecordError::SplitRecord { result_map }), order);
                }
            }
        }
    }
}

// ------------------------------------------------------------------------------------------------
// the harness-driven network

struct Net {
    client: Client,
    rx: mpsc::Receiver<NetworkSwarmCmd>,
    _rx_local: mpsc::Receiver<LocalSwarmCmd>,
}

fn new_net() -> Net {
    let (tx, rx) = mpsc::channel::<NetworkSwarmCmd>(100_000);
    let (tx_local, rx_local) = mpsc::channel::<LocalSwarmCmd>(100_000);
    let keypair = Keypair::generate_ed25519();
    let peer = PeerId::from(keypair.public());
    let network = Network::new(tx, tx_local, peer, keypair);
    Net { client: Client::verif_new(network, Default::default()), rx, _rx_local: rx_local }
}

/// tiny deterministic generator for completion orders and incompressible contents
struct XorShift(u64);
impl XorShift {
    fn next(&mut self) -> u64 {
        let mut x = self.0;
        x ^= x >> 12;
        x ^= x << 25;
        x ^= x >> 27;
        self.0 = x;
        x.wrapping_mul(0x2545F4914F6CDD1D)
    }
}

/// Answer every `GetNetworkRecord` with `answer(key)`. Requests that are in flight at the same time
/// are completed in an order drawn from `order_seed` (0 = arrival order), which is how a case
/// chooses the schedule of chunk-fetch completions. Never returns.
async fn serve<F: FnMut(&libp2p::kad::RecordKey) -> Reply>(
    rx: &mut mpsc::Receiver<NetworkSwarmCmd>,
    mut answer: F,
    order_seed: u64,
    log: &mut Vec<String>,
) {
    let mut rng = XorShift(order_seed.wrapping_mul(0x9E3779B97F4A7C15) | 1);
    loop {
        let mut pending = vec![];
        match rx.recv().await {
            Some(c) => pending.push(c),
            None => std::future::pending::<()>().await,
        }
        for _ in 0..4 {
            tokio::task::yield_now().await;
            while let Ok(c) = rx.try_recv() {
                pending.push(c);
            }
        }
        if order_seed != 0 {
            for i in (1..pending.len()).rev() {
                let j = (rng.next() % (i as u64 + 1)) as usize;
                pending.swap(i, j);
            }
        }
        for cmd in pending {
            match cmd {
                NetworkSwarmCmd::GetNetworkRecord { key, sender, .. } => {
                    log.push(hex::encode(key.as_ref()));
                    let _ = sender.send(answer(&key));
                }
                other => log.push(format!("unexpected:{other:?}")),
            }
        }
    }
}

fn net_err_code(e: &NetworkError) -> String {
    match e {
        NetworkError::GetRecordError(g) => format!(
            "net:{}",
            match g {
                GetRecordError::NotEnoughCopies { .. } => "NotEnoughCopies",
                GetRecordError::QueryTimeout => "Timeout",
                GetRecordError::RecordDoesNotMatch(_) => "DoesNotMatch",
                GetRecordError::RecordKindMismatch => "KindMismatch",
                GetRecordError::RecordNotFound => "NotFound",
                GetRecordError::SplitRecord { .. } => "Split",
            }
        ),
        NetworkError::RecordKindMismatch(_) => "kind".into(),
        NetworkError::ProtocolError(p) => proto_code(p),
        other => format!("network:{other:?}"),
    }
}

fn proto_code(p: &ant_protocol::Error) -> String {
    match p {
        ant_protocol::Error::RecordHeaderParsingFailed => "header".into(),
        ant_protocol::Error::RecordParsingFailed => "deser".into(),
        ant_protocol::Error::ScratchpadCipherTextFailed => "ciphertext-format".into(),
        ant_protocol::Error::ScratchpadCipherTextInvalid => "ciphertext-invalid".into(),
        other => format!("protocol:{other:?}"),
    }
}

fn get_err_code(e: &GetError) -> String {
    match e {
        GetError::InvalidDataMap(_) => "datamap".into(),
        GetError::Decryption(_) => "decrypt".into(),
        GetError::Deserialization(_) => "deserialization".into(),
        GetError::Network(n) => net_err_code(n),
        GetError::Protocol(p) => proto_code(p),
    }
}

fn vault_err_code(e: &VaultError) -> String {
    match e {
        VaultError::Bls(_) => "bls".into(),
        VaultError::CouldNotDeserializeVaultScratchPad(_) => "invalid-pad".into(),
        VaultError::Protocol(p) => proto_code(p),
        VaultError::Network(n) => net_err_code(n),
        VaultError::Missing => "missing".into(),
    }
}

fn sha3(b: &[u8]) -> String {
    hex::encode(Sha3_256::digest(b))
}

// ------------------------------------------------------------------------------------------------
// ops

fn chunk_addr(v: &Value) -> XorName {
    if let Some(h) = v.get("hex").and_then(|h| h.as_str()) {
        let b = hex::decode(h).unwrap();
        let mut a = [0u8; 32];
        a.copy_from_slice(&b);
        XorName(a)
    } else {
        XorName::from_content(&hx(&v["of"]))
    }
}

fn op_chunk_get(rt: &tokio::runtime::Runtime, case: &Value) -> Value {
    let mut net = new_net();
    let script = build_script(&case["reply"]);
    let addr = chunk_addr(&case["addr"]);
    let mut log = vec![];
    let mut order = vec![];
    let client = net.client.clone();
    let res = rt.block_on(async {
        tokio::select! {
            r = client.chunk_get(addr) => r,
            _ = serve(&mut net.rx, |k| { let (r, o) = reply_for(k, &script); order = o; r }, 0, &mut log) => unreachable!(),
        }
    });
    let key_ok = log.len() == 1
        && log[0] == hex::encode(NetworkAddress::from_chunk_address(ChunkAddress::new(addr)).to_record_key().as_ref());
    let keys = script_keys(&addr.0, &script);
    match res {
        Ok(c) => json!({"res": "ok", "value": hex::encode(c.value()), "addr": hex::encode(c.address().xorname().0),
                        "asked": hex::encode(addr.0), "key_ok": key_ok, "order": order, "keys": keys}),
        Err(e) => json!({"res": "err", "code": get_err_code(&e), "asked": hex::encode(addr.0), "key_ok": key_ok,
                         "order": order, "keys": keys}),
    }
}

fn op_vault(rt: &tokio::runtime::Runtime, case: &Value) -> Value {
    let owner = sk(case["owner"].as_u64().unwrap_or(0));
    let script = build_script(&case["reply"]);
    let want_key = hex::encode(
        NetworkAddress::from_scratchpad_address(ScratchpadAddress::new(owner.public_key())).to_record_key().as_ref());
    // both observations must see the same map iteration order: the split map is built once and cloned
    // (cloning a HashMap keeps its hasher and table layout, hence its iteration order)
    let mut net = new_net();
    let mut log = vec![];
    let mut order = vec![];
    let client = net.client.clone();
    let mut cached: Option<(Reply, Vec<usize>)> = None;
    let (r1, r2) = rt.block_on(async {
        tokio::select! {
            r = async {
                let a = client.fetch_and_decrypt_vault(&owner).await;
                let b = client.get_or_create_scratchpad(&owner, 77).await;
                (a, b)
            } => r,
            _ = serve(&mut net.rx, |k| {
                    if cached.is_none() { cached = Some(reply_for(k, &script)); }
                    let (r, o) = cached.as_ref().unwrap();
                    order = o.clone();
                    r.clone()
                }, 0, &mut log) => unreachable!(),
        }
    });
    let key_ok = log.len() == 2 && log.iter().all(|k| *k == want_key);
    let fetch = match r1 {
        Ok((data, enc)) => json!({"res": "ok", "data": hex::encode(&data), "encoding": enc}),
        Err(e) => json!({"res": "err", "code": vault_err_code(&e)}),
    };
    let pad = match r2 {
        Ok((p, is_new)) => json!({"res": "ok", "is_new": is_new, "counter": p.count(), "valid": p.is_valid(),
                                   "owner_ok": p.owner() == &owner.public_key(), "encoding": p.data_encoding(),
                                   "plain": p.decrypt_data(&owner).ok().map(hex::encode)}),
        Err(e) => json!({"res": "err", "code": format!("{e:?}").split('(').next().unwrap_or("").to_string()}),
    };
    let asked_key = hex::decode(&want_key).unwrap();
    json!({"fetch": fetch, "pad": pad, "key_ok": key_ok, "order": order, "asked_key": want_key,
           "keys": script_keys(&asked_key, &script)})
}


/// which planted record (index into the case's `recs`) a record delivered by the network layer is
fn planted_index(values: &[Vec<u8>], r: &Record) -> i64 {
    values.iter().position(|v| *v == r.value).map(|i| i as i64).unwrap_or(-1)
}

fn abstract_reply(values: &[Vec<u8>], r: &Reply) -> Value {
    match r {
        Ok(rec) => json!({"t": "ok", "i": planted_index(values, rec), "key": hex::encode(rec.key.as_ref())}),
        Err(GetRecordError::NotEnoughCopies { record, .. }) =>
            json!({"t": "err", "e": "NotEnoughCopies", "i": planted_index(values, record), "key": hex::encode(record.key.as_ref())}),
        Err(GetRecordError::RecordDoesNotMatch(record)) =>
            json!({"t": "err", "e": "DoesNotMatch", "i": planted_index(values, record), "key": hex::encode(record.key.as_ref())}),
        Err(GetRecordError::QueryTimeout) => json!({"t": "err", "e": "Timeout"}),
        Err(GetRecordError::RecordKindMismatch) => json!({"t": "err", "e": "KindMismatch"}),
        Err(GetRecordError::RecordNotFound) => json!({"t": "err", "e": "NotFound"}),
        Err(GetRecordError::SplitRecord { result_map }) => {
            let order: Vec<i64> = result_map.values().map(|(rec, _)| planted_index(values, rec)).collect();
            let keys: Vec<String> = result_map.values().map(|(rec, _)| hex::encode(rec.key.as_ref())).collect();
            json!({"t": "split", "order": order, "keys": keys})
        }
    }
}

/// Vault read answered ONE LAYER LOWER: the client's `GetNetworkRecord` command is handed to a real
/// client-mode `SwarmDriver` (never polled, no networking) and the holders' answers arrive as
/// synthetic kad `FoundRecord` progress events through the real `handle_kad_event`, i.e. through the
/// real quorum accumulation (`accumulate_get_record_found`, `handle_get_record_finished`, ...).
/// What the driver then delivers to the api caller is recorded (as indices of the planted records)
/// and forwarded unchanged to the client.
fn op_vault_kad(rt: &tokio::runtime::Runtime, case: &Value) -> Value {
    let owner = sk(case["owner"].as_u64().unwrap_or(0));
    let specs = case["recs"].as_array().unwrap();
    let values: Vec<Vec<u8>> = specs.iter().map(record_value).collect();
    let kspecs: Vec<KeySpec> = specs.iter().map(key_spec).collect();
    let events = case["events"].as_array().unwrap().clone();
    let want_key = hex::encode(
        NetworkAddress::from_scratchpad_address(ScratchpadAddress::new(owner.public_key())).to_record_key().as_ref());
    let peers: Vec<PeerId> = (0..16u8)
        .map(|i| PeerId::from(Keypair::ed25519_from_bytes([i + 1; 32]).unwrap().public()))
        .collect();
    let mut observed: Vec<Value> = vec![];
    let mut delivered: Vec<Vec<usize>> = vec![];
    let mut asked: Vec<String> = vec![];
    let mut observed2: Option<Value> = None;
    let mut delivered2: Vec<usize> = vec![];
    let ((r1, r1b), r2) = rt.block_on(async {
        let (_net, _evrx, mut driver) = NetworkBuilder::new(Keypair::ed25519_from_bytes([0xEE; 32]).unwrap(), true)
            .build_client()
            .expect("client-mode driver");
        let me = driver.verif_self_peer_id();
        let (cmd_tx, mut cmd_rx) = mpsc::channel::<NetworkSwarmCmd>(64);
        let (local_tx, _local_rx) = mpsc::channel::<LocalSwarmCmd>(64);
        let api_net = Network::new(cmd_tx, local_tx, me, Keypair::ed25519_from_bytes([0xEE; 32]).unwrap());
        let client = Client::verif_new(api_net, Default::default());
        let client2 = client.clone();
        // a second reader of the same vault: starts when the script says "read2" (while the first read's
        // query is in flight), or never
        let (go_tx, go_rx) = tokio::sync::oneshot::channel::<()>();
        let mut go_tx = Some(go_tx);
        tokio::select! {
            r = async {
                let pair = tokio::join!(
                    client.fetch_and_decrypt_vault(&owner),
                    async { match go_rx.await { Ok(()) => Some(client2.fetch_and_decrypt_vault(&owner).await), Err(_) => None } }
                );
                let b = client.get_or_create_scratchpad(&owner, 77).await;
                (pair, b)
            } => r,
            _ = async {
                let mut pass = 0;
                loop {
                    let cmd = match cmd_rx.recv().await {
                        Some(c) => c,
                        None => { std::future::pending::<()>().await; unreachable!() }
                    };
                    let NetworkSwarmCmd::GetNetworkRecord { key, sender, cfg } = cmd else { continue };
                    pass += 1;
                    asked.push(hex::encode(key.as_ref()));
                    let (tx, rx) = tokio::sync::oneshot::channel();
                    let before: HashSet<QueryId> = driver.verif_pending_get_record().iter().map(|x| x.0).collect();
                    let _ = driver.verif_handle_network_cmd(NetworkSwarmCmd::GetNetworkRecord { key: key.clone(), sender: tx, cfg });
                    let qid = driver.verif_pending_get_record().iter().map(|x| x.0).find(|q| !before.contains(q));
                    let mut fed = vec![];
                    // the second reader's command, once handed to the driver: (its original sender, our receiver)
                    let mut second: Option<(tokio::sync::oneshot::Sender<Reply>, tokio::sync::oneshot::Receiver<Reply>)> = None;
                    let mut reply2: Option<Reply> = None;
                    if let Some(id) = qid {
                        let pending = |d: &ant_networking::SwarmDriver| d.verif_pending_get_record().iter().any(|x| x.0 == id);
                        for (ei, ev) in events.iter().enumerate() {
                            if !pending(&driver) {
                                break;      // the query has produced its outcome: later answers are not received
                            }
                            let one = NonZeroUsize::new(ei + 1).unwrap();
                            let kind = ev["e"].as_str().unwrap();
                            if kind == "read2" {
                                if pass == 1 && go_tx.is_some() {
                                    fed.push(ei);
                                    let _ = go_tx.take().unwrap().send(());
                                    let mut cmd2 = None;
                                    for _ in 0..50 {
                                        tokio::task::yield_now().await;
                                        if let Ok(c) = cmd_rx.try_recv() {
                                            cmd2 = Some(c);
                                            break;
                                        }
                                    }
                                    if let Some(NetworkSwarmCmd::GetNetworkRecord { key: k2, sender: s2, cfg: cfg2 }) = cmd2 {
                                        asked.push(hex::encode(k2.as_ref()));
                                        let (tx2, mut rx2) = tokio::sync::oneshot::channel();
                                        let _ = driver.verif_handle_network_cmd(NetworkSwarmCmd::GetNetworkRecord { key: k2, sender: tx2, cfg: cfg2 });
                                        if let Ok(r) = rx2.try_recv() {
                                            reply2 = Some(r);
                                            delivered2 = fed.clone();
                                        }
                                        second = Some((s2, rx2));
                                    }
                                }
                                continue;
                            }
                            fed.push(ei);
                            let (result, last) = match kind {
                                "found" => {
                                    let j = ev["rec"].as_u64().unwrap() as usize;
                                    (QueryResult::GetRecord(Ok(GetRecordOk::FoundRecord(PeerRecord {
                                        peer: Some(peers[ev["peer"].as_u64().unwrap() as usize % peers.len()]),
                                        record: keyed(&key, &kspecs[j], values[j].clone()),
                                    }))), false)
                                }
                                "finished" => (QueryResult::GetRecord(Ok(GetRecordOk::FinishedWithNoAdditionalRecord {
                                    cache_candidates: Default::default() })), true),
                                "notfound" => (QueryResult::GetRecord(Err(kad::GetRecordError::NotFound {
                                    key: key.clone(), closest_peers: vec![] })), true),
                                "quorumfailed" => (QueryResult::GetRecord(Err(kad::GetRecordError::QuorumFailed {
                                    key: key.clone(), records: vec![], quorum: NonZeroUsize::new(1).unwrap() })), true),
                                _ => (QueryResult::GetRecord(Err(kad::GetRecordError::Timeout { key: key.clone() })), true),
                            };
                            let _ = driver.verif_handle_kad_event(kad::Event::OutboundQueryProgressed {
                                id, result, stats: QueryStats::empty(), step: ProgressStep { count: one, last },
                            });
                            if reply2.is_none() {
                                if let Some((_, rx2)) = second.as_mut() {
                                    if let Ok(r) = rx2.try_recv() {
                                        reply2 = Some(r);
                                        delivered2 = fed.clone();
                                    }
                                }
                            }
                        }
                        if pending(&driver) {
                            // a script without a terminating event: the query times out
                            let _ = driver.verif_handle_kad_event(kad::Event::OutboundQueryProgressed {
                                id,
                                result: QueryResult::GetRecord(Err(kad::GetRecordError::Timeout { key: key.clone() })),
                                stats: QueryStats::empty(),
                                step: ProgressStep { count: NonZeroUsize::new(events.len() + 1).unwrap(), last: true },
                            });
                        }
                    }
                    if pass == 1 {
                        drop(go_tx.take());     // a second reader that was not started never starts
                    }
                    if let Some((s2, rx2)) = second {
                        let r2: Reply = match reply2.take() {
                            Some(r) => r,
                            None => {
                                delivered2 = fed.clone();
                                match rx2.await { Ok(r) => r, Err(_) => Err(GetRecordError::QueryTimeout) }
                            }
                        };
                        observed2 = Some(abstract_reply(&values, &r2));
                        let _ = s2.send(r2);
                    }
                    delivered.push(fed);
                    let reply: Reply = match rx.await {
                        Ok(r) => r,
                        Err(_) => Err(GetRecordError::QueryTimeout),
                    };
                    observed.push(abstract_reply(&values, &reply));
                    let _ = sender.send(reply);
                }
            } => unreachable!(),
        }
    });
    let n_reads = if r1b.is_some() { 3 } else { 2 };
    let key_ok = asked.len() == n_reads && asked.iter().all(|k| *k == want_key);
    let fetch_json = |r: Result<(Bytes, u64), VaultError>| match r {
        Ok((data, enc)) => json!({"res": "ok", "data": hex::encode(&data), "encoding": enc}),
        Err(e) => json!({"res": "err", "code": vault_err_code(&e)}),
    };
    let fetch = fetch_json(r1);
    let reader2 = match r1b {
        Some(r) => json!({"fetch": fetch_json(r), "observed": observed2, "delivered": delivered2}),
        None => Value::Null,
    };
    let pad = match r2 {
        Ok((p, is_new)) => json!({"res": "ok", "is_new": is_new, "counter": p.count(), "valid": p.is_valid(),
                                   "owner_ok": p.owner() == &owner.public_key(), "encoding": p.data_encoding(),
                                   "plain": p.decrypt_data(&owner).ok().map(hex::encode)}),
        Err(e) => json!({"res": "err", "code": format!("{e:?}").split('(').next().unwrap_or("").to_string()}),
    };
    let asked_key = hex::decode(&want_key).unwrap();
    let keys: Vec<String> = kspecs.iter().map(|ks| match ks {
        KeySpec::Requested => hex::encode(&asked_key),
        KeySpec::Bytes(b) => hex::encode(b),
    }).collect();
    json!({"fetch": fetch, "pad": pad, "key_ok": key_ok, "asked_key": want_key, "keys": keys,
           "observed": observed, "delivered": delivered, "reader2": reader2})
}

fn fill(case: &Value) -> Vec<u8> {
    if let Some(h) = case.get("hex").and_then(|h| h.as_str()) {
        return hex::decode(h).unwrap();
    }
    let n = case["len"].as_u64().unwrap() as usize;
    let seed = case["seed"].as_u64().unwrap_or(1);
    match case["fill"].as_str().unwrap_or("zero") {
        "zero" => vec![0u8; n],
        "seq" => (0..n).map(|i| (i as u64).wrapping_mul(seed | 1).wrapping_add(i as u64 >> 8) as u8).collect(),
        "text" => b"the quick brown fox jumps over the lazy dog. ".iter().cycle().take(n).cloned().collect(),
        "rand" => {
            let mut r = XorShift(seed | 1);
            let mut v = Vec::with_capacity(n + 8);
            while v.len() < n {
                v.extend(r.next().to_le_bytes());
            }
            v.truncate(n);
            v
        }
        // a pseudo-random third repeated three times: three identical source chunks
        "rep3" => {
            let third = n / 3;
            let mut r = XorShift(seed | 1);
            let mut t = Vec::with_capacity(third + 8);
            while t.len() < third {
                t.extend(r.next().to_le_bytes());
            }
            t.truncate(third);
            let mut v = Vec::with_capacity(n);
            for _ in 0..3 {
                v.extend(&t);
            }
            v
        }
        // "pattern": one block of `block` bytes per letter, equal letters = equal blocks (aab, aba, aaaab ...)
        "blocks" => {
            let block = case["block"].as_u64().unwrap() as usize;
            let mut v = vec![];
            for ch in case["pattern"].as_str().unwrap().bytes() {
                let mut r = XorShift((seed ^ (ch as u64).wrapping_mul(0x9E3779B97F4A7C15)) | 1);
                let mut b = Vec::with_capacity(block + 8);
                while b.len() < block {
                    b.extend(r.next().to_le_bytes());
                }
                b.truncate(block);
                v.extend(b);
            }
            v
        }
        other => panic!("fill {other}"),
    }
}

/// walk the data-map levels of an encrypt() result without the client (harness-side view used by
/// the oracle): returns per level (variant name, [(index, src_size, dst_hash)], wrapped size)
fn walk_levels(root: &Chunk, store: &HashMap<XorName, Bytes>) -> Vec<Value> {
    let mut out = vec![];
    let mut bytes: Vec<u8> = root.value().to_vec();
    for _ in 0..64 {
        let Ok(level) = rmp_serde::from_slice::<DataMapLevel>(&bytes) else {
            out.push(json!({"variant": "unparsable", "wrapped_len": bytes.len()}));
            break;
        };
        let (name, map) = match &level {
            DataMapLevel::First(m) => ("First", m),
            DataMapLevel::Additional(m) => ("Additional", m),
        };
        let infos: Vec<Value> = map.infos().iter()
            .map(|i| json!([i.index, i.src_size, hex::encode(i.dst_hash.0), store.contains_key(&i.dst_hash)])).collect();
        out.push(json!({"variant": name, "wrapped_len": bytes.len(), "infos": infos}));
        if name == "First" {
            break;
        }
        // next level: decrypt this level's chunks directly with the third-party crate
        let chunks: Vec<self_encryption::EncryptedChunk> = map.infos().iter().filter_map(|i| {
            store.get(&i.dst_hash).map(|c| self_encryption::EncryptedChunk { index: i.index, content: c.clone() })
        }).collect();
        match self_encryption::decrypt_full_set(map, &chunks) {
            // what pack_data_map self-encrypted is the *serialised chunk* (msgpack bin) of the level below
            Ok(b) => match rmp_serde::from_slice::<Chunk>(&b) {
                Ok(c) => bytes = c.value().to_vec(),
                Err(_) => { out.push(json!({"variant": "not-a-serialised-chunk", "len": b.len()})); break; }
            },
            Err(_) => { out.push(json!({"variant": "undecryptable"})); break; }
        }
    }
    out
}

/// Self-referential content: what is stored is itself (derived from) the data map of an earlier upload U
/// -- e.g. a backup copy of a private data map.  Returns the content and U's chunks, which stay available
/// in the in-memory network during the read.
fn selfref_content(case: &Value) -> (Vec<u8>, Vec<Chunk>) {
    let inner = &case["inner"];
    let (u_root, u_chunks) = autonomi::self_encryption::encrypt(Bytes::from(fill(inner))).expect("inner upload");
    let level: DataMapLevel = rmp_serde::from_slice(u_root.value()).expect("inner data map");
    let map = match &level { DataMapLevel::First(m) | DataMapLevel::Additional(m) => m.clone() };
    let ser_chunk = |v: Vec<u8>| rmp_serde::to_vec(&Chunk::new(Bytes::from(v))).unwrap();
    let mut content = match case["selfref"].as_str().unwrap() {
        // the value of the chunk encrypt() returned as U's data map
        "map_value" => u_root.value().to_vec(),
        // ... and its rmp serialisation as a Chunk (what pack_data_map self-encrypts for an upper level)
        "map_chunk_ser" => ser_chunk(u_root.value().to_vec()),
        "first_wrap" => rmp_serde::to_vec(&DataMapLevel::First(map)).unwrap(),
        "additional_wrap" => rmp_serde::to_vec(&DataMapLevel::Additional(map)).unwrap(),
        "first_wrap_ser" => ser_chunk(rmp_serde::to_vec(&DataMapLevel::First(map)).unwrap()),
        "additional_wrap_ser" => ser_chunk(rmp_serde::to_vec(&DataMapLevel::Additional(map)).unwrap()),
        // a chunk of U itself, serialised
        "content_chunk_ser" => ser_chunk(u_chunks[0].value().to_vec()),
        other => panic!("selfref {other}"),
    };
    if let Some(n) = case["cut"]["prefix"].as_u64() {
        content.truncate((n as usize).min(content.len()).max(3));
    }
    if let Some(n) = case["cut"]["suffix"].as_u64() {
        let k = content.len().saturating_sub((n as usize).max(3));
        content = content[k..].to_vec();
    }
    if let Some(h) = case["cut"]["append"].as_str() {
        content.extend(hex::decode(h).unwrap());
    }
    let mut all = u_chunks;
    all.push(u_root);
    (content, all)
}

fn op_data(rt: &tokio::runtime::Runtime, case: &Value) -> Value {
    let (content, other_upload) = if case.get("selfref").is_some() {
        selfref_content(case)
    } else {
        (fill(case), vec![])
    };
    let data = Bytes::from(content);
    let (root, chunks) = match autonomi::self_encryption::encrypt(data.clone()) {
        Ok(x) => x,
        Err(e) => return json!({"enc": "err", "msg": format!("{e}"), "data_len": data.len()}),
    };
    // determinism: a second run must give the same data map and the same chunk addresses
    let det = match autonomi::self_encryption::encrypt(data.clone()) {
        Ok((r2, c2)) => {
            let mut a: Vec<_> = chunks.iter().map(|c| *c.name()).collect();
            let mut b: Vec<_> = c2.iter().map(|c| *c.name()).collect();
            a.sort();
            b.sort();
            r2.value() == root.value() && r2.address() == root.address() && a == b
        }
        Err(_) => false,
    };
    let public = case["mode"] == "public";
    let mut store: HashMap<XorName, Bytes> = HashMap::new();
    let mut chunk_out = vec![];
    for c in chunks.iter().chain(std::iter::once(&root)) {
        let _ = store.insert(*c.name(), c.value().clone());
        let mut o = json!({"addr": hex::encode(c.name().0), "len": c.value().len(), "sha3": sha3(c.value())});
        if c.value().len() <= 600 {
            o["hex"] = json!(hex::encode(c.value()));
        }
        chunk_out.push(o);
    }
    let levels = walk_levels(&root, &store);
    // the earlier upload's chunks are on the network too
    for c in other_upload.iter() {
        let _ = store.entry(*c.name()).or_insert_with(|| c.value().clone());
    }
    // tampering (C15): replace what the network returns for some addresses
    let mut tamper: HashMap<XorName, Script> = HashMap::new();
    if let Some(ts) = case.get("tamper").and_then(|t| t.as_array()) {
        for t in ts {
            let target = match t["target"].as_str() {
                Some("root") => *root.name(),
                _ => *chunks[t["target"].as_u64().unwrap() as usize % chunks.len()].name(),
            };
            let with = &t["with"];
            let s = match with["t"].as_str().unwrap() {
                "chunk_of" => {
                    let j = with["i"].as_u64().unwrap() as usize % chunks.len();
                    // "own_key": the substituted chunk arrives as a complete, well-formed record of itself
                    let ks = if with["own_key"].as_bool().unwrap_or(false) {
                        KeySpec::Bytes(chunks[j].name().0.to_vec())
                    } else {
                        KeySpec::Requested
                    };
                    Script::Rec(try_serialize_record(&chunks[j], RecordKind::Chunk).unwrap().to_vec(), ks)
                }
                "flip" => {
                    let mut v = store[&target].to_vec();
                    let k = with["at"].as_u64().unwrap() as usize % v.len().max(1);
                    if !v.is_empty() { v[k] ^= 1 + (with["bit"].as_u64().unwrap_or(0) as u8 % 255); }
                    let ks = if with["own_key"].as_bool().unwrap_or(false) {
                        KeySpec::Bytes(XorName::from_content(&v).0.to_vec())
                    } else {
                        KeySpec::Requested
                    };
                    Script::Rec(try_serialize_record(&Chunk::new(Bytes::from(v)), RecordKind::Chunk).unwrap().to_vec(), ks)
                }
                "truncate" => {
                    let mut v = store[&target].to_vec();
                    let _ = v.pop();
                    Script::Rec(try_serialize_record(&Chunk::new(Bytes::from(v)), RecordKind::Chunk).unwrap().to_vec(), KeySpec::Requested)
                }
                "kind" => {
                    let mut v = header_bytes(with["kind"].as_u64().unwrap());
                    v.extend(rmp_serde::to_vec(&Chunk::new(store[&target].clone())).unwrap());
                    Script::Rec(v, KeySpec::Requested)
                }
                _ => build_script(with),
            };
            let _ = tamper.insert(target, s);
        }
    }
    let key_of = |x: &XorName| NetworkAddress::from_chunk_address(ChunkAddress::new(*x)).to_record_key();
    let by_key: HashMap<Vec<u8>, XorName> = store.keys().map(|x| (key_of(x).as_ref().to_vec(), *x)).collect();
    let mut net = new_net();
    let mut log = vec![];
    let client = net.client.clone();
    let root_addr = *root.name();
    let dm = DataMapChunk::from(root.clone());
    let res = rt.block_on(async {
        tokio::select! {
            r = async { if public { client.data_get_public(root_addr).await } else { client.data_get(dm).await } } => r,
            _ = serve(&mut net.rx, |k| {
                    match by_key.get(k.as_ref()) {
                        Some(x) => match tamper.get(x) {
                            Some(s) => reply_for(k, s).0,
                            None => Ok(mk_record(k, try_serialize_record(&Chunk::new(store[x].clone()), RecordKind::Chunk).unwrap().to_vec())),
                        },
                        None => Err(GetRecordError::RecordNotFound),
                    }
                }, case["order_seed"].as_u64().unwrap_or(0), &mut log) => unreachable!(),
        }
    });
    let get = match res {
        Ok(b) => json!({"res": "ok", "eq": b == data, "len": b.len()}),
        Err(e) => json!({"res": "err", "code": get_err_code(&e)}),
    };
    json!({"enc": "ok", "det": det, "data_len": data.len(), "root": hex::encode(root.name().0), "root_len": root.value().len(),
           "n_chunks": chunks.len(), "chunks": chunk_out, "levels": levels, "get": get,
           "requests": log.len(), "max_chunk_size": *self_encryption::MAX_CHUNK_SIZE,
           "min_encryptable": self_encryption::MIN_ENCRYPTABLE_BYTES})
}

/// probe of the third-party codec used by the multi-level path: what does rmp_serde make of a
/// serialised `Chunk` (msgpack bin) when asked for a `DataMapLevel`?
fn op_probe_level(_case: &Value) -> Value {
    let data = Bytes::from(vec![7u8; 10]);
    let (dm, _) = self_encryption::encrypt(data).unwrap();
    let wrapped = rmp_serde::to_vec(&DataMapLevel::First(dm)).unwrap();
    let chunk = Chunk::new(Bytes::from(wrapped.clone()));
    let ser_chunk = rmp_serde::to_vec(&chunk).unwrap();
    json!({"direct": rmp_serde::from_slice::<DataMapLevel>(&wrapped).is_ok(),
           "via_serialised_chunk": rmp_serde::from_slice::<DataMapLevel>(&ser_chunk).is_ok(),
           "via_chunk_then_value": rmp_serde::from_slice::<Chunk>(&ser_chunk).ok()
                .map(|c| rmp_serde::from_slice::<DataMapLevel>(c.value()).is_ok()),
           "wrapped_len": wrapped.len(), "ser_chunk_len": ser_chunk.len()})
}

fn run(rt: &tokio::runtime::Runtime, case: &Value) -> Value {
    match case["op"].as_str().unwrap_or("") {
        "chunk_get" => op_chunk_get(rt, case),
        "vault" => op_vault(rt, case),
        "vault_kad" => op_vault_kad(rt, case),
        "data" => op_data(rt, case),
        "probe_level" => op_probe_level(case),
        other => json!({"error": format!("unknown op {other}")}),
    }
}

fn main() {
    std::panic::set_hook(Box::new(|_| {}));
    let rt = tokio::runtime::Builder::new_current_thread().enable_all().build().unwrap();
    let stdin = std::io::stdin();
    let out = std::io::stdout();
    let mut out = out.lock();
    for line in stdin.lock().lines() {
        let line = line.unwrap();
        if line.trim().is_empty() {
            continue;
        }
        let case: Value = serde_json::from_str(&line).unwrap();
        let res = catch_unwind(AssertUnwindSafe(|| run(&rt, &case))).unwrap_or_else(|p| {
            let msg = p.downcast_ref::<String>().cloned()
                .or_else(|| p.downcast_ref::<&str>().map(|s| s.to_string()))
                .unwrap_or_default();
            json!({"panic": msg})
        });
        writeln!(out, "{res}").unwrap();
    }
}
