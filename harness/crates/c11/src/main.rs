//! C11 harness: runs the real distance / closeness code.
//! One JSON object per input line, one per output line.  Numbers of 256 bits travel as decimal
//! strings, byte strings as hex.
use ant_evm::U256;
use ant_networking::verif_hooks::cmd as hooks;
use ant_networking::{sort_peers_by_address, sort_peers_by_key, NetworkBuilder, NetworkError};
use ant_protocol::storage::{
    ChunkAddress, RecordType, RegisterAddress, ScratchpadAddress, TransactionAddress,
};
use ant_protocol::{convert_distance_to_u256, NetworkAddress};
use bytes::Bytes;
use libp2p::identity::Keypair;
use libp2p::kad::{KBucketKey, RecordKey};
use libp2p::{Multiaddr, PeerId};
use serde_json::{json, Value};
use std::io::{BufRead, Write};
use std::panic::{catch_unwind, AssertUnwindSafe};
use std::str::FromStr;
use xor_name::XorName;

fn hexb(v: &Value) -> Vec<u8> {
    hex::decode(v.as_str().expect("hex string")).expect("valid hex")
}

fn xn(v: &Value) -> XorName {
    let b = hexb(v);
    let a: [u8; 32] = b.as_slice().try_into().expect("32 bytes");
    XorName(a)
}

fn pk(v: &Value) -> bls::PublicKey {
    let b = hexb(v);
    let a: [u8; 32] = b.as_slice().try_into().expect("32 bytes");
    bls::SecretKey::from_bytes(a).expect("valid scalar").public_key()
}

fn u256(v: &Value) -> U256 {
    U256::from_str_radix(v.as_str().expect("decimal string"), 10).expect("decimal")
}

fn peer(v: &Value) -> PeerId {
    PeerId::from_bytes(&hexb(v)).expect("valid peer id bytes")
}

fn peers(v: &Value) -> Vec<PeerId> {
    v.as_array().expect("array").iter().map(peer).collect()
}

fn peers_out<'a>(ps: impl IntoIterator<Item = &'a PeerId>) -> Vec<String> {
    ps.into_iter().map(|p| hex::encode(p.to_bytes())).collect()
}

/// the typed address, plus what the harness knows about how it was derived (owner key bytes)
fn addr(v: &Value) -> (NetworkAddress, Value) {
    match v["t"].as_str().expect("address kind") {
        "peer" => (NetworkAddress::PeerId(Bytes::from(hexb(&v["b"]))), json!({})),
        "peerid" => (NetworkAddress::from_peer(peer(&v["b"])), json!({})),
        "key" => (NetworkAddress::RecordKey(Bytes::from(hexb(&v["b"]))), json!({})),
        "keyfrom" => (
            NetworkAddress::from_record_key(&RecordKey::new(&hexb(&v["b"]))),
            json!({}),
        ),
        // the raw record-key form of another address
        "keyof" => {
            let (inner, info) = addr(&v["a"]);
            (NetworkAddress::from_record_key(&inner.to_record_key()), info)
        }
        "chunk" => (
            NetworkAddress::from_chunk_address(ChunkAddress::new(xn(&v["x"]))),
            json!({}),
        ),
        "tx" => (
            NetworkAddress::from_transaction_address(TransactionAddress::new(xn(&v["x"]))),
            json!({}),
        ),
        "reg" => {
            let owner = pk(&v["sk"]);
            let a = RegisterAddress::new(xn(&v["meta"]), owner);
            (
                NetworkAddress::from_register_address(a),
                json!({"owner": hex::encode(owner.to_bytes()), "xorname": hex::encode(a.xorname().0)}),
            )
        }
        "scratch" => {
            let owner = pk(&v["sk"]);
            let a = ScratchpadAddress::new(owner);
            (
                NetworkAddress::from_scratchpad_address(a),
                json!({"owner": hex::encode(owner.to_bytes()), "xorname": hex::encode(a.xorname().0)}),
            )
        }
        other => panic!("unknown address kind {other}"),
    }
}

fn variant(a: &NetworkAddress) -> &'static str {
    match a {
        NetworkAddress::PeerId(_) => "peer",
        NetworkAddress::ChunkAddress(_) => "chunk",
        NetworkAddress::TransactionAddress(_) => "tx",
        NetworkAddress::RegisterAddress(_) => "reg",
        NetworkAddress::RecordKey(_) => "key",
        NetworkAddress::ScratchpadAddress(_) => "scratch",
    }
}

fn sort_result(r: Result<Vec<&PeerId>, NetworkError>) -> Value {
    match r {
        Ok(l) => json!({"code": 0, "l": peers_out(l)}),
        Err(NetworkError::NotEnoughPeers { found, required }) => {
            json!({"code": 1, "found": found, "required": required})
        }
        Err(e) => json!({"code": 9, "err": format!("{e:?}")}),
    }
}

fn candidates(case: &Value) -> Value {
    let seed = hexb(&case["self_seed"]);
    let keypair = Keypair::ed25519_from_bytes(seed).expect("32-byte seed");
    let self_peer = PeerId::from(keypair.public());
    let dir = std::env::temp_dir().join(format!(
        "verif-c11-{}-{}",
        std::process::id(),
        case["n"].as_u64().unwrap_or(0)
    ));
    std::fs::create_dir_all(&dir).expect("temp dir");
    let rt = tokio::runtime::Builder::new_current_thread()
        .enable_all()
        .build()
        .expect("runtime");
    let res = rt.block_on(async {
        let mut builder = NetworkBuilder::new(keypair, true);
        builder.listen_addr("127.0.0.1:0".parse().expect("socket addr"));
        let (_network, _events, mut driver) = builder.build_node(dir.clone()).expect("build_node");
        let maddr = Multiaddr::from_str("/ip4/127.0.0.1/udp/4000/quic-v1").expect("multiaddr");
        let mut inserted = vec![];
        for p in peers(&case["table"]) {
            if hooks::add_peer_to_routing_table(&mut driver, p, maddr.clone()) {
                inserted.push(p);
            }
        }
        if !case["range"].is_null() {
            hooks::set_responsible_distance_range(&mut driver, u256(&case["range"]));
        }
        let (target, _) = addr(&case["a"]);
        let closest = hooks::closest_local_peers(&mut driver, &target);
        let out = hooks::get_replicate_candidates(&mut driver, &target);
        let range_back = hooks::get_responsible_distance_range(&mut driver).map(|r| r.to_string());
        json!({
            "self": hex::encode(self_peer.to_bytes()),
            "inserted": peers_out(&inserted),
            "closest": peers_out(&closest),
            "out": peers_out(&out),
            "range": range_back,
            "abytes": hex::encode(target.as_bytes()),
        })
    });
    drop(rt);
    let _ = std::fs::remove_dir_all(&dir);
    res
}

fn rtype(v: &Value) -> RecordType {
    match v.as_u64().expect("type tag") {
        0 => RecordType::Chunk,
        1 => RecordType::Scratchpad,
        n => RecordType::NonChunk(XorName([n as u8; 32])),
    }
}

fn rtype_tag(t: &RecordType) -> u64 {
    match t {
        RecordType::Chunk => 0,
        RecordType::Scratchpad => 1,
        RecordType::NonChunk(x) => x.0[0] as u64,
    }
}

fn closest_k(case: &Value) -> Value {
    let keypair = Keypair::ed25519_from_bytes(hexb(&case["self_seed"])).expect("32-byte seed");
    let self_peer = PeerId::from(keypair.public());
    let dir = std::env::temp_dir().join(format!(
        "verif-c11-k-{}-{}",
        std::process::id(),
        case["n"].as_u64().unwrap_or(0)
    ));
    std::fs::create_dir_all(&dir).expect("temp dir");
    let rt = tokio::runtime::Builder::new_current_thread()
        .enable_all()
        .build()
        .expect("runtime");
    let res = rt.block_on(async {
        let mut builder = NetworkBuilder::new(keypair, true);
        builder.listen_addr("127.0.0.1:0".parse().expect("socket addr"));
        let (_network, _events, mut driver) = builder.build_node(dir.clone()).expect("build_node");
        let maddr = Multiaddr::from_str("/ip4/127.0.0.1/udp/4000/quic-v1").expect("multiaddr");
        let mut inserted = vec![];
        for p in peers(&case["table"]) {
            if hooks::add_peer_to_routing_table(&mut driver, p, maddr.clone()) {
                inserted.push(p);
            }
        }
        let closest_k = driver.verif_closest_k_value_local_peers();
        let kad = hooks::closest_local_peers(&mut driver, &NetworkAddress::from_peer(self_peer));
        json!({
            "self": hex::encode(self_peer.to_bytes()),
            "inserted": peers_out(&inserted),
            "closest_k": peers_out(&closest_k),
            "kad": peers_out(&kad),
        })
    });
    drop(rt);
    let _ = std::fs::remove_dir_all(&dir);
    res
}

fn store_hist(case: &Value) -> Value {
    use ant_networking::verif_hooks::record_store as rs;
    use ant_networking::verif_hooks::{LocalSwarmCmd, NodeRecordStoreConfig, UnifiedRecordStore};
    use libp2p::kad::store::RecordStore;
    use libp2p::kad::Record;
    let me = peer(&case["self"]);
    let root = std::env::temp_dir().join(format!(
        "verif-c11-hist-{}-{}",
        std::process::id(),
        case["n"].as_u64().unwrap_or(0)
    ));
    let _ = std::fs::remove_dir_all(&root);
    let storage = root.join("record_store");
    std::fs::create_dir_all(&storage).expect("temp dir");
    let seed: [u8; 16] = {
        let mut s = [0u8; 16];
        let b = me.to_bytes();
        for (i, x) in b.iter().take(16).enumerate() {
            s[i] = *x;
        }
        s
    };
    let max_records = case["max"].as_u64().expect("max") as usize;
    let config = || NodeRecordStoreConfig {
        storage_dir: storage.clone(),
        historic_quote_dir: root.clone(),
        max_records,
        encryption_seed: seed,
        ..Default::default()
    };
    let rt = tokio::runtime::Builder::new_current_thread()
        .enable_all()
        .build()
        .expect("runtime");
    let (tx_evt, _rx_evt) = tokio::sync::mpsc::channel(10_000);
    let (tx_cmd, mut rx_cmd) = tokio::sync::mpsc::channel::<LocalSwarmCmd>(10_000);
    let open = |rt: &tokio::runtime::Runtime| -> UnifiedRecordStore {
        let (cfg, e, c) = (config(), tx_evt.clone(), tx_cmd.clone());
        rt.block_on(async move { rs::new_node_store(me, cfg, e, c) })
    };
    let dump = |s: &UnifiedRecordStore| -> (Value, Value, Value) {
        let mut held: Vec<String> = rs::record_addresses_ref(s)
            .iter()
            .map(|(k, _, _)| hex::encode(k.as_ref()))
            .collect();
        held.sort();
        let far = rs::farthest_record(s).map(|(k, d)| json!([hex::encode(k.as_ref()), d.to_string()]));
        let far_key = rs::get_farthest(s).map(|k| hex::encode(k.as_ref()));
        (json!(held), json!(far), json!(far_key))
    };
    // let background tasks (file deletes, command sends) run
    let settle = |rt: &tokio::runtime::Runtime| {
        rt.block_on(async {
            for _ in 0..50 {
                tokio::task::yield_now().await;
            }
        })
    };
    let mut store = open(&rt);
    let mut steps = vec![];
    for st in case["steps"].as_array().expect("steps") {
        let (pre_held, pre_far, _) = dump(&store);
        let mut res = json!(0);
        match st["s"].as_str().expect("step kind") {
            "put" => {
                let key = RecordKey::new(&hexb(&st["key"]));
                // a chunk record: header + serialised payload (restart re-reads the record kind from it)
                let payload = vec![st["val"].as_u64().unwrap_or(0) as u8; 40];
                let value = ant_protocol::storage::try_serialize_record(
                    &payload,
                    ant_protocol::storage::RecordKind::Chunk,
                )
                .expect("serialise")
                .to_vec();
                let rec = Record { key, value, publisher: None, expires: None };
                let r = rt.block_on(async { rs::put_verified(&mut store, rec, RecordType::Chunk) });
                match r {
                    Ok(()) => {
                        // the driver's part: the write reports back, the key is marked as stored.
                        // The write and the report are tasks on this current-thread runtime, so yielding
                        // runs them to completion; when nothing was spawned (the same bytes were still in
                        // the read cache and put_verified returned early) no report ever comes: outcome 2.
                        let mut n = None;
                        for _ in 0..400 {
                            rt.block_on(async { tokio::task::yield_now().await });
                            if let Ok(c) = rx_cmd.try_recv() {
                                n = Some(c);
                                break;
                            }
                        }
                        match n {
                            Some(LocalSwarmCmd::AddLocalRecordAsStored { key, record_type }) => {
                                rt.block_on(async { rs::mark_as_stored(&mut store, key, record_type) })
                            }
                            Some(LocalSwarmCmd::RemoveFailedLocalRecord { key }) => {
                                rt.block_on(async { store.remove(&key) });
                                res = json!(7);
                            }
                            Some(_) => res = json!(8),
                            None => res = json!(2),
                        }
                    }
                    Err(libp2p::kad::store::Error::MaxRecords) => res = json!(1),
                    Err(e) => res = json!(format!("{e:?}")),
                }
            }
            "remove" => {
                let key = RecordKey::new(&hexb(&st["key"]));
                rt.block_on(async { store.remove(&key) });
            }
            "restart" => {
                settle(&rt);
                drop(store);
                settle(&rt);
                store = open(&rt);
            }
            other => panic!("unknown step {other}"),
        }
        settle(&rt);
        let (held, far, far_key) = dump(&store);
        steps.push(json!({"res": res, "pre_held": pre_held, "pre_far": pre_far, "held": held, "far": far, "far_key": far_key}));
    }
    drop(store);
    drop(rt);
    let _ = std::fs::remove_dir_all(&root);
    json!({"steps": steps})
}

fn chunk_proofs(case: &Value) -> Value {
    use ant_networking::verif_hooks::LocalSwarmCmd;
    use ant_networking::Network;
    use ant_protocol::messages::{ChunkProof, Query, QueryResponse, Response};
    use libp2p::kad::Record;
    let keypair = Keypair::ed25519_from_bytes(hexb(&case["self_seed"])).expect("32-byte seed");
    let self_peer = PeerId::from(keypair.public());
    let (target, _) = addr(&case["a"]);
    let difficulty = case["difficulty"].as_u64().expect("difficulty") as usize;
    let nonce: u64 = case["nonce"].as_u64().unwrap_or(42);
    let records: Vec<(Vec<u8>, RecordType)> = case["records"]
        .as_array()
        .expect("records")
        .iter()
        .map(|e| (hexb(&e[0]), rtype(&e[1])))
        .collect();
    let mut all_local: std::collections::HashMap<NetworkAddress, RecordType> = std::collections::HashMap::new();
    for (k, t) in &records {
        let _ = all_local.insert(NetworkAddress::from_record_key(&RecordKey::new(k)), t.clone());
    }
    let held: std::collections::HashSet<Vec<u8>> = records.iter().map(|(k, _)| k.clone()).collect();
    let rt = tokio::runtime::Builder::new_current_thread()
        .enable_all()
        .build()
        .expect("runtime");
    let resp = rt.block_on(async {
        let (network_cmd_sender, _network_cmd_receiver) = tokio::sync::mpsc::channel(8);
        let (local_cmd_sender, mut local_cmd_receiver) = tokio::sync::mpsc::channel::<LocalSwarmCmd>(64);
        let network = Network::new(network_cmd_sender, local_cmd_sender, self_peer, keypair);
        let _driver = tokio::spawn(async move {
            let _keep = _network_cmd_receiver;
            while let Some(cmd) = local_cmd_receiver.recv().await {
                match cmd {
                    LocalSwarmCmd::GetAllLocalRecordAddresses { sender } => {
                        let _ = sender.send(all_local.clone());
                    }
                    LocalSwarmCmd::GetLocalRecord { key, sender } => {
                        let rec = if held.contains(key.as_ref()) {
                            Some(Record { value: key.to_vec(), key, publisher: None, expires: None })
                        } else {
                            None
                        };
                        let _ = sender.send(rec);
                    }
                    _ => {}
                }
            }
        });
        ant_node::verif_hooks::VerifNode::handle_query(
            &network,
            Query::GetChunkExistenceProof { key: target.clone(), nonce, difficulty },
            ant_evm::RewardsAddress::default(),
        )
        .await
    });
    match resp {
        Response::Query(QueryResponse::GetChunkExistenceProof(answers)) => {
            let l: Vec<Value> = answers
                .iter()
                .map(|(a, r)| {
                    let ok = match r {
                        Ok(p) => ChunkProof::new(&a.as_bytes(), nonce).verify(p),
                        Err(_) => false,
                    };
                    json!([variant(a), hex::encode(a.as_bytes()), r.is_ok(), ok])
                })
                .collect();
            json!({"l": l, "abytes": hex::encode(target.as_bytes())})
        }
        other => json!({"error": format!("unexpected response {other:?}")}),
    }
}

fn close_peers(case: &Value) -> Value {
    use ant_networking::verif_hooks::NetworkSwarmCmd;
    use ant_networking::Network;
    let keypair = Keypair::ed25519_from_bytes(hexb(&case["self_seed"])).expect("32-byte seed");
    let self_peer = PeerId::from(keypair.public());
    let found: Vec<PeerId> = case["found"]
        .as_array()
        .expect("found")
        .iter()
        .map(|v| if v.as_str() == Some("self") { self_peer } else { peer(v) })
        .collect();
    let target = if case["a"]["t"].as_str() == Some("self") {
        NetworkAddress::from_peer(self_peer)
    } else {
        addr(&case["a"]).0
    };
    let client = case["client"].as_bool().expect("client flag");
    let rt = tokio::runtime::Builder::new_current_thread()
        .enable_all()
        .build()
        .expect("runtime");
    let res = rt.block_on(async {
        let (network_cmd_sender, mut network_cmd_receiver) = tokio::sync::mpsc::channel(8);
        let (local_cmd_sender, _local_cmd_receiver) = tokio::sync::mpsc::channel(8);
        let network = Network::new(network_cmd_sender, local_cmd_sender, self_peer, keypair);
        let answer = found.clone();
        let _responder = tokio::spawn(async move {
            let _keep = _local_cmd_receiver;
            while let Some(cmd) = network_cmd_receiver.recv().await {
                if let NetworkSwarmCmd::GetClosestPeersToAddressFromNetwork { sender, .. } = cmd {
                    let _ = sender.send(answer.clone());
                }
            }
        });
        if client {
            network.client_get_all_close_peers_in_range_or_close_group(&target).await
        } else {
            network.node_get_closest_peers(&target).await
        }
    });
    let mut out = match res {
        Ok(l) => json!({"code": 0, "l": peers_out(&l)}),
        Err(NetworkError::NotEnoughPeers { found, required }) => {
            json!({"code": 1, "found": found, "required": required})
        }
        Err(e) => json!({"code": 9, "err": format!("{e:?}")}),
    };
    out["self"] = json!(hex::encode(self_peer.to_bytes()));
    out["found_peers"] = json!(peers_out(&found));
    out["abytes"] = json!(hex::encode(target.as_bytes()));
    out
}

fn fetch_sched(case: &Value) -> Value {
    use ant_networking::verif_hooks::replication_fetcher::Fetcher;
    let rt = tokio::runtime::Builder::new_current_thread()
        .enable_all()
        .build()
        .expect("runtime");
    rt.block_on(async {
        let (event_sender, _event_receiver) = tokio::sync::mpsc::channel(64);
        let mut fetcher = Fetcher::new(peer(&case["self"]), event_sender);
        if !case["range"].is_null() {
            fetcher.set_replication_distance_range(u256(&case["range"]));
        }
        let dump = |f: &Fetcher| -> (Value, Value) {
            let (pending, ongoing) = f.dump();
            let p: Vec<Value> = pending
                .iter()
                .map(|(k, t, h, _)| json!([hex::encode(k.as_ref()), rtype_tag(t), hex::encode(h.to_bytes())]))
                .collect();
            let o: Vec<Value> = ongoing
                .iter()
                .map(|(k, t, h, _)| json!([hex::encode(k.as_ref()), rtype_tag(t), hex::encode(h.to_bytes())]))
                .collect();
            (json!(p), json!(o))
        };
        let (max_parallel, _, _) = ant_networking::verif_hooks::replication_fetcher::constants();
        let mut steps = vec![];
        for st in case["steps"].as_array().expect("steps") {
            let (pre_p, pre_o) = dump(&fetcher);
            let pre_far = fetcher.farthest_acceptable_distance().map(|d| d.to_string());
            let out = match st["s"].as_str().expect("step kind") {
                // the record store is full: its farthest record key (or nothing held)
                "full" => {
                    let key = if st["key"].is_null() { None } else { Some(RecordKey::new(&hexb(&st["key"]))) };
                    fetcher.set_farthest_on_full(key);
                    vec![]
                }
                "add" => {
                    let keys: Vec<(NetworkAddress, RecordType)> = st["keys"]
                        .as_array()
                        .expect("keys")
                        .iter()
                        .map(|e| (NetworkAddress::RecordKey(Bytes::from(hexb(&e[0]))), rtype(&e[1])))
                        .collect();
                    fetcher.add_keys(peer(&st["holder"]), keys, &std::collections::HashMap::new())
                }
                "put" => fetcher.notify_about_new_put(RecordKey::new(&hexb(&st["key"])), rtype(&st["type"])),
                "early" => {
                    fetcher.notify_fetch_early_completed(RecordKey::new(&hexb(&st["key"])), rtype(&st["type"]))
                }
                "next" => fetcher.next_keys_to_fetch(),
                other => panic!("unknown step {other}"),
            };
            let (post_p, post_o) = dump(&fetcher);
            let out: Vec<Value> = out
                .iter()
                .map(|(h, k)| json!([hex::encode(h.to_bytes()), hex::encode(k.as_ref())]))
                .collect();
            let post_far = fetcher.farthest_acceptable_distance().map(|d| d.to_string());
            steps.push(json!({"pre_p": pre_p, "pre_o": pre_o, "pre_far": pre_far, "out": out,
                              "post_p": post_p, "post_o": post_o, "post_far": post_far}));
        }
        json!({"steps": steps, "max_parallel": max_parallel})
    })
}

fn run(case: &Value) -> Value {
    match case["op"].as_str().expect("op") {
        // one address: its bytes, record key, hashed kbucket bytes, and the raw-key form
        "addr" => {
            let (a, info) = addr(&case["a"]);
            let key = a.to_record_key();
            let back = NetworkAddress::from_record_key(&key);
            json!({
                "variant": variant(&a),
                "bytes": hex::encode(a.as_bytes()),
                "key": hex::encode(key.as_ref()),
                "digest": hex::encode(a.as_kbucket_key().hashed_bytes()),
                "back_variant": variant(&back),
                "back_bytes": hex::encode(back.as_bytes()),
                "back_digest": hex::encode(back.as_kbucket_key().hashed_bytes()),
                "info": info,
            })
        }
        // two addresses: distance both ways (Debug text of the KBucketDistance), the converted
        // U256, the distance between their raw record-key forms, and the orderings
        "dist" => {
            let (a, _) = addr(&case["a"]);
            let (b, _) = addr(&case["b"]);
            let (c, _) = addr(&case["c"]);
            let d_ab = a.distance(&b);
            let d_ba = b.distance(&a);
            let ka = NetworkAddress::from_record_key(&a.to_record_key());
            let kb = NetworkAddress::from_record_key(&b.to_record_key());
            let d_keys = ka.distance(&kb);
            let d_mixed = a.distance(&kb);
            let d_ac = a.distance(&c);
            json!({
                "bytes_a": hex::encode(a.as_bytes()),
                "bytes_b": hex::encode(b.as_bytes()),
                "bytes_c": hex::encode(c.as_bytes()),
                "dbg_ab": format!("{d_ab:?}"),
                "dbg_ba": format!("{d_ba:?}"),
                "dbg_keys": format!("{d_keys:?}"),
                "dbg_mixed": format!("{d_mixed:?}"),
                "dbg_ac": format!("{d_ac:?}"),
                "u_ab": convert_distance_to_u256(&d_ab).to_string(),
                "u_ac": convert_distance_to_u256(&d_ac).to_string(),
                "u_keys": convert_distance_to_u256(&d_keys).to_string(),
                // Ord on KBucketDistance, as the sorts use it: -1 / 0 / 1
                "cmp_ab_ac": d_ab.cmp(&d_ac) as i8,
                "addr_eq": a == b,
            })
        }
        "sort_addr" => {
            let ps = peers(&case["peers"]);
            let (a, _) = addr(&case["a"]);
            let n = case["n"].as_u64().expect("n") as usize;
            let mut r = sort_result(sort_peers_by_address(&ps, &a, n));
            r["abytes"] = json!(hex::encode(a.as_bytes()));
            r
        }
        "sort_key" => {
            let ps = peers(&case["peers"]);
            let n = case["n"].as_u64().expect("n") as usize;
            if case["as_peer"].as_bool().unwrap_or(false) {
                let key: KBucketKey<PeerId> = KBucketKey::from(peer(&case["pre"]));
                sort_result(sort_peers_by_key(&ps, &key, n))
            } else {
                let key: KBucketKey<Vec<u8>> = KBucketKey::new(hexb(&case["pre"]));
                sort_result(sort_peers_by_key(&ps, &key, n))
            }
        }
        "in_range" => {
            let ps = peers(&case["peers"]);
            let (a, _) = addr(&case["a"]);
            let l = hooks::get_peers_in_range(&ps, &a, u256(&case["range"]));
            json!({"l": peers_out(&l), "abytes": hex::encode(a.as_bytes())})
        }
        "candidates" => candidates(case),
        // Node::calculate_get_closest_peers; every peer carries one multi-address whose UDP port
        // is the generator's tag, so that stable order among equal peers is observable
        "closest" => {
            let peer_addrs: Vec<(PeerId, Vec<Multiaddr>)> = case["peers"]
                .as_array()
                .expect("peers")
                .iter()
                .map(|e| {
                    let tag = e[1].as_u64().expect("tag");
                    let ma = Multiaddr::from_str(&format!("/ip4/127.0.0.1/udp/{tag}/quic-v1"))
                        .expect("multiaddr");
                    (peer(&e[0]), vec![ma])
                })
                .collect();
            let (target, _) = addr(&case["a"]);
            let abytes = hex::encode(target.as_bytes());
            let num = case["num"].as_u64().map(|n| n as usize);
            let range: Option<[u8; 32]> = if case["range"].is_null() {
                None
            } else {
                Some(hexb(&case["range"]).as_slice().try_into().expect("32 bytes"))
            };
            let out = ant_node::verif_hooks::calculate_get_closest_peers(peer_addrs, target, num, range);
            let l: Vec<Value> = out
                .iter()
                .map(|(a, mas)| {
                    let tag = mas
                        .first()
                        .and_then(|m| {
                            m.iter().find_map(|p| match p {
                                libp2p::multiaddr::Protocol::Udp(port) => Some(port as u64),
                                _ => None,
                            })
                        })
                        .unwrap_or(u64::MAX);
                    json!([variant(a), hex::encode(a.as_bytes()), tag, mas.len()])
                })
                .collect();
            json!({"l": l, "abytes": abytes})
        }
        "fetcher" => {
            let keys: Vec<(NetworkAddress, RecordType)> = case["keys"]
                .as_array()
                .expect("keys")
                .iter()
                .map(|k| (addr(k).0, RecordType::Chunk))
                .collect();
            let keys_bytes: Vec<String> = keys.iter().map(|(a, _)| hex::encode(a.as_bytes())).collect();
            let range = if case["range"].is_null() { None } else { Some(u256(&case["range"])) };
            let holder = peer(&case["holder"]);
            let out = hooks::fetcher_add_keys(peer(&case["self"]), range, holder, keys);
            json!({
                "out": out.iter().map(|(_, k)| hex::encode(k.as_ref())).collect::<Vec<_>>(),
                "holders_ok": out.iter().all(|(h, _)| *h == holder),
                "keys_bytes": keys_bytes,
            })
        }
        // a scheduling history of one ReplicationFetcher: adverts from several holders, completions,
        // plain scheduling calls; both maps are dumped before and after every step
        "fetch_sched" => fetch_sched(case),
        // Network::get_all_close_peers_in_range_or_close_group, client and node path: a real `Network`
        // handle whose swarm side answers the closest-peers query with the given list ("self" entries
        // stand for the handle's own peer id)
        "close_peers" => close_peers(case),
        // Node::respond_x_closest_record_proof through Node::handle_query(GetChunkExistenceProof): the harness
        // plays the swarm driver and answers the two store queries with the case's records
        "chunk_proofs" => chunk_proofs(case),
        // SwarmDriver::get_closest_k_value_local_peers over a real routing table filled in the given order
        "closest_k" => closest_k(case),
        // admission / eviction history of a real NodeRecordStore with a small capacity, incl. restarts
        "store_hist" => store_hist(case),
        "store_count" => {
            let dir = std::env::temp_dir().join(format!(
                "verif-c11-store-{}-{}",
                std::process::id(),
                case["n"].as_u64().unwrap_or(0)
            ));
            std::fs::create_dir_all(&dir).expect("temp dir");
            let keys: Vec<RecordKey> = case["keys"]
                .as_array()
                .expect("keys")
                .iter()
                .map(|k| RecordKey::new(&hexb(k)))
                .collect();
            // the store's constructor touches tokio (timers), so give it a runtime
            let rt = tokio::runtime::Builder::new_current_thread()
                .enable_all()
                .build()
                .expect("runtime");
            let n = rt.block_on(async {
                hooks::store_records_within_distance_range(
                    peer(&case["self"]),
                    dir.clone(),
                    keys,
                    u256(&case["range"]),
                )
            });
            drop(rt);
            let _ = std::fs::remove_dir_all(&dir);
            json!({"n": n})
        }
        other => json!({"error": format!("unknown op {other}")}),
    }
}

fn main() {
    std::panic::set_hook(Box::new(|_| {}));
    let stdin = std::io::stdin();
    let out = std::io::stdout();
    let mut out = out.lock();
    for line in stdin.lock().lines() {
        let line = line.unwrap();
        if line.trim().is_empty() {
            continue;
        }
        let case: Value = serde_json::from_str(&line).unwrap();
        let res = catch_unwind(AssertUnwindSafe(|| run(&case))).unwrap_or_else(|p| {
            let msg = p
                .downcast_ref::<String>()
                .cloned()
                .or_else(|| p.downcast_ref::<&str>().map(|s| s.to_string()))
                .unwrap_or_default();
            json!({"panic": msg})
        });
        writeln!(out, "{res}").unwrap();
    }
}
