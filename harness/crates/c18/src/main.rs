//! C18 harness: drives the real bootstrap cache (ant-bootstrap) through operation histories and
//! through concurrent flushes to one file.  One JSON object per input line, one per output line.
//!
//!  * "data" histories work on `CacheData` values (obtained from `load_cache_data`; the type lives in a
//!    private module but its fields and methods are public) with constructed `last_seen` values;
//!  * "store" histories work on a `BootstrapCacheStore` with the real clock, a cache file that the case
//!    may overwrite (another process / a foreign file), flushes and loads;
//!  * "concurrent" cases run several writer threads and writer processes flushing to one path while a
//!    reader keeps loading it.
use ant_bootstrap::{BootstrapAddr, BootstrapCacheConfig, BootstrapCacheStore, PeersArgs};
use libp2p::multiaddr::Protocol;
use libp2p::{Multiaddr, PeerId};
use serde_json::{json, Value};
use std::io::{BufRead, Write};
use std::panic::{catch_unwind, AssertUnwindSafe};
use std::path::{Path, PathBuf};
use std::str::FromStr;
use std::sync::atomic::{AtomicBool, Ordering};
use std::sync::Arc;
use std::time::{Duration, SystemTime, UNIX_EPOCH};

fn protos(a: &Multiaddr) -> Value {
    Value::Array(
        a.iter()
            .map(|p| match p {
                Protocol::Ip4(ip) => json!(["ip4", u32::from(ip)]),
                Protocol::Udp(p) => json!(["udp", p]),
                Protocol::Tcp(p) => json!(["tcp", p]),
                Protocol::QuicV1 => json!(["quic-v1"]),
                Protocol::Ws(path) => json!(["ws", path.as_bytes().to_vec()]),
                Protocol::P2p(id) => json!(["p2p", hex::encode(id.to_bytes())]),
                other => json!(["other", other.to_string().into_bytes()]),
            })
            .collect(),
    )
}

fn cfg_of(c: &Value, path: &Path) -> BootstrapCacheConfig {
    BootstrapCacheConfig::empty()
        .with_cache_path(path)
        .with_max_peers(c["max_peers"].as_u64().unwrap_or(1500) as usize)
        .with_addrs_per_peer(c["max_addrs"].as_u64().unwrap_or(6) as usize)
        .with_addr_expiry_duration(Duration::from_secs(c["expiry_secs"].as_u64().unwrap_or(86400)))
}

fn ns(t: SystemTime) -> i128 {
    match t.duration_since(UNIX_EPOCH) {
        Ok(d) => d.as_nanos() as i128,
        Err(e) => -(e.duration().as_nanos() as i128),
    }
}

fn rec_json(a: &BootstrapAddr, base_ns: i128) -> Value {
    // times are reported relative to the case's base clock, in nanoseconds
    json!({"addr": a.addr.to_string(), "protos": protos(&a.addr), "s": a.success_count, "f": a.failure_count,
           "rel": (ns(a.last_seen) - base_ns).to_string()})
}

/// dump of a CacheData (peers sorted by id, address order inside a peer kept)
macro_rules! dump_data {
    ($d:expr, $base:expr) => {{
        let mut peers: Vec<(String, Value)> = $d
            .peers
            .iter()
            .map(|(p, addrs)| (hex::encode(p.to_bytes()), Value::Array(addrs.0.iter().map(|a| rec_json(a, $base)).collect())))
            .collect();
        peers.sort_by(|a, b| a.0.cmp(&b.0));
        Value::Array(peers.into_iter().map(|(p, l)| json!({"peer": p, "addrs": l})).collect())
    }};
}

/// dump of a store: get_all_addrs() grouped by the address's own /p2p (the key add_addr used)
fn dump_store(s: &BootstrapCacheStore, base_ns: i128) -> Value {
    let mut groups: Vec<(String, Vec<Value>)> = Vec::new();
    for a in s.get_all_addrs() {
        let key = a.peer_id().map(|p| hex::encode(p.to_bytes())).unwrap_or_default();
        match groups.iter_mut().find(|g| g.0 == key) {
            Some(g) => g.1.push(rec_json(a, base_ns)),
            None => groups.push((key, vec![rec_json(a, base_ns)])),
        }
    }
    groups.sort_by(|a, b| a.0.cmp(&b.0));
    json!({"peer_count": s.peer_count(),
           "peers": groups.into_iter().map(|(p, l)| json!({"peer": p, "addrs": l})).collect::<Vec<_>>()})
}

/// the file as it is on disk, parsed only as generic JSON (no clean-up, no schema beyond the fields read)
fn dump_file(path: &Path, base_ns: i128) -> Value {
    let Ok(text) = std::fs::read_to_string(path) else { return json!({"state": "absent"}) };
    let Ok(v) = serde_json::from_str::<Value>(&text) else { return json!({"state": "not-json", "len": text.len()}) };
    let Some(peers) = v.get("peers").and_then(|p| p.as_object()) else { return json!({"state": "no-peers"}) };
    let mut out: Vec<(String, Value)> = Vec::new();
    for (p, l) in peers {
        let mut recs = Vec::new();
        for a in l.as_array().cloned().unwrap_or_default() {
            let addr_s = a["addr"].as_str().unwrap_or("").to_string();
            let pr = Multiaddr::from_str(&addr_s).map(|m| protos(&m)).unwrap_or(Value::Null);
            let secs = a["last_seen"]["secs_since_epoch"].as_u64().unwrap_or(0) as i128;
            let nanos = a["last_seen"]["nanos_since_epoch"].as_u64().unwrap_or(0) as i128;
            recs.push(json!({"addr": addr_s, "protos": pr, "s": a["success_count"], "f": a["failure_count"],
                             "rel": (secs * 1_000_000_000 + nanos - base_ns).to_string()}));
        }
        let key = PeerId::from_str(p).map(|id| hex::encode(id.to_bytes())).unwrap_or_else(|_| p.clone());
        out.push((key, Value::Array(recs)));
    }
    out.sort_by(|a, b| a.0.cmp(&b.0));
    json!({"state": "ok", "peers": out.into_iter().map(|(p, l)| json!({"peer": p, "addrs": l})).collect::<Vec<_>>()})
}

fn substitute_now(content: &str, now_secs: u64) -> String {
    let mut out = String::new();
    let mut rest = content;
    while let Some(i) = rest.find("@S") {
        out.push_str(&rest[..i]);
        let tail = &rest[i + 2..];
        if let Some(j) = tail.find('@') {
            if let Ok(off) = tail[..j].parse::<i64>() {
                out.push_str(&((now_secs as i64 + off).max(0)).to_string());
                rest = &tail[j + 1..];
                continue;
            }
        }
        out.push_str("@S");
        rest = tail;
    }
    out.push_str(rest);
    out
}

const EMPTY_FILE: &str = r#"{"peers":{},"last_updated":{"secs_since_epoch":0,"nanos_since_epoch":0},"network_version":"x"}"#;

fn history(case: &Value) -> Value {
    let dir = tempfile::tempdir().unwrap();
    let path = dir.path().join("cache.json");
    let empty_path = dir.path().join("empty.json");
    std::fs::write(&empty_path, EMPTY_FILE).unwrap();
    let cfg = cfg_of(&case["cfg"], &path);
    let empty_cfg = cfg_of(&case["cfg"], &empty_path);
    let base_secs = SystemTime::now().duration_since(UNIX_EPOCH).unwrap().as_secs();
    let base_ns = base_secs as i128 * 1_000_000_000;
    let mut store = BootstrapCacheStore::new(cfg.clone()).unwrap();
    let mut slots = Vec::new();
    for _ in 0..4 {
        slots.push(BootstrapCacheStore::load_cache_data(&empty_cfg).unwrap());
    }
    let mut trace = Vec::new();
    for st in case["steps"].as_array().unwrap() {
        let k = st["k"].as_str().unwrap();
        let slot = st["slot"].as_u64().unwrap_or(0) as usize;
        let t0 = ns(SystemTime::now()) - base_ns;
        let mut out = json!({});
        match k {
            // ---- CacheData with constructed times
            "d_insert" => {
                let addr: Multiaddr = st["addr"].as_str().unwrap().parse().unwrap();
                let peer = PeerId::from_str(st["peer"].as_str().unwrap()).unwrap();
                let seen = UNIX_EPOCH
                    + Duration::new((base_secs as i64 + st["off"].as_i64().unwrap()) as u64, st["nanos"].as_u64().unwrap() as u32);
                let rec = BootstrapAddr { addr, success_count: st["s"].as_u64().unwrap() as u32,
                                          failure_count: st["f"].as_u64().unwrap() as u32, last_seen: seen };
                slots[slot].insert(peer, rec);
            }
            "d_sync" => {
                let other = slots[st["other"].as_u64().unwrap() as usize].clone();
                slots[slot].sync(&other);
            }
            "d_cleanup" => slots[slot].perform_cleanup(&cfg),
            "d_remove_oldest" => slots[slot].try_remove_oldest_peers(&cfg),
            // ---- the store, real clock
            "add" => match st["addr"].as_str().unwrap().parse::<Multiaddr>() {
                Ok(a) => store.add_addr(a),
                Err(_) => out = json!({"unparsable": true}),
            },
            "status" => {
                if let Ok(a) = st["addr"].as_str().unwrap().parse::<Multiaddr>() {
                    store.update_addr_status(&a, st["ok"].as_bool().unwrap());
                }
            }
            "remove" => {
                if let Ok(a) = st["addr"].as_str().unwrap().parse::<Multiaddr>() {
                    store.remove_addr(&a);
                }
            }
            "cleanup" => store.perform_cleanup(),
            "sleep" => std::thread::sleep(Duration::from_millis(st["ms"].as_u64().unwrap())),
            "write_file" => {
                if let Some(t) = st["text"].as_str() {
                    std::fs::write(&path, substitute_now(t, base_secs)).unwrap();
                } else {
                    let b: Vec<u8> = st["bytes"].as_array().unwrap().iter().map(|x| x.as_u64().unwrap() as u8).collect();
                    std::fs::write(&path, b).unwrap();
                }
            }
            "delete_file" => {
                let _ = std::fs::remove_file(&path);
            }
            "flush" => {
                let r = store.sync_and_flush_to_disk(st["cleanup"].as_bool().unwrap());
                out = json!({"ok": r.is_ok()});
            }
            "load" => match BootstrapCacheStore::load_cache_data(&cfg) {
                Ok(d) => out = json!({"ok": true, "loaded": dump_data!(d, base_ns)}),
                Err(e) => out = json!({"ok": false, "err": e.to_string()}),
            },
            other => out = json!({"unknown": other}),
        }
        let t1 = ns(SystemTime::now()) - base_ns;
        out["k"] = json!(k);
        out["t0"] = json!(t0.to_string());
        out["t1"] = json!(t1.to_string());
        if k.starts_with("d_") {
            out["data"] = dump_data!(slots[slot], base_ns);
        } else {
            out["store"] = dump_store(&store, base_ns);
            if matches!(k, "write_file" | "delete_file" | "flush") {
                out["file"] = dump_file(&path, base_ns);
            }
        }
        trace.push(out);
    }
    json!({"base_secs": base_secs, "trace": trace})
}

fn peer_text(i: u64) -> String {
    // identity multihash of a 32-byte "ed25519 key" made from the index
    let mut mh = vec![0x00u8, 0x24, 0x08, 0x01, 0x12, 0x20];
    let mut k = [0u8; 32];
    k[..8].copy_from_slice(&i.to_be_bytes());
    mh.extend_from_slice(&k);
    PeerId::from_bytes(&mh).unwrap().to_string()
}

/// one writer: `rounds` times add `per_round` fresh peers, then sync_and_flush_to_disk(true)
fn writer(path: &Path, id: u64, rounds: u64, per_round: u64, max_peers: usize) -> (u64, u64) {
    let cfg = BootstrapCacheConfig::empty().with_cache_path(path).with_max_peers(max_peers);
    let (mut ok, mut failed) = (0, 0);
    for r in 0..rounds {
        let mut store = BootstrapCacheStore::new(cfg.clone()).unwrap();
        for j in 0..per_round {
            let n = id * 1_000_000 + r * 1000 + j;
            let a: Multiaddr = format!("/ip4/10.{}.{}.{}/udp/{}/quic-v1/p2p/{}", id % 256, r % 256, j % 256, 1000 + j, peer_text(n))
                .parse()
                .unwrap();
            store.add_addr(a);
        }
        match store.sync_and_flush_to_disk(true) {
            Ok(()) => ok += 1,
            Err(_) => failed += 1,
        }
    }
    (ok, failed)
}

fn concurrent(case: &Value) -> Value {
    let dir = tempfile::tempdir().unwrap();
    let path: PathBuf = dir.path().join("shared_cache.json");
    let threads = case["threads"].as_u64().unwrap_or(4);
    let procs = case["procs"].as_u64().unwrap_or(0);
    let rounds = case["rounds"].as_u64().unwrap_or(20);
    let per_round = case["per_round"].as_u64().unwrap_or(5);
    let max_peers = case["max_peers"].as_u64().unwrap_or(1500) as usize;
    let cfg = BootstrapCacheConfig::empty().with_cache_path(&path).with_max_peers(max_peers);
    // the file exists from the start, so that "not found" cannot be confused with a torn file
    BootstrapCacheStore::new(cfg.clone()).unwrap().write().unwrap();
    let stop = Arc::new(AtomicBool::new(false));
    let reader = {
        let (stop, cfg, path) = (stop.clone(), cfg.clone(), path.clone());
        std::thread::spawn(move || {
            let (mut loads, mut load_failures, mut raw_reads, mut raw_bad, mut over_bound) = (0u64, 0u64, 0u64, 0u64, 0u64);
            let mut first_failure = String::new();
            while !stop.load(Ordering::Relaxed) {
                loads += 1;
                match BootstrapCacheStore::load_cache_data(&cfg) {
                    Ok(d) => {
                        if d.peers.len() > cfg.max_peers {
                            over_bound += 1;
                        }
                    }
                    Err(e) => {
                        load_failures += 1;
                        if first_failure.is_empty() {
                            first_failure = e.to_string();
                        }
                    }
                }
                raw_reads += 1;
                match std::fs::read_to_string(&path) {
                    Ok(t) => {
                        if serde_json::from_str::<Value>(&t).is_err() {
                            raw_bad += 1;
                        }
                    }
                    Err(_) => raw_bad += 1,
                }
            }
            json!({"loads": loads, "load_failures": load_failures, "raw_reads": raw_reads, "raw_bad": raw_bad,
                   "over_bound": over_bound, "first_failure": first_failure})
        })
    };
    let mut handles = Vec::new();
    for t in 0..threads {
        let path = path.clone();
        handles.push(std::thread::spawn(move || writer(&path, t + 1, rounds, per_round, max_peers)));
    }
    let exe = std::env::current_exe().unwrap();
    let mut children = Vec::new();
    for p in 0..procs {
        children.push(
            std::process::Command::new(&exe)
                .args(["writer", path.to_str().unwrap(), &(100 + p).to_string(), &rounds.to_string(),
                       &per_round.to_string(), &max_peers.to_string()])
                .stdout(std::process::Stdio::piped())
                .spawn()
                .unwrap(),
        );
    }
    let (mut ok, mut failed) = (0u64, 0u64);
    for h in handles {
        let (a, b) = h.join().unwrap();
        ok += a;
        failed += b;
    }
    for c in children {
        let o = c.wait_with_output().unwrap();
        let v: Value = serde_json::from_slice(&o.stdout).unwrap_or(json!({"ok": 0, "failed": 1}));
        ok += v["ok"].as_u64().unwrap_or(0);
        failed += v["failed"].as_u64().unwrap_or(0);
    }
    stop.store(true, Ordering::Relaxed);
    let r = reader.join().unwrap();
    let final_load = BootstrapCacheStore::load_cache_data(&cfg);
    let leftovers = std::fs::read_dir(dir.path()).unwrap().count() - 1;
    json!({"reader": r, "flush_ok": ok, "flush_failed": failed,
           "final_ok": final_load.is_ok(), "final_peers": final_load.map(|d| d.peers.len()).unwrap_or(0),
           "written_peers": (threads + procs) * rounds * per_round, "temp_leftovers": leftovers})
}

/// every file under `root` with a hash of its content
fn snapshot(root: &Path) -> std::collections::BTreeMap<String, u64> {
    use std::hash::{Hash, Hasher};
    let mut out = std::collections::BTreeMap::new();
    let mut todo = vec![root.to_path_buf()];
    while let Some(d) = todo.pop() {
        for e in std::fs::read_dir(&d).into_iter().flatten().flatten() {
            let p = e.path();
            if p.is_dir() {
                todo.push(p);
            } else if let Ok(b) = std::fs::read(&p) {
                let mut h = std::collections::hash_map::DefaultHasher::new();
                b.hash(&mut h);
                out.insert(p.strip_prefix(root).unwrap().to_string_lossy().to_string(), h.finish());
            }
        }
    }
    out
}

fn changed(a: &std::collections::BTreeMap<String, u64>, b: &std::collections::BTreeMap<String, u64>) -> Vec<String> {
    let mut v: Vec<String> = b.iter().filter(|(k, h)| a.get(*k) != Some(*h)).map(|(k, _)| k.clone()).collect();
    v.extend(a.keys().filter(|k| !b.contains_key(*k)).cloned());
    v.sort();
    v
}

/// Every way to construct a store, then add / flush, then a store constructed the same way loads the file back.
/// All paths live in a private temp tree: <root>/cfg/cache.json (the config's path), <root>/custom/<cache file>
/// (bootstrap_cache_dir), <root>/xdg/autonomi/bootstrap_cache/<cache file> (default_config through XDG_DATA_HOME).
fn ctor(case: &Value) -> Value {
    let dir = tempfile::tempdir().unwrap();
    let root = dir.path().to_path_buf();
    std::env::set_var("XDG_DATA_HOME", root.join("xdg"));
    std::env::set_var("HOME", root.join("home"));
    std::env::remove_var("ANT_PEERS");
    let file_name = ant_bootstrap::config::cache_file_name();
    let cfg_path = root.join("cfg").join("cache.json");
    let custom_dir = root.join("custom");
    let label = |p: &Path| -> String {
        let rel = p.strip_prefix(&root).map(|r| r.to_string_lossy().to_string()).unwrap_or_else(|_| p.to_string_lossy().to_string());
        if rel == "cfg/cache.json" {
            "config".into()
        } else if rel == format!("custom/{file_name}") {
            "custom".into()
        } else if rel == format!("xdg/autonomi/bootstrap_cache/{file_name}") {
            "default".into()
        } else {
            rel
        }
    };
    let base_secs = SystemTime::now().duration_since(UNIX_EPOCH).unwrap().as_secs();
    let base_ns = base_secs as i128 * 1_000_000_000;
    let use_cfg = case["config"].as_bool().unwrap();
    let use_custom = case["custom_dir"].as_bool().unwrap();
    let build = |first: bool| -> ant_bootstrap::Result<BootstrapCacheStore> {
        let cfg = if use_cfg { Some(BootstrapCacheConfig::empty().with_cache_path(&cfg_path)) } else { None };
        match case["ctor"].as_str().unwrap() {
            "new" => BootstrapCacheStore::new(cfg.unwrap_or(BootstrapCacheConfig::default_config()?)),
            _ => {
                let pa = PeersArgs {
                    first,
                    local: case["local"].as_bool().unwrap(),
                    disable_mainnet_contacts: case["disable_mainnet_contacts"].as_bool().unwrap_or(false),
                    ignore_cache: case["ignore_cache"].as_bool().unwrap_or(false),
                    bootstrap_cache_dir: if use_custom { Some(custom_dir.clone()) } else { None },
                    ..Default::default()
                };
                BootstrapCacheStore::new_from_peers_args(&pa, cfg)
            }
        }
    };
    // a cache file with one recent peer is already present at every candidate location
    std::fs::create_dir_all(cfg_path.parent().unwrap()).unwrap();
    std::fs::create_dir_all(&custom_dir).unwrap();
    std::fs::create_dir_all(root.join("xdg/autonomi/bootstrap_cache")).unwrap();
    for (i, p) in [cfg_path.clone(), custom_dir.join(&file_name), root.join("xdg/autonomi/bootstrap_cache").join(&file_name)].iter().enumerate() {
        let text = case["seed_files"][i].as_str().unwrap();
        std::fs::write(p, substitute_now(text, base_secs)).unwrap();
    }
    let snap0 = snapshot(&root);
    let first = case["first"].as_bool().unwrap_or(false);
    let mut store = match build(first) {
        Ok(s) => s,
        Err(e) => return json!({"build_err": e.to_string()}),
    };
    let snap1 = snapshot(&root);
    let path_after_build = label(&store.config().cache_file_path);
    let disabled = store.config().disable_cache_writing;
    for a in case["adds"].as_array().unwrap() {
        store.add_addr(a.as_str().unwrap().parse().unwrap());
    }
    let mem = dump_store(&store, base_ns);
    let flush_ok = store.sync_and_flush_to_disk(case["cleanup"].as_bool().unwrap_or(true)).is_ok();
    let snap2 = snapshot(&root);
    // a second store, constructed the same way (without `first`, which clears the file by design), reads back
    let reload = match build(false) {
        Ok(s2) => match BootstrapCacheStore::load_cache_data(s2.config()) {
            Ok(d) => json!({"ok": true, "path": label(&s2.config().cache_file_path), "peers": dump_data!(d, base_ns)}),
            Err(e) => json!({"ok": false, "err": e.to_string(), "path": label(&s2.config().cache_file_path)}),
        },
        Err(e) => json!({"ok": false, "err": e.to_string()}),
    };
    let files: Vec<Value> = ["cfg/cache.json".to_string(), format!("custom/{file_name}"), format!("xdg/autonomi/bootstrap_cache/{file_name}")]
        .iter()
        .map(|rel| json!({"label": label(&root.join(rel)), "content": dump_file(&root.join(rel), base_ns)}))
        .collect();
    json!({"base_secs": base_secs, "config_path": path_after_build, "disabled": disabled,
           "changed_by_build": changed(&snap0, &snap1).iter().map(|p| label(&root.join(p))).collect::<Vec<_>>(),
           "changed_by_flush": changed(&snap1, &snap2).iter().map(|p| label(&root.join(p))).collect::<Vec<_>>(),
           "mem": mem, "flush_ok": flush_ok, "reload": reload, "files_after_flush": files})
}

/// The FIRST flush: the cache file does not exist yet; one writer flushes a large store while a reader spins on
/// load (and a raw read) and a second first-flusher runs (a thread and, optionally, a process).  Repeated over fresh
/// paths.  A load during the race may say "not found", never "cannot parse".
fn first_flush_race(case: &Value) -> Value {
    let trials = case["trials"].as_u64().unwrap_or(10);
    let peers = case["peers"].as_u64().unwrap_or(300);
    let procs = case["procs"].as_u64().unwrap_or(1);
    let (mut loads, mut parse_failures, mut not_found, mut raw_bad, mut flush_failed, mut final_bad) = (0u64, 0u64, 0u64, 0u64, 0u64, 0u64);
    let mut first_failure = String::new();
    for t in 0..trials {
        let dir = tempfile::tempdir().unwrap();
        let path: PathBuf = dir.path().join("first_cache.json");
        let cfg = BootstrapCacheConfig::empty().with_cache_path(&path);
        let stop = Arc::new(AtomicBool::new(false));
        let reader = {
            let (stop, cfg, path) = (stop.clone(), cfg.clone(), path.clone());
            std::thread::spawn(move || {
                let (mut l, mut pf, mut nf, mut rb) = (0u64, 0u64, 0u64, 0u64);
                let mut ff = String::new();
                while !stop.load(Ordering::Relaxed) {
                    l += 1;
                    if !path.exists() {
                        nf += 1;
                        continue;
                    }
                    match BootstrapCacheStore::load_cache_data(&cfg) {
                        Ok(_) => {}
                        Err(e) => {
                            let m = e.to_string();
                            if m.contains("No such file") || m.contains("not found") {
                                nf += 1;
                            } else {
                                pf += 1;
                                if ff.is_empty() {
                                    ff = m;
                                }
                            }
                        }
                    }
                    if let Ok(txt) = std::fs::read_to_string(&path) {
                        if serde_json::from_str::<Value>(&txt).is_err() {
                            rb += 1;
                        }
                    }
                }
                (l, pf, nf, rb, ff)
            })
        };
        let mut hs = Vec::new();
        for w in 0..2u64 {
            let path = path.clone();
            hs.push(std::thread::spawn(move || writer(&path, 10 * t + w + 1, 1, peers, 1500)));
        }
        let exe = std::env::current_exe().unwrap();
        let mut children = Vec::new();
        for p in 0..procs {
            children.push(
                std::process::Command::new(&exe)
                    .args(["writer", path.to_str().unwrap(), &(500 + 10 * t + p).to_string(), "1", &peers.to_string(), "1500"])
                    .stdout(std::process::Stdio::piped())
                    .spawn()
                    .unwrap(),
            );
        }
        for h in hs {
            let (_, f) = h.join().unwrap();
            flush_failed += f;
        }
        for c in children {
            let o = c.wait_with_output().unwrap();
            let v: Value = serde_json::from_slice(&o.stdout).unwrap_or(json!({"ok": 0, "failed": 1}));
            flush_failed += v["failed"].as_u64().unwrap_or(0);
        }
        stop.store(true, Ordering::Relaxed);
        let (l, pf, nf, rb, ff) = reader.join().unwrap();
        loads += l;
        parse_failures += pf;
        not_found += nf;
        raw_bad += rb;
        if first_failure.is_empty() {
            first_failure = ff;
        }
        if BootstrapCacheStore::load_cache_data(&cfg).is_err() {
            final_bad += 1;
        }
    }
    json!({"trials": trials, "loads": loads, "parse_failures": parse_failures, "not_found": not_found, "raw_bad": raw_bad,
           "flush_failed": flush_failed, "final_bad": final_bad, "first_failure": first_failure})
}

/// A store AT the configured limits: `peers` peers with `addrs` long addresses each (default limits 1500 / 6), flushed to
/// an absent path and loaded back; then a second store with one more peer flushes (merge) and the file is loaded again.
fn big_store(case: &Value) -> Value {
    let dir = tempfile::tempdir().unwrap();
    let path = dir.path().join("big_cache.json");
    let cfg = BootstrapCacheConfig::empty().with_cache_path(&path);     // MAX_PEERS / MAX_ADDRS_PER_PEER as shipped
    let peers = case["peers"].as_u64().unwrap();
    let addrs = case["addrs"].as_u64().unwrap();
    let mut store = BootstrapCacheStore::new(cfg.clone()).unwrap();
    for i in 0..peers {
        let id = peer_text(i + 1);
        for j in 0..addrs {
            let a: Multiaddr = format!("/ip4/2{:02}.2{:02}.1{:02}.2{:02}/udp/6{:04}/quic-v1/p2p/{}", i % 50, (i / 50) % 50, j, (i / 2500) % 50, 1000 + j, id)
                .parse()
                .unwrap();
            store.add_addr(a);
        }
    }
    let in_memory = (store.peer_count(), store.get_all_addrs().count());
    let flush1 = store.sync_and_flush_to_disk(true).is_ok();
    let size1 = std::fs::metadata(&path).map(|m| m.len()).unwrap_or(0);
    let load1 = BootstrapCacheStore::load_cache_data(&cfg);
    let l1 = load1.as_ref().map(|d| (d.peers.len(), d.peers.values().map(|l| l.0.len()).sum::<usize>())).ok();
    let err1 = load1.err().map(|e| e.to_string());
    // the merge: one more peer in a fresh store, flushed over the big file
    let mut store2 = BootstrapCacheStore::new(cfg.clone()).unwrap();
    store2.add_addr(format!("/ip4/9.9.9.9/udp/9/quic-v1/p2p/{}", peer_text(9_000_000)).parse().unwrap());
    let flush2 = store2.sync_and_flush_to_disk(true).is_ok();
    let size2 = std::fs::metadata(&path).map(|m| m.len()).unwrap_or(0);
    let l2 = BootstrapCacheStore::load_cache_data(&cfg)
        .map(|d| (d.peers.len(), d.peers.values().map(|l| l.0.len()).sum::<usize>()))
        .ok();
    json!({"in_memory": in_memory, "flush1": flush1, "size1": size1, "load1": l1, "err1": err1,
           "flush2": flush2, "size2": size2, "load2": l2})
}

fn run(case: &Value) -> Value {
    match case["op"].as_str().unwrap() {
        "history" => history(case),
        "concurrent" => concurrent(case),
        "ctor" => ctor(case),
        "big_store" => big_store(case),
        "first_flush_race" => first_flush_race(case),
        // the Multiaddr parser as an oracle: protocol lists of the given texts
        "parse" => Value::Array(
            case["addrs"].as_array().unwrap().iter()
                .map(|t| t.as_str().unwrap().parse::<Multiaddr>().map(|m| protos(&m)).unwrap_or(Value::Null))
                .collect(),
        ),
        other => json!({"error": format!("unknown op {other}")}),
    }
}

/// Nodes and clients always run with a tracing subscriber; tracing evaluates the arguments of a log statement only
/// when a subscriber enables the call site.  So the harness installs one at TRACE level that formats every event's
/// fields (into a sink): evaluating log arguments is part of what the code under test does in production.
fn install_tracing() {
    let _ = tracing_subscriber::fmt()
        .with_max_level(tracing::Level::TRACE)
        .with_writer(std::io::sink)
        .try_init();
}

fn main() {
    install_tracing();
    let args: Vec<String> = std::env::args().collect();
    if args.len() >= 7 && args[1] == "writer" {
        let (ok, failed) = writer(Path::new(&args[2]), args[3].parse().unwrap(), args[4].parse().unwrap(),
                                  args[5].parse().unwrap(), args[6].parse().unwrap());
        println!("{}", json!({"ok": ok, "failed": failed}));
        return;
    }
    std::panic::set_hook(Box::new(|_| {}));
    let stdin = std::io::stdin();
    let out = std::io::stdout();
    let mut out = out.lock();
    for line in stdin.lock().lines() {
        let line = line.unwrap();
        if line.trim().is_empty() {
            continue;
        }
        let case: Value = serde_json::from_str(&line).unwrap();
        let res = catch_unwind(AssertUnwindSafe(|| run(&case))).unwrap_or_else(|p| {
            let msg = p
                .downcast_ref::<String>()
                .cloned()
                .or_else(|| p.downcast_ref::<&str>().map(|s| s.to_string()))
                .unwrap_or_default();
            json!({"panic": msg})
        });
        writeln!(out, "{res}").unwrap();
    }
}
