//! C16 harness: runs the real `AttoTokens` Display / FromStr / checked arithmetic.
//! One JSON object per input line, one per output line.
use ant_evm::{Amount, AttoTokens, EvmError};
use serde_json::{json, Value};
use std::io::{BufRead, Write};
use std::panic::{catch_unwind, AssertUnwindSafe};
use std::str::FromStr;

fn amt(v: &Value) -> AttoTokens {
    // amounts travel as decimal strings of atto units
    AttoTokens::from_atto(Amount::from_str_radix(v.as_str().unwrap(), 10).unwrap())
}

fn input_string(v: &Value) -> String {
    // either {"s": "..."} or {"bytes": [..]} (lossless for non-ASCII)
    if let Some(s) = v.get("s").and_then(|s| s.as_str()) {
        s.to_string()
    } else {
        let b: Vec<u8> = v["bytes"].as_array().unwrap().iter().map(|x| x.as_u64().unwrap() as u8).collect();
        String::from_utf8(b).expect("generator only emits valid UTF-8")
    }
}

fn run(case: &Value) -> Value {
    match case["op"].as_str().unwrap() {
        "display" => json!({"s": format!("{}", amt(&case["a"]))}),
        "from_str" => match AttoTokens::from_str(&input_string(case)) {
            Ok(a) => json!({"code": 0, "v": a.as_atto().to_string()}),
            Err(EvmError::FailedToParseAttoToken(m)) if m.contains("units") => json!({"code": 1, "v": "0"}),
            Err(EvmError::FailedToParseAttoToken(_)) => json!({"code": 2, "v": "0"}),
            Err(EvmError::LossOfPrecision) => json!({"code": 3, "v": "0"}),
            Err(EvmError::ExcessiveValue) => json!({"code": 4, "v": "0"}),
            Err(e) => json!({"code": 9, "v": "0", "err": format!("{e:?}")}),
        },
        "roundtrip" => {
            let a = amt(&case["a"]);
            let s = format!("{a}");
            match AttoTokens::from_str(&s) {
                Ok(b) => json!({"s": s, "code": 0, "v": b.as_atto().to_string()}),
                Err(e) => json!({"s": s, "code": 9, "v": "0", "err": format!("{e:?}")}),
            }
        }
        "add" => json!({"r": amt(&case["a"]).checked_add(amt(&case["b"])).map(|x| x.as_atto().to_string())}),
        "sub" => json!({"r": amt(&case["a"]).checked_sub(amt(&case["b"])).map(|x| x.as_atto().to_string())}),
        other => json!({"error": format!("unknown op {other}")}),
    }
}

fn main() {
    std::panic::set_hook(Box::new(|_| {}));
    let stdin = std::io::stdin();
    let out = std::io::stdout();
    let mut out = out.lock();
    for line in stdin.lock().lines() {
        let line = line.unwrap();
        if line.trim().is_empty() {
            continue;
        }
        let case: Value = serde_json::from_str(&line).unwrap();
        let res = catch_unwind(AssertUnwindSafe(|| run(&case)))
            .unwrap_or_else(|p| {
                let msg = p.downcast_ref::<String>().cloned()
                    .or_else(|| p.downcast_ref::<&str>().map(|s| s.to_string()))
                    .unwrap_or_default();
                json!({"panic": msg})
            });
        writeln!(out, "{res}").unwrap();
    }
}
