//! An always-on tracing subscriber: every level is enabled and every event's fields (the message
//! with its arguments included) are formatted into a sink.  Nodes always run with a subscriber
//! installed, and `tracing` evaluates the arguments of `error!` / `debug!` ... only when the
//! callsite is enabled -- so evaluating and formatting log arguments is part of what a decoder
//! does in production, and a panic in there is a decoder crash.
use std::fmt::Write as _;
use tracing::field::{Field, Visit};
use tracing::span::{Attributes, Id, Record};
use tracing::{Event, Metadata, Subscriber};

pub struct FormatAll;

struct Fmt(String);
impl Visit for Fmt {
    fn record_debug(&mut self, field: &Field, value: &dyn std::fmt::Debug) {
        self.0.clear();
        let _ = write!(self.0, "{}={:?}", field.name(), value);
    }
    fn record_str(&mut self, field: &Field, value: &str) {
        self.0.clear();
        let _ = write!(self.0, "{}={}", field.name(), value);
    }
}

impl Subscriber for FormatAll {
    fn enabled(&self, _: &Metadata<'_>) -> bool {
        true
    }
    fn new_span(&self, attrs: &Attributes<'_>) -> Id {
        attrs.record(&mut Fmt(String::new()));
        Id::from_u64(1)
    }
    fn record(&self, _: &Id, values: &Record<'_>) {
        values.record(&mut Fmt(String::new()));
    }
    fn record_follows_from(&self, _: &Id, _: &Id) {}
    fn event(&self, event: &Event<'_>) {
        event.record(&mut Fmt(String::new()));
    }
    fn enter(&self, _: &Id) {}
    fn exit(&self, _: &Id) {}
}

pub fn install() {
    let _ = tracing::subscriber::set_global_default(FormatAll);
}
