//! C12 harness: record/message encodings of ant-protocol (header.rs, chunks.rs, messages/*, lib.rs).
//! One JSON object per input line, one per output line.
//!
//! For a Rust value x the harness reports the real encoding (`try_serialize_record` / rmp-serde),
//! the serde call tree of x (module `rec`), and what the real decoders make of the bytes.
mod rec;
mod trace;

use ant_evm::{PaymentQuote, ProofOfPayment, QuotingMetrics, RewardsAddress};
use ant_protocol::error::Error as ProtocolError;
use ant_protocol::messages::{ChunkProof, Cmd, CmdResponse, Query, QueryResponse, Request, Response};
use ant_protocol::storage::{
    try_deserialize_record, try_serialize_record, Chunk, ChunkAddress, RecordHeader, RecordKind, RecordType, Scratchpad,
    ScratchpadAddress, Transaction, TransactionAddress,
};
use ant_protocol::{NetworkAddress, PrettyPrintRecordKey};
use futures::io::Cursor;
use libp2p::request_response::{self, Codec};
use libp2p::StreamProtocol;
use ant_registers::RegisterAddress;
use libp2p::identity::Keypair;
use libp2p::Multiaddr;
use ant_registers::{Permissions, Register, RegisterCrdt, RegisterOp, SignedRegister};
use bytes::Bytes;
use libp2p::kad::{Record, RecordKey};
use serde::de::DeserializeOwned;
use serde::Serialize;
use serde_json::{json, Value};
use std::collections::BTreeSet;
use std::io::{BufRead, Write};
use std::panic::{catch_unwind, AssertUnwindSafe};
use std::time::{Duration, UNIX_EPOCH};
use xor_name::XorName;

fn hexv(v: &Value) -> Vec<u8> {
    hex::decode(v.as_str().expect("hex string")).expect("hex")
}

fn arr32(v: &Value) -> [u8; 32] {
    let b = hexv(v);
    let mut a = [0u8; 32];
    a.copy_from_slice(&b);
    a
}

fn sk(seed: u64) -> bls::SecretKey {
    // deterministic BLS key: a 32-byte big-endian scalar below the group order (top byte 0)
    let mut b = [0u8; 32];
    b[24..].copy_from_slice(&(seed + 1).to_be_bytes());
    b[1] = 0x5a;
    bls::SecretKey::from_bytes(b).expect("scalar")
}

/// payload bytes: explicit hex, or a generated pattern {"gen": [len, seed]} (same rule in C12.py)
fn payload(v: &Value) -> Vec<u8> {
    if let Some(g) = v.get("gen") {
        let len = g[0].as_u64().unwrap() as usize;
        let seed = g[1].as_u64().unwrap();
        (0..len).map(|i| ((i as u64).wrapping_mul(seed | 1).wrapping_add(seed >> 3) % 251) as u8).collect()
    } else {
        hexv(v)
    }
}

fn record_of(bytes: Vec<u8>) -> Record {
    Record { key: RecordKey::new(&[0u8; 32]), value: bytes, publisher: None, expires: None }
}

fn kind_of(name: &str) -> RecordKind {
    match name {
        "Chunk" => RecordKind::Chunk,
        "ChunkWithPayment" => RecordKind::ChunkWithPayment,
        "Transaction" => RecordKind::Transaction,
        "TransactionWithPayment" => RecordKind::TransactionWithPayment,
        "Register" => RecordKind::Register,
        "RegisterWithPayment" => RecordKind::RegisterWithPayment,
        "Scratchpad" => RecordKind::Scratchpad,
        "ScratchpadWithPayment" => RecordKind::ScratchpadWithPayment,
        other => panic!("unknown kind {other}"),
    }
}

fn kind_name(k: RecordKind) -> &'static str {
    match k {
        RecordKind::Chunk => "Chunk",
        RecordKind::ChunkWithPayment => "ChunkWithPayment",
        RecordKind::Transaction => "Transaction",
        RecordKind::TransactionWithPayment => "TransactionWithPayment",
        RecordKind::Register => "Register",
        RecordKind::RegisterWithPayment => "RegisterWithPayment",
        RecordKind::Scratchpad => "Scratchpad",
        RecordKind::ScratchpadWithPayment => "ScratchpadWithPayment",
    }
}

// ---------------------------------------------------------------- value builders
fn metrics_of(v: &Value) -> QuotingMetrics {
    QuotingMetrics {
        close_records_stored: v["crs"].as_u64().unwrap() as usize,
        max_records: v["mr"].as_u64().unwrap() as usize,
        received_payment_count: v["rpc"].as_u64().unwrap() as usize,
        live_time: v["lt"].as_u64().unwrap(),
        network_density: if v["nd"].is_null() { None } else { Some(arr32(&v["nd"])) },
        network_size: v["ns"].as_u64(),
    }
}

fn proof_of(v: &Value) -> ProofOfPayment {
    let mut pq = vec![];
    for q in v.as_array().unwrap() {
        let quote = PaymentQuote {
            content: XorName(arr32(&q["content"])),
            timestamp: match q["ts"].get("before_epoch") {
                // a SystemTime serde refuses to serialise ("SystemTime must be later than UNIX_EPOCH")
                Some(b) => UNIX_EPOCH - Duration::from_secs(b.as_u64().unwrap()),
                None => UNIX_EPOCH + Duration::new(q["ts"]["s"].as_u64().unwrap(), q["ts"]["n"].as_u64().unwrap() as u32),
            },
            quoting_metrics: metrics_of(&q["m"]),
            rewards_address: RewardsAddress::from_slice(&hexv(&q["addr"])),
            pub_key: hexv(&q["pk"]),
            signature: hexv(&q["sig"]),
        };
        // EncodedPeerId's field is private: arbitrary bytes go in through its Deserialize impl
        let e = serde_json::from_value(json!(hexv(&q["e"]))).expect("EncodedPeerId");
        pq.push((e, quote));
    }
    ProofOfPayment { peer_quotes: pq }
}

fn chunk_of(v: &Value) -> Chunk {
    Chunk::new(Bytes::from(payload(&v["data"])))
}

fn scratchpad_of(v: &Value) -> Scratchpad {
    let owner = sk(v["owner"].as_u64().unwrap());
    let base = Scratchpad::new(owner.public_key(), v["enc"].as_u64().unwrap());
    let data = payload(&v["data"]);
    let counter = v["counter"].as_u64().unwrap();
    if v.get("native").is_some() {
        // only public, serde-free API: counter by repeated increment, data through update_and_sign
        // (the ciphertext is randomised by blsttc, so the bytes differ from run to run)
        let mut sp = base;
        for _ in 1..counter { sp.increment(); }
        if counter > 0 { sp.update_and_sign(Bytes::from(data), &owner); }
        assert_eq!(sp.count(), counter, "native scratchpad counter");
        return sp;
    }
    // the fields are private: set them through the type's own Deserialize impl
    let mut j = serde_json::to_value(&base).expect("scratchpad to json");
    j["encrypted_data"] = json!(data);
    j["counter"] = json!(counter);
    let signer = match v["sig"].as_str().unwrap() {
        "none" => None,
        "valid" => Some(owner.clone()),
        _ => Some(sk(v["owner"].as_u64().unwrap() + 1000)),
    };
    if let Some(s) = signer {
        let mut msg = counter.to_be_bytes().to_vec();
        msg.extend(XorName::from_content(&data).to_vec());
        j["signature"] = serde_json::to_value(s.sign(&msg)).unwrap();
    }
    let sp: Scratchpad = serde_json::from_value(j).expect("scratchpad from json");
    // the value read through the type's own Deserialize must carry what was put in
    if sp.count() != counter || sp.data_encoding() != v["enc"].as_u64().unwrap() || sp.encrypted_data().as_ref() != data.as_slice() {
        panic!("LOSSY: a scratchpad read through its Deserialize impl lost a field: counter {} -> {}, encoding {} -> {}, data {} -> {} bytes",
               counter, sp.count(), v["enc"], sp.data_encoding(), data.len(), sp.encrypted_data().len());
    }
    sp
}

fn transaction_of(v: &Value) -> Transaction {
    let owner = sk(v["owner"].as_u64().unwrap());
    let parents: Vec<_> = v["parents"].as_array().unwrap().iter().map(|p| sk(p.as_u64().unwrap()).public_key()).collect();
    let outputs: Vec<_> = v["outputs"].as_array().unwrap().iter()
        .map(|o| (sk(o[0].as_u64().unwrap()).public_key(), arr32(&o[1]))).collect();
    let signer = if v["sig"].as_str().unwrap() == "valid" { owner.clone() } else { sk(v["owner"].as_u64().unwrap() + 1000) };
    Transaction::new(owner.public_key(), parents, arr32(&v["content"]), outputs, &signer)
}

fn register_of(v: &Value) -> SignedRegister {
    let owner = sk(v["owner"].as_u64().unwrap());
    let perms = if v["anyone"].as_bool().unwrap() {
        Permissions::new_anyone_can_write()
    } else {
        Permissions::new_with(v["writers"].as_array().unwrap().iter().map(|w| sk(w.as_u64().unwrap()).public_key()))
    };
    let reg = Register::new(owner.public_key(), XorName(arr32(&v["meta"])), perms);
    let sig = owner.sign(reg.bytes().expect("register bytes"));
    let mut crdt = RegisterCrdt::new(*reg.address());
    let mut ops = BTreeSet::new();
    let mut prev = BTreeSet::new();
    for e in v["entries"].as_array().unwrap() {
        let writer = sk(e[0].as_u64().unwrap());
        let children = if e[2].as_bool().unwrap() { prev.clone() } else { BTreeSet::new() };
        let (hash, addr, op) = crdt.write(payload(&e[1]), &children).expect("write");
        prev = BTreeSet::new();
        prev.insert(hash);
        ops.insert(RegisterOp::new(addr, op, &writer));
    }
    SignedRegister::new(reg, sig, ops)
}

// ---------------------------------------------------------------- record round trip
fn roundtrip<T: Serialize + DeserializeOwned + PartialEq>(x: &T, kind: RecordKind, extra: Value) -> Value {
    let bytes = try_serialize_record(x, kind).expect("try_serialize_record").to_vec();
    let tree = rec::tree(x).map_err(|e| e.0);
    let record = record_of(bytes.clone());
    let header = RecordHeader::from_record(&record).ok().map(|h| kind_name(h.kind));
    let back: Result<T, _> = try_deserialize_record(&record);
    let (rt_ok, rt_eq, tree2) = match &back {
        Ok(y) => (true, y == x, rec::tree(y).ok()),
        Err(_) => (false, false, None),
    };
    let mut out = json!({
        "bytes": hex::encode(&bytes), "len": bytes.len(),
        "header_len": RecordHeader { kind }.try_serialize().map(|b| b.len()).unwrap_or(0),
        "header": header, "rt_ok": rt_ok, "rt_eq": rt_eq,
        "tree_same": match (&tree, &tree2) { (Ok(a), Some(b)) => a == b, _ => false },
    });
    match tree {
        Ok(t) => out["tree"] = t,
        Err(e) => out["tree_err"] = json!(e),
    }
    if let Value::Object(m) = extra {
        for (k, v) in m { out[k] = v; }
    }
    // large payloads: the bytes are not echoed (the driver rebuilds them), only their digest-free length
    if bytes.len() > 300_000 {
        out["bytes"] = Value::Null;
        out["tree"] = Value::Null;
        out["head"] = json!(hex::encode(&bytes[..16]));
        out["tail"] = json!(hex::encode(&bytes[bytes.len() - 8..]));
    }
    out
}

fn op_record(case: &Value) -> Value {
    let kind = kind_of(case["kind"].as_str().unwrap());
    let v = &case["v"];
    match kind {
        RecordKind::Chunk => {
            let c = chunk_of(v);
            let rec_ = record_of(try_serialize_record(&c, kind).unwrap().to_vec());
            let addr = try_deserialize_record::<Chunk>(&rec_).ok().map(|d| hex::encode(d.address().xorname().0));
            roundtrip(&c, kind, json!({"addr": addr}))
        }
        RecordKind::ChunkWithPayment => {
            let x = (proof_of(&case["proof"]), chunk_of(v));
            let rec_ = record_of(try_serialize_record(&x, kind).unwrap().to_vec());
            let addr = try_deserialize_record::<(ProofOfPayment, Chunk)>(&rec_).ok().map(|d| hex::encode(d.1.address().xorname().0));
            roundtrip(&x, kind, json!({"addr": addr}))
        }
        RecordKind::Scratchpad => roundtrip(&scratchpad_of(v), kind, json!({})),
        RecordKind::ScratchpadWithPayment => roundtrip(&(proof_of(&case["proof"]), scratchpad_of(v)), kind, json!({})),
        RecordKind::Transaction => {
            let txs: Vec<Transaction> = v.as_array().unwrap().iter().map(transaction_of).collect();
            roundtrip(&txs, kind, json!({}))
        }
        RecordKind::TransactionWithPayment => roundtrip(&(proof_of(&case["proof"]), transaction_of(v)), kind, json!({})),
        RecordKind::Register => roundtrip(&register_of(v), kind, json!({})),
        RecordKind::RegisterWithPayment => roundtrip(&(proof_of(&case["proof"]), register_of(v)), kind, json!({})),
    }
}

// ---------------------------------------------------------------- sequences of encodings on one thread
/// one try_serialize_record call: (bytes or the error text, serde tree of the value if it has one)
fn encode_step(step: &Value) -> (Result<Vec<u8>, String>, Option<Value>) {
    fn go<T: Serialize>(x: &T, kind: RecordKind) -> (Result<Vec<u8>, String>, Option<Value>) {
        (try_serialize_record(x, kind).map(|b| b.to_vec()).map_err(|e| format!("{e:?}")), rec::tree(x).ok())
    }
    let kind = kind_of(step["kind"].as_str().unwrap());
    let v = &step["v"];
    match kind {
        RecordKind::Chunk => go(&chunk_of(v), kind),
        RecordKind::ChunkWithPayment => go(&(proof_of(&step["proof"]), chunk_of(v)), kind),
        RecordKind::Scratchpad => go(&scratchpad_of(v), kind),
        RecordKind::ScratchpadWithPayment => go(&(proof_of(&step["proof"]), scratchpad_of(v)), kind),
        RecordKind::Transaction => go(&v.as_array().unwrap().iter().map(transaction_of).collect::<Vec<Transaction>>(), kind),
        RecordKind::TransactionWithPayment => go(&(proof_of(&step["proof"]), transaction_of(v)), kind),
        RecordKind::Register => go(&register_of(v), kind),
        RecordKind::RegisterWithPayment => go(&(proof_of(&step["proof"]), register_of(v)), kind),
    }
}

/// `encseq`: the steps are encoded one after the other on THIS thread (failing encodings included);
/// every step is also encoded on a fresh thread; encoding must be a function of the value alone
fn op_encseq(case: &Value) -> Value {
    let mut out = vec![];
    for step in case["steps"].as_array().unwrap() {
        let (here, tree) = encode_step(step);
        let st = step.clone();
        let fresh = std::thread::spawn(move || encode_step(&st).0).join().unwrap_or_else(|_| Err("panic".into()));
        let header = here.as_ref().ok().and_then(|b| RecordHeader::from_record(&record_of(b.clone())).ok()).map(|h| kind_name(h.kind));
        out.push(json!({
            "ok": here.is_ok(), "err": here.as_ref().err(),
            "bytes": here.as_ref().ok().map(hex::encode),
            "fresh_ok": fresh.is_ok(), "fresh_same": here.as_ref().ok() == fresh.as_ref().ok() && here.is_ok() == fresh.is_ok(),
            "fresh_bytes": if here.as_ref().ok() != fresh.as_ref().ok() { fresh.as_ref().ok().map(hex::encode) } else { None },
            "header": header, "tree": if here.is_ok() { tree } else { None },
        }));
    }
    json!({"steps": out})
}

// ---------------------------------------------------------------- decoding arbitrary bytes
fn typed<T: Serialize + DeserializeOwned>(record: &Record) -> Value {
    // reference reading of the clause "the tag occupies a fixed-size prefix": what T's decoder makes of
    // the bytes after the first RecordHeader::SIZE = 2, independently of try_deserialize_record
    let direct: Option<Value> = if record.value.len() > 2 {
        rmp_serde::from_slice::<T>(&record.value[2..]).ok().map(|y| rec::tree(&y).unwrap_or(Value::Null))
    } else {
        None
    };
    match try_deserialize_record::<T>(record) {
        Ok(y) => match rec::tree(&y) {
            Ok(t) => {
                let same = direct.as_ref() == Some(&t);
                json!({"ok": true, "tree": t, "direct_ok": direct.is_some(), "direct_same": same})
            }
            Err(e) => json!({"ok": true, "tree_err": e.0, "direct_ok": direct.is_some(), "direct_same": direct.is_some()}),
        },
        Err(_) => json!({"ok": false, "direct_ok": direct.is_some(), "direct_same": direct.is_none()}),
    }
}

fn op_decode(case: &Value) -> Value {
    let bytes = hexv(&case["bytes"]);
    let mut record = record_of(bytes);
    if let Some(k) = case.get("key") {
        // record keys are arbitrary byte strings chosen by the remote peer
        record.key = RecordKey::new(&hexv(k));
    }
    let header = RecordHeader::from_record(&record).ok().map(|h| h.kind);
    let is_chunk = RecordHeader::is_record_of_type_chunk(&record).ok();
    // RecordHeader::try_deserialize on exactly the first SIZE bytes (null when the value is shorter)
    let td2 = if record.value.len() >= RecordHeader::SIZE {
        json!({"kind": RecordHeader::try_deserialize(&record.value[..RecordHeader::SIZE]).ok().map(|h| kind_name(h.kind))})
    } else {
        Value::Null
    };
    // the typed layer: as the kind the header announces, or as the kind the case asks for
    let as_kind = case.get("as").and_then(|k| k.as_str()).map(kind_of).or(header);
    let value = match as_kind {
        None => Value::Null,
        Some(RecordKind::Chunk) => {
            let mut t = typed::<Chunk>(&record);
            if let Ok(c) = try_deserialize_record::<Chunk>(&record) {
                t["addr"] = json!(hex::encode(c.address().xorname().0));
                t["value"] = json!(hex::encode(c.value()));
            }
            t
        }
        Some(RecordKind::ChunkWithPayment) => {
            let mut t = typed::<(ProofOfPayment, Chunk)>(&record);
            if let Ok(c) = try_deserialize_record::<(ProofOfPayment, Chunk)>(&record) {
                t["addr"] = json!(hex::encode(c.1.address().xorname().0));
                t["value"] = json!(hex::encode(c.1.value()));
            }
            t
        }
        Some(RecordKind::Scratchpad) => typed::<Scratchpad>(&record),
        Some(RecordKind::ScratchpadWithPayment) => typed::<(ProofOfPayment, Scratchpad)>(&record),
        Some(RecordKind::Transaction) => typed::<Vec<Transaction>>(&record),
        Some(RecordKind::TransactionWithPayment) => typed::<(ProofOfPayment, Transaction)>(&record),
        Some(RecordKind::Register) => typed::<SignedRegister>(&record),
        Some(RecordKind::RegisterWithPayment) => typed::<(ProofOfPayment, SignedRegister)>(&record),
    };
    json!({"header": header.map(kind_name), "is_chunk": is_chunk, "td2": td2, "as": as_kind.map(kind_name), "value": value})
}

/// every 0..3-byte value and every 3-byte prefix through RecordHeader::from_record
fn op_sweep() -> Value {
    let mut accepted = vec![];
    let mut short_ok = 0u32;
    // is_record_of_type_chunk against from_record: (value, from_record, is_chunk) where they disagree
    let mut chunk_mismatch: Vec<Value> = vec![];
    let mut check_chunk = |b: &Vec<u8>| {
        let r = record_of(b.clone());
        let want = RecordHeader::from_record(&r).ok().map(|h| h.kind == RecordKind::Chunk);
        let got = RecordHeader::is_record_of_type_chunk(&r).ok();
        if want != got && chunk_mismatch.len() < 20 {
            chunk_mismatch.push(json!({"value": hex::encode(b), "from_record_says": want, "is_chunk_says": got}));
        }
    };
    for len in 0..3usize {
        let n = 1u32 << (8 * len);
        for x in 0..n {
            let b: Vec<u8> = (0..len).map(|i| (x >> (8 * (len - 1 - i))) as u8).collect();
            check_chunk(&b);
            if RecordHeader::from_record(&record_of(b)).is_ok() { short_ok += 1; }
        }
    }
    for x in 0..(1u32 << 24) {
        let b = vec![(x >> 16) as u8, (x >> 8) as u8, x as u8];
        check_chunk(&b);
        if let Ok(h) = RecordHeader::from_record(&record_of(b)) {
            accepted.push(json!([x, kind_name(h.kind)]));
        }
    }
    // a fourth byte never matters (the code slices to SIZE + 1)
    let mut longer_differs = 0u32;
    for x in (0..(1u32 << 24)).step_by(4099) {
        let b3 = vec![(x >> 16) as u8, (x >> 8) as u8, x as u8];
        let mut b5 = b3.clone();
        b5.extend_from_slice(&[0xff, 0x00]);
        let a = RecordHeader::from_record(&record_of(b3)).ok().map(|h| kind_name(h.kind));
        let b = RecordHeader::from_record(&record_of(b5)).ok().map(|h| kind_name(h.kind));
        if a != b { longer_differs += 1; }
    }
    drop(check_chunk);
    json!({"accepted": accepted, "short_ok": short_ok, "longer_differs": longer_differs, "chunk_mismatch": chunk_mismatch})
}

/// the header of every kind, as bytes, and what try_deserialize makes of exactly those bytes
fn op_headers() -> Value {
    let mut out = vec![];
    for name in ["Chunk", "ChunkWithPayment", "Transaction", "TransactionWithPayment", "Register",
                 "RegisterWithPayment", "Scratchpad", "ScratchpadWithPayment"] {
        let b = RecordHeader { kind: kind_of(name) }.try_serialize().expect("header").to_vec();
        let back = RecordHeader::try_deserialize(&b).ok().map(|h| kind_name(h.kind));
        out.push(json!({"kind": name, "bytes": hex::encode(&b), "back": back, "size_const": RecordHeader::SIZE}));
    }
    json!({"headers": out})
}

// ---------------------------------------------------------------- request / response messages
fn peer(i: u64) -> libp2p::PeerId {
    let mut seed = [0u8; 32];
    seed[..8].copy_from_slice(&(i + 1).to_le_bytes());
    seed[31] = 0x5a;
    Keypair::ed25519_from_bytes(seed).expect("seed").public().to_peer_id()
}

fn addr_of(v: &Value) -> NetworkAddress {
    match v["t"].as_str().unwrap() {
        "peer" => NetworkAddress::from_peer(peer(v["i"].as_u64().unwrap())),
        "chunk" => NetworkAddress::from_chunk_address(ChunkAddress::new(XorName(arr32(&v["x"])))),
        "tx" => NetworkAddress::from_transaction_address(TransactionAddress::new(XorName(arr32(&v["x"])))),
        "reg" => NetworkAddress::from_register_address(RegisterAddress::new(XorName(arr32(&v["x"])), sk(v["i"].as_u64().unwrap()).public_key())),
        "pad" => NetworkAddress::from_scratchpad_address(ScratchpadAddress::new(sk(v["i"].as_u64().unwrap()).public_key())),
        "key" => NetworkAddress::from_record_key(&RecordKey::new(&hexv(&v["x"]))),
        other => panic!("address kind {other}"),
    }
}

fn record_type_of(v: &Value) -> RecordType {
    match v["t"].as_str().unwrap() {
        "chunk" => RecordType::Chunk,
        "pad" => RecordType::Scratchpad,
        _ => RecordType::NonChunk(XorName(arr32(&v["x"]))),
    }
}

fn error_of(v: &Value) -> ProtocolError {
    match v["e"].as_str().unwrap() {
        "UserDataDirectoryNotObtainable" => ProtocolError::UserDataDirectoryNotObtainable,
        "CouldNotObtainPortFromMultiAddr" => ProtocolError::CouldNotObtainPortFromMultiAddr,
        "ParseRetryStrategyError" => ProtocolError::ParseRetryStrategyError,
        "CouldNotObtainDataDir" => ProtocolError::CouldNotObtainDataDir,
        "ChunkDoesNotExist" => ProtocolError::ChunkDoesNotExist(addr_of(&v["a"])),
        "RegisterNotFound" => ProtocolError::RegisterNotFound(Box::new(RegisterAddress::new(XorName(arr32(&v["x"])), sk(v["i"].as_u64().unwrap()).public_key()))),
        "RegisterAlreadyClaimed" => ProtocolError::RegisterAlreadyClaimed(sk(v["i"].as_u64().unwrap()).public_key()),
        "RegisterRecordNotFound" => ProtocolError::RegisterRecordNotFound { holder: Box::new(addr_of(&v["a"])), key: Box::new(addr_of(&v["b"])) },
        "ScratchpadHexDeserializeFailed" => ProtocolError::ScratchpadHexDeserializeFailed,
        "ScratchpadCipherTextFailed" => ProtocolError::ScratchpadCipherTextFailed,
        "ScratchpadCipherTextInvalid" => ProtocolError::ScratchpadCipherTextInvalid,
        "GetStoreQuoteFailed" => ProtocolError::GetStoreQuoteFailed,
        "QuoteGenerationFailed" => ProtocolError::QuoteGenerationFailed,
        "ReplicatedRecordNotFound" => ProtocolError::ReplicatedRecordNotFound { holder: Box::new(addr_of(&v["a"])), key: Box::new(addr_of(&v["b"])) },
        "RecordHeaderParsingFailed" => ProtocolError::RecordHeaderParsingFailed,
        "RecordParsingFailed" => ProtocolError::RecordParsingFailed,
        "RecordExists" => ProtocolError::RecordExists(PrettyPrintRecordKey::from(&RecordKey::new(&hexv(&v["k"]))).into_owned()),
        other => panic!("error variant {other}"),
    }
}

fn res_of<T>(v: &Value, ok: impl FnOnce(&Value) -> T) -> Result<T, ProtocolError> {
    if v.get("e").is_some() { Err(error_of(v)) } else { Ok(ok(v)) }
}

fn proofs_of(v: &Value) -> Vec<(NetworkAddress, Result<ChunkProof, ProtocolError>)> {
    v.as_array().unwrap().iter()
        .map(|p| (addr_of(&p[0]), res_of(&p[1], |x| ChunkProof::new(&payload(&x["data"]), x["nonce"].as_u64().unwrap()))))
        .collect()
}

fn request_of(v: &Value) -> Request {
    match v["m"].as_str().unwrap() {
        "Replicate" => Request::Cmd(Cmd::Replicate {
            holder: addr_of(&v["holder"]),
            keys: v["keys"].as_array().unwrap().iter().map(|k| (addr_of(&k[0]), record_type_of(&k[1]))).collect(),
        }),
        "PeerConsideredAsBad" => Request::Cmd(Cmd::PeerConsideredAsBad {
            detected_by: addr_of(&v["a"]), bad_peer: addr_of(&v["b"]),
            bad_behaviour: String::from_utf8(hexv(&v["text"])).expect("utf8"),
        }),
        "GetStoreQuote" => Request::Query(Query::GetStoreQuote { key: addr_of(&v["a"]), nonce: v["nonce"].as_u64(), difficulty: v["n"].as_u64().unwrap() as usize }),
        "GetReplicatedRecord" => Request::Query(Query::GetReplicatedRecord { requester: addr_of(&v["a"]), key: addr_of(&v["b"]) }),
        "GetRegisterRecord" => Request::Query(Query::GetRegisterRecord { requester: addr_of(&v["a"]), key: addr_of(&v["b"]) }),
        "GetChunkExistenceProof" => Request::Query(Query::GetChunkExistenceProof { key: addr_of(&v["a"]), nonce: v["nonce"].as_u64().unwrap(), difficulty: v["n"].as_u64().unwrap() as usize }),
        "CheckNodeInProblem" => Request::Query(Query::CheckNodeInProblem(addr_of(&v["a"]))),
        "GetClosestPeers" => Request::Query(Query::GetClosestPeers {
            key: addr_of(&v["a"]), num_of_peers: v["n"].as_u64().map(|n| n as usize),
            range: if v["range"].is_null() { None } else { Some(arr32(&v["range"])) }, sign_result: v["sign"].as_bool().unwrap(),
        }),
        other => panic!("request {other}"),
    }
}

fn response_of(v: &Value) -> Response {
    match v["m"].as_str().unwrap() {
        "Replicate" => Response::Cmd(CmdResponse::Replicate(res_of(&v["r"], |_| ()))),
        "PeerConsideredAsBad" => Response::Cmd(CmdResponse::PeerConsideredAsBad(res_of(&v["r"], |_| ()))),
        "GetStoreQuote" => Response::Query(QueryResponse::GetStoreQuote {
            quote: res_of(&v["r"], |x| proof_of(&json!([x["q"]])).peer_quotes.remove(0).1),
            peer_address: addr_of(&v["a"]), storage_proofs: proofs_of(&v["proofs"]),
        }),
        "CheckNodeInProblem" => Response::Query(QueryResponse::CheckNodeInProblem {
            reporter_address: addr_of(&v["a"]), target_address: addr_of(&v["b"]), is_in_trouble: v["flag"].as_bool().unwrap(),
        }),
        "GetReplicatedRecord" => Response::Query(QueryResponse::GetReplicatedRecord(res_of(&v["r"], |x| (addr_of(&x["a"]), Bytes::from(payload(&x["data"])))))),
        "GetRegisterRecord" => Response::Query(QueryResponse::GetRegisterRecord(res_of(&v["r"], |x| (addr_of(&x["a"]), Bytes::from(payload(&x["data"])))))),
        "GetChunkExistenceProof" => Response::Query(QueryResponse::GetChunkExistenceProof(proofs_of(&v["proofs"]))),
        "GetClosestPeers" => Response::Query(QueryResponse::GetClosestPeers {
            target: addr_of(&v["a"]),
            peers: v["peers"].as_array().unwrap().iter().map(|p| (addr_of(&p[0]),
                p[1].as_array().unwrap().iter().map(|m| m.as_str().unwrap().parse::<Multiaddr>().expect("multiaddr")).collect())).collect(),
            signature: if v["sig"].is_null() { None } else { Some(hexv(&v["sig"])) },
        }),
        other => panic!("response {other}"),
    }
}

// `request_response::cbor::codec::Codec` lives in a private module: the type is recovered through the
// public `cbor::Behaviour` alias, so the harness drives the very codec the network driver installs
// (ant-networking/src/driver.rs: request_response::cbor::Behaviour<Request, Response>)
trait CodecOf {
    type C;
}
impl<C: Codec + Clone + Send + 'static> CodecOf for request_response::Behaviour<C> {
    type C = C;
}
type WireCodec = <request_response::cbor::Behaviour<Request, Response> as CodecOf>::C;

enum Msg {
    Req(Request),
    Resp(Response),
}

/// (bytes the codec wrote, what the codec read back from them)
fn over_the_wire(m: &Msg) -> (std::io::Result<Vec<u8>>, Option<std::io::Result<Msg>>) {
    futures::executor::block_on(async {
        let protocol = StreamProtocol::new("/verif/c12");
        let mut codec = WireCodec::default();
        let mut out = Cursor::new(Vec::new());
        let w = match m {
            Msg::Req(x) => codec.write_request(&protocol, &mut out, x.clone()).await,
            Msg::Resp(x) => codec.write_response(&protocol, &mut out, x.clone()).await,
        };
        if let Err(e) = w {
            return (Err(e), None);
        }
        let bytes = out.into_inner();
        let mut input = Cursor::new(bytes.clone());
        let back = match m {
            Msg::Req(_) => codec.read_request(&protocol, &mut input).await.map(Msg::Req),
            Msg::Resp(_) => codec.read_response(&protocol, &mut input).await.map(Msg::Resp),
        };
        (Ok(bytes), Some(back))
    })
}

/// arbitrary bytes through the real codec's readers
fn wire_read(bytes: &[u8]) -> (std::io::Result<Request>, std::io::Result<Response>) {
    futures::executor::block_on(async {
        let protocol = StreamProtocol::new("/verif/c12");
        let mut codec = WireCodec::default();
        let a = codec.read_request(&protocol, &mut Cursor::new(bytes.to_vec())).await;
        let b = codec.read_response(&protocol, &mut Cursor::new(bytes.to_vec())).await;
        (a, b)
    })
}

fn cbor_roundtrip<T: Serialize + DeserializeOwned + PartialEq>(x: &T, m: Msg) -> Value {
    // the real libp2p codec
    let (written, back) = over_the_wire(&m);
    let (wire_ok, wire_rt, wire_err) = match &back {
        Some(Ok(Msg::Req(y))) => (true, matches!(&m, Msg::Req(z) if z == y), None),
        Some(Ok(Msg::Resp(y))) => (true, matches!(&m, Msg::Resp(z) if z == y), None),
        Some(Err(e)) => (false, false, Some(format!("{e:?}"))),
        None => (false, false, written.as_ref().err().map(|e| format!("write: {e:?}"))),
    };
    let data = written.unwrap_or_default();
    // the two cbor4ii functions the codec is made of must agree with it
    let direct = cbor4ii::serde::to_vec(Vec::new(), x).ok();
    let direct_back: Option<T> = direct.as_ref().and_then(|d| cbor4ii::serde::from_slice(d).ok());
    let rmp = rmp_serde::to_vec(x).expect("rmp encode");
    let rmp_back: Result<T, _> = rmp_serde::from_slice(&rmp);
    let mut out = json!({
        "cbor_len": data.len(),
        "cbor_ok": wire_ok, "cbor_rt": wire_rt, "wire_err": wire_err,
        "direct_same": direct.as_deref() == Some(data.as_slice()),
        "direct_rt": matches!(&direct_back, Some(y) if y == x),
        "rmp": hex::encode(&rmp), "rmp_rt": matches!(&rmp_back, Ok(y) if y == x),
        "cbor": if data.len() <= 200_000 { json!(hex::encode(&data)) } else { Value::Null },
    });
    match rec::tree(x) {
        Ok(t) => out["tree"] = t,
        Err(e) => out["tree_err"] = json!(e.0),
    }
    match rec::tree_named(x) {
        Ok(t) => out["ntree"] = t,
        Err(e) => out["tree_err"] = json!(e.0),
    }
    out
}

fn op_msg(case: &Value) -> Value {
    if case["ty"].as_str().unwrap() == "request" {
        let x = request_of(&case["v"]);
        cbor_roundtrip(&x, Msg::Req(x.clone()))
    } else {
        let x = response_of(&case["v"]);
        cbor_roundtrip(&x, Msg::Resp(x.clone()))
    }
}

/// arbitrary bytes through the CBOR decoders of both message types
fn op_msg_decode(case: &Value) -> Value {
    let b = hexv(&case["bytes"]);
    let (rq, rs) = wire_read(&b);
    // what decodes must encode back to something that decodes to the same value
    let rq_stable = rq.as_ref().ok().map(|x| {
        let again = cbor4ii::serde::to_vec(Vec::new(), x).expect("encode");
        matches!(cbor4ii::serde::from_slice::<Request>(&again), Ok(y) if y == *x)
    });
    let rs_stable = rs.as_ref().ok().map(|x| {
        let again = cbor4ii::serde::to_vec(Vec::new(), x).expect("encode");
        matches!(cbor4ii::serde::from_slice::<Response>(&again), Ok(y) if y == *x)
    });
    json!({"request_ok": rq.is_ok(), "response_ok": rs.is_ok(), "request_stable": rq_stable, "response_stable": rs_stable})
}

fn run(case: &Value) -> Value {
    match case["op"].as_str().unwrap() {
        "encseq" => op_encseq(case),
        "msg" => op_msg(case),
        "msg_decode" => op_msg_decode(case),
        "record" => op_record(case),
        "decode" => op_decode(case),
        "sweep" => op_sweep(),
        "headers" => op_headers(),
        other => json!({"error": format!("unknown op {other}")}),
    }
}

fn main() {
    std::panic::set_hook(Box::new(|_| {}));
    // all decoder / handler runs happen under an active TRACE-level subscriber (see trace.rs)
    trace::install();
    let stdin = std::io::stdin();
    let out = std::io::stdout();
    let mut out = out.lock();
    for line in stdin.lock().lines() {
        let line = line.unwrap();
        if line.trim().is_empty() {
            continue;
        }
        let case: Value = serde_json::from_str(&line).unwrap();
        let res = catch_unwind(AssertUnwindSafe(|| run(&case))).unwrap_or_else(|p| {
            let msg = p.downcast_ref::<String>().cloned()
                .or_else(|| p.downcast_ref::<&str>().map(|s| s.to_string()))
                .unwrap_or_default();
            json!({"panic": msg})
        });
        writeln!(out, "{res}").unwrap();
    }
}
