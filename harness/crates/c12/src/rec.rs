//! Tree-recording `serde::Serializer`: records the calls a value's `Serialize` impl makes, as a
//! JSON tree, normalised as described at the top of /verif/coq/lib/Serde.v.
use serde::ser::{self, Serialize};
use serde_json::{json, Value};
use std::fmt;

#[derive(Debug)]
pub struct RecErr(pub String);
impl fmt::Display for RecErr {
    fn fmt(&self, f: &mut fmt::Formatter<'_>) -> fmt::Result {
        write!(f, "{}", self.0)
    }
}
impl std::error::Error for RecErr {}
impl ser::Error for RecErr {
    fn custom<T: fmt::Display>(msg: T) -> Self {
        RecErr(msg.to_string())
    }
}

pub fn tree<T: Serialize + ?Sized>(x: &T) -> Result<Value, RecErr> {
    x.serialize(Rec(false))
}

/// the same call tree with field names kept: a struct (or struct variant payload) becomes a map from
/// its field names (as str) to the field values -- what formats that write structs as maps see
pub fn tree_named<T: Serialize + ?Sized>(x: &T) -> Result<Value, RecErr> {
    x.serialize(Rec(true))
}

#[derive(Clone, Copy)]
pub struct Rec(pub bool);

pub struct Items {
    named: bool,
    kind: &'static str,
    variant: Option<&'static str>,
    items: Vec<Value>,
}

impl Items {
    fn finish(self) -> Value {
        let body = json!({ self.kind: self.items });
        match self.variant {
            Some(name) => json!({"v": [hex::encode(name.as_bytes()), body]}),
            None => body,
        }
    }
}

impl ser::Serializer for Rec {
    type Ok = Value;
    type Error = RecErr;
    type SerializeSeq = Items;
    type SerializeTuple = Items;
    type SerializeTupleStruct = Items;
    type SerializeTupleVariant = Items;
    type SerializeMap = Items;
    type SerializeStruct = Items;
    type SerializeStructVariant = Items;

    fn is_human_readable(&self) -> bool {
        false // rmp-serde's default configuration and cbor4ii are both binary formats
    }
    fn serialize_bool(self, v: bool) -> Result<Value, RecErr> { Ok(json!({"b": v})) }
    fn serialize_i8(self, v: i8) -> Result<Value, RecErr> { Ok(json!({"i": [8, v]})) }
    fn serialize_i16(self, v: i16) -> Result<Value, RecErr> { Ok(json!({"i": [16, v]})) }
    fn serialize_i32(self, v: i32) -> Result<Value, RecErr> { Ok(json!({"i": [32, v]})) }
    fn serialize_i64(self, v: i64) -> Result<Value, RecErr> { Ok(json!({"i": [64, v]})) }
    fn serialize_u8(self, v: u8) -> Result<Value, RecErr> { Ok(json!({"u": [8, v]})) }
    fn serialize_u16(self, v: u16) -> Result<Value, RecErr> { Ok(json!({"u": [16, v]})) }
    fn serialize_u32(self, v: u32) -> Result<Value, RecErr> { Ok(json!({"u": [32, v]})) }
    fn serialize_u64(self, v: u64) -> Result<Value, RecErr> { Ok(json!({"u": [64, v]})) }
    fn serialize_i128(self, _v: i128) -> Result<Value, RecErr> { Err(RecErr("i128 not in the model".into())) }
    fn serialize_u128(self, _v: u128) -> Result<Value, RecErr> { Err(RecErr("u128 not in the model".into())) }
    fn serialize_f32(self, v: f32) -> Result<Value, RecErr> { Ok(json!({"f32": v.to_bits()})) }
    fn serialize_f64(self, v: f64) -> Result<Value, RecErr> { Ok(json!({"f64": v.to_bits()})) }
    fn serialize_char(self, v: char) -> Result<Value, RecErr> {
        let mut buf = [0u8; 4];
        Ok(json!({"s": hex::encode(v.encode_utf8(&mut buf).as_bytes())}))
    }
    fn serialize_str(self, v: &str) -> Result<Value, RecErr> { Ok(json!({"s": hex::encode(v.as_bytes())})) }
    fn serialize_bytes(self, v: &[u8]) -> Result<Value, RecErr> { Ok(json!({"y": hex::encode(v)})) }
    fn serialize_none(self) -> Result<Value, RecErr> { Ok(json!({"n": 0})) }
    fn serialize_some<T: ?Sized + Serialize>(self, v: &T) -> Result<Value, RecErr> {
        Ok(json!({"some": v.serialize(Rec(self.0))?}))
    }
    fn serialize_unit(self) -> Result<Value, RecErr> { Ok(json!({"unit": 0})) }
    fn serialize_unit_struct(self, _name: &'static str) -> Result<Value, RecErr> { Ok(json!({"tup": []})) }
    fn serialize_unit_variant(self, _n: &'static str, _i: u32, variant: &'static str) -> Result<Value, RecErr> {
        Ok(json!({"uv": hex::encode(variant.as_bytes())}))
    }
    fn serialize_newtype_struct<T: ?Sized + Serialize>(self, _n: &'static str, v: &T) -> Result<Value, RecErr> {
        v.serialize(Rec(self.0))
    }
    fn serialize_newtype_variant<T: ?Sized + Serialize>(
        self, _n: &'static str, _i: u32, variant: &'static str, v: &T,
    ) -> Result<Value, RecErr> {
        Ok(json!({"v": [hex::encode(variant.as_bytes()), v.serialize(Rec(self.0))?]}))
    }
    fn serialize_seq(self, _len: Option<usize>) -> Result<Items, RecErr> {
        Ok(Items { named: self.0, kind: "seq", variant: None, items: vec![] })
    }
    fn serialize_tuple(self, _len: usize) -> Result<Items, RecErr> {
        Ok(Items { named: self.0, kind: "tup", variant: None, items: vec![] })
    }
    fn serialize_tuple_struct(self, _n: &'static str, _len: usize) -> Result<Items, RecErr> {
        Ok(Items { named: self.0, kind: "tup", variant: None, items: vec![] })
    }
    fn serialize_tuple_variant(self, _n: &'static str, _i: u32, variant: &'static str, _len: usize) -> Result<Items, RecErr> {
        Ok(Items { named: self.0, kind: "tup", variant: Some(variant), items: vec![] })
    }
    fn serialize_map(self, _len: Option<usize>) -> Result<Items, RecErr> {
        Ok(Items { named: self.0, kind: "map", variant: None, items: vec![] })
    }
    fn serialize_struct(self, _n: &'static str, _len: usize) -> Result<Items, RecErr> {
        Ok(Items { named: self.0, kind: if self.0 { "map" } else { "tup" }, variant: None, items: vec![] })
    }
    fn serialize_struct_variant(self, _n: &'static str, _i: u32, variant: &'static str, _len: usize) -> Result<Items, RecErr> {
        Ok(Items { named: self.0, kind: if self.0 { "map" } else { "tup" }, variant: Some(variant), items: vec![] })
    }
}

impl ser::SerializeSeq for Items {
    type Ok = Value;
    type Error = RecErr;
    fn serialize_element<T: ?Sized + Serialize>(&mut self, v: &T) -> Result<(), RecErr> {
        self.items.push(v.serialize(Rec(self.named))?);
        Ok(())
    }
    fn end(self) -> Result<Value, RecErr> { Ok(self.finish()) }
}
impl ser::SerializeTuple for Items {
    type Ok = Value;
    type Error = RecErr;
    fn serialize_element<T: ?Sized + Serialize>(&mut self, v: &T) -> Result<(), RecErr> {
        self.items.push(v.serialize(Rec(self.named))?);
        Ok(())
    }
    fn end(self) -> Result<Value, RecErr> { Ok(self.finish()) }
}
impl ser::SerializeTupleStruct for Items {
    type Ok = Value;
    type Error = RecErr;
    fn serialize_field<T: ?Sized + Serialize>(&mut self, v: &T) -> Result<(), RecErr> {
        self.items.push(v.serialize(Rec(self.named))?);
        Ok(())
    }
    fn end(self) -> Result<Value, RecErr> { Ok(self.finish()) }
}
impl ser::SerializeTupleVariant for Items {
    type Ok = Value;
    type Error = RecErr;
    fn serialize_field<T: ?Sized + Serialize>(&mut self, v: &T) -> Result<(), RecErr> {
        self.items.push(v.serialize(Rec(self.named))?);
        Ok(())
    }
    fn end(self) -> Result<Value, RecErr> { Ok(self.finish()) }
}
impl ser::SerializeMap for Items {
    type Ok = Value;
    type Error = RecErr;
    fn serialize_key<T: ?Sized + Serialize>(&mut self, k: &T) -> Result<(), RecErr> {
        self.items.push(k.serialize(Rec(self.named))?);
        Ok(())
    }
    fn serialize_value<T: ?Sized + Serialize>(&mut self, v: &T) -> Result<(), RecErr> {
        self.items.push(v.serialize(Rec(self.named))?);
        Ok(())
    }
    fn end(self) -> Result<Value, RecErr> { Ok(self.finish()) }
}
impl ser::SerializeStruct for Items {
    type Ok = Value;
    type Error = RecErr;
    fn serialize_field<T: ?Sized + Serialize>(&mut self, k: &'static str, v: &T) -> Result<(), RecErr> {
        if self.named {
            self.items.push(json!({"s": hex::encode(k.as_bytes())}));
        }
        self.items.push(v.serialize(Rec(self.named))?);
        Ok(())
    }
    fn end(self) -> Result<Value, RecErr> { Ok(self.finish()) }
}
impl ser::SerializeStructVariant for Items {
    type Ok = Value;
    type Error = RecErr;
    fn serialize_field<T: ?Sized + Serialize>(&mut self, k: &'static str, v: &T) -> Result<(), RecErr> {
        if self.named {
            self.items.push(json!({"s": hex::encode(k.as_bytes())}));
        }
        self.items.push(v.serialize(Rec(self.named))?);
        Ok(())
    }
    fn end(self) -> Result<Value, RecErr> { Ok(self.finish()) }
}
