//! The harness as swarm driver. Deliveries are futures of the real node code; the harness polls ONE
//! delivery at a time, so every command that appears on the channel belongs to that delivery.
//! A schedule is a list of tokens: `i` = "the driver processes what delivery i has sent so far (its
//! queued PutLocalRecords, in order, then its pending store query, answered from the store as it is
//! now), then delivery i runs up to its next store query or to completion; the PutLocalRecords it
//! emits meanwhile stay queued until the next token i" (per-sender FIFO, as on the real command
//! channel); "ack" = the store's pending disk-write acknowledgements are delivered (keys become
//! listed).
use crate::build::{self, Registry};
use crate::stub::{ChainCfg, Stub};
use ant_evm::EvmNetwork;
use ant_networking::verif_hooks::{LocalSwarmCmd, NetworkSwarmCmd};
use ant_networking::Network;
use ant_node::verif_hooks::{Error, VerifNode};
use ant_node::{NodeEvent, NodeEventsChannel};
use ant_protocol::storage::RecordHeader;
use libp2p::kad::Record;
use serde_json::{json, Value};
use std::collections::BTreeMap;
use std::future::Future;
use std::pin::Pin;
use std::time::{Duration, SystemTime};
use tokio::sync::mpsc;

type Fut = Pin<Box<dyn Future<Output = Result<(), Error>>>>;

struct Slot {
    value: Vec<u8>,
    listed: bool,
}

/// the REAL record store of ant-networking, driven the way `SwarmDriver::handle_local_cmd` drives it
/// (PutLocalRecord -> put_verified with the record type the driver derives; AddLocalRecordAsStored ->
/// mark_as_stored when the harness relays the acknowledgement; RecordStoreHasKey -> contains;
/// GetLocalRecord -> get)
struct Real {
    store: ant_networking::verif_hooks::UnifiedRecordStore,
    ack_rx: mpsc::Receiver<LocalSwarmCmd>,
    _ev_rx: mpsc::Receiver<ant_networking::NetworkEvent>,
    dir: std::path::PathBuf,
    keys: std::collections::BTreeSet<Vec<u8>>,
}

struct World {
    reg: Registry,
    store: BTreeMap<Vec<u8>, Slot>,
    closest: Vec<libp2p::PeerId>,
    real: Option<Real>,
}

pub fn err_code(e: &Error) -> String {
    let d = format!("{e:?}");
    let pick = |names: &[&str]| names.iter().find(|n| d.contains(*n)).map(|n| n.to_string());
    match e {
        Error::RecordKeyMismatch => "RecordKeyMismatch".into(),
        Error::InvalidPutWithoutPayment(_) => "InvalidPutWithoutPayment".into(),
        Error::UnexpectedRecordWithPayment(_) => "UnexpectedRecordWithPayment".into(),
        Error::IgnoringOutdatedScratchpadPut => "IgnoringOutdatedScratchpadPut".into(),
        Error::InvalidScratchpadSignature => "InvalidScratchpadSignature".into(),
        Error::EvmNetwork(_) => "EvmNetwork".into(),
        Error::InvalidRequest(m) => {
            if m.contains("Payment is not valid") {
                "PaymentNotValidForUs".into()
            } else if m.contains("has expired") {
                "PaymentExpired".into()
            } else if m.contains("out-of-range payees") {
                "PaymentPayeesOutOfRange".into()
            } else if m.contains("not issued for") || m.contains("different content") {
                "PaymentQuoteForOtherContent".into()
            } else if m.contains("No transactions to verify") {
                "NoTransactionsForKey".into()
            } else if m.contains("claimed to be existing") {
                "RegisterListedButMissing".into()
            } else {
                format!("InvalidRequest:{m}")
            }
        }
        Error::Protocol(_) => pick(&["RecordHeaderParsingFailed", "RecordParsingFailed"])
            .map(|s| format!("Protocol:{s}"))
            .unwrap_or(format!("Protocol:{d}")),
        Error::Register(_) => pick(&[
            "TooManyEntries", "InvalidSignature", "AccessDenied", "EntryTooBig", "DifferentBaseRegister",
            "InvalidRegisterAddress", "SerialisationFailed", "RegisterAddrMismatch",
        ])
        .map(|s| format!("Register:{s}"))
        .unwrap_or(format!("Register:{d}")),
        Error::Network(_) => pick(&["RecordKindMismatch", "InternalMsgChannelDropped"])
            .map(|s| format!("Network:{s}"))
            .unwrap_or(format!("Network:{d}")),
        _ => format!("Other:{d}"),
    }
}

fn chain_cfg(v: &Value) -> ChainCfg {
    let mut c = ChainCfg { mode: "ok".into(), valid: [true; 3], amounts: [5, 7, 11], echo: true, pending_valid: None };
    if v.is_object() {
        if let Some(m) = v.get("mode").and_then(|m| m.as_str()) {
            c.mode = m.to_string();
        }
        if let Some(a) = v.get("valid").and_then(|a| a.as_array()) {
            for i in 0..3 {
                c.valid[i] = a.get(i).and_then(|b| b.as_bool()).unwrap_or(true);
            }
        }
        if let Some(a) = v.get("amounts").and_then(|a| a.as_array()) {
            for i in 0..3 {
                c.amounts[i] = a.get(i).and_then(|b| b.as_u64()).unwrap_or(0);
            }
        }
        if let Some(a) = v.get("pending_valid").and_then(|a| a.as_array()) {
            let mut pv = [true; 3];
            for i in 0..3 {
                pv[i] = a.get(i).and_then(|b| b.as_bool()).unwrap_or(true);
            }
            c.pending_valid = Some(pv);
        }
        if let Some(e) = v.get("echo").and_then(|e| e.as_bool()) {
            c.echo = e;
        }
    }
    c
}

/// A store query of a delivery that has been received but not yet answered.
enum Pending {
    HasKey(Vec<u8>, tokio::sync::oneshot::Sender<bool>),
    Get(Vec<u8>, tokio::sync::oneshot::Sender<Option<Record>>),
}

struct Delivery {
    fut: Option<Fut>,
    pending: Option<Pending>,
    result: Option<String>,
    err_text: Option<String>,
    steps: Vec<Value>,
    puts: Vec<Value>,
    outbox: Vec<Record>,
    payment_received: u64,
    fetch_completed: u64,
    replicate_started: u64,
    chain: ChainCfg,
    rpc_calls: Vec<Vec<String>>,
    rpc_tags: Vec<String>,
    /// store contents when this delivery started / after it was fully processed (serial runs)
    store_at_start: Option<Value>,
    store_after: Option<Value>,
}

impl World {
    fn flush(&mut self, d: &mut Delivery) {
        for record in std::mem::take(&mut d.outbox) {
            self.insert(record);
        }
    }

    fn emit_put(&mut self, record: Record, d: &mut Delivery) {
        let kname = build::key_name(&self.reg, record.key.as_ref());
        // what the real driver does with PutLocalRecord: payment kinds / unparsable headers are refused
        let ok = match RecordHeader::from_record(&record) {
            Ok(h) => !matches!(
                h.kind,
                ant_protocol::storage::RecordKind::ChunkWithPayment
                    | ant_protocol::storage::RecordKind::RegisterWithPayment
                    | ant_protocol::storage::RecordKind::TransactionWithPayment
                    | ant_protocol::storage::RecordKind::ScratchpadWithPayment
            ),
            Err(_) => false,
        };
        let val = build::describe(&self.reg, &record.value);
        d.puts.push(json!({"key": kname, "key_hex": hex::encode(record.key.as_ref()), "val": val, "refused_by_driver": !ok}));
        if ok {
            d.outbox.push(record);
        }
    }

    fn insert(&mut self, record: Record) {
        if let Some(real) = self.real.as_mut() {
            use ant_networking::verif_hooks::record_store as rs;
            use ant_protocol::storage::{RecordKind, RecordType};
            let rtype = match RecordHeader::from_record(&record).map(|h| h.kind) {
                Ok(RecordKind::Chunk) => RecordType::Chunk,
                Ok(RecordKind::Scratchpad) => RecordType::Scratchpad,
                _ => RecordType::NonChunk(xor_name::XorName::from_content(&record.value)),
            };
            real.keys.insert(record.key.to_vec());
            let _ = rs::put_verified(&mut real.store, record, rtype);
            return;
        }
        let listed = self.store.get(record.key.as_ref()).map(|s| s.listed).unwrap_or(false);
        self.store.insert(record.key.to_vec(), Slot { value: record.value, listed });
    }

    fn listed(&self, k: &[u8]) -> bool {
        match &self.real {
            Some(real) => ant_networking::verif_hooks::record_store::contains(&real.store, &libp2p::kad::RecordKey::new(&k)),
            None => self.store.get(k).map(|s| s.listed).unwrap_or(false),
        }
    }

    /// relay the pending disk-write acknowledgements
    async fn ack(&mut self) {
        if let Some(real) = self.real.as_mut() {
            use ant_networking::verif_hooks::record_store as rs;
            use ant_networking::verif_hooks::record_store::KadRecordStore;
            let mut idle = 0;
            while idle < 6 {
                tokio::task::yield_now().await;
                let mut got = false;
                while let Ok(cmd) = real.ack_rx.try_recv() {
                    got = true;
                    match cmd {
                        LocalSwarmCmd::AddLocalRecordAsStored { key, record_type } => rs::mark_as_stored(&mut real.store, key, record_type),
                        LocalSwarmCmd::RemoveFailedLocalRecord { key } => real.store.remove(&key),
                        _ => {}
                    }
                }
                idle = if got { 0 } else { idle + 1 };
            }
            return;
        }
        for s in self.store.values_mut() {
            s.listed = true;
        }
    }

    fn get(&self, k: &[u8]) -> Option<Record> {
        if let Some(real) = &self.real {
            use ant_networking::verif_hooks::record_store::KadRecordStore;
            return real.store.get(&libp2p::kad::RecordKey::new(&k)).map(|r| r.into_owned());
        }
        self.store.get(k).map(|s| build::record(libp2p::kad::RecordKey::new(&k), s.value.clone()))
    }

    fn dump(&self) -> Value {
        if let Some(real) = &self.real {
            // read back what the real store serves for every key this case ever touched
            let mut keys: std::collections::BTreeSet<Vec<u8>> = real.keys.clone();
            keys.extend(self.reg.keys.keys().cloned());
            return Value::Array(
                keys.iter()
                    .filter_map(|k| {
                        let got = self.get(k);
                        let listed = self.listed(k);
                        if got.is_none() && !listed {
                            return None;
                        }
                        Some(json!({"key": build::key_name(&self.reg, k), "key_hex": hex::encode(k),
                                    "val": got.map(|r| build::describe(&self.reg, &r.value)).unwrap_or(json!({"t": "unreadable"})),
                                    "listed": listed}))
                    })
                    .collect(),
            );
        }
        Value::Array(
            self.store
                .iter()
                .map(|(k, s)| json!({"key": build::key_name(&self.reg, k), "key_hex": hex::encode(k), "val": build::describe(&self.reg, &s.value), "listed": s.listed}))
                .collect(),
        )
    }
}

/// Handle one command observed while delivery `d` is the only one being polled.
/// Returns true if the command is a store query that was parked in `d.pending`.
fn on_local_cmd(w: &mut World, d: &mut Delivery, cmd: LocalSwarmCmd, background: bool) -> bool {
    match cmd {
        LocalSwarmCmd::RecordStoreHasKey { key, sender } => {
            if background {
                let _ = sender.send(w.listed(key.as_ref()));
                return false;
            }
            d.pending = Some(Pending::HasKey(key.to_vec(), sender));
            true
        }
        LocalSwarmCmd::GetLocalRecord { key, sender } => {
            if background {
                // only the fresh-record replication task asks after the delivery has returned
                d.replicate_started += 1;
                let r = w.get(key.as_ref()).or_else(|| Some(build::record(key.clone(), vec![0x91, 1, 0xc4, 0])));
                let _ = sender.send(r);
                return false;
            }
            d.pending = Some(Pending::Get(key.to_vec(), sender));
            true
        }
        LocalSwarmCmd::GetClosestKLocalPeers { sender } => {
            d.steps.push(json!("closest_k"));
            let _ = sender.send(w.closest.clone());
            false
        }
        LocalSwarmCmd::PutLocalRecord { record } => {
            w.emit_put(record, d);
            false
        }
        LocalSwarmCmd::PaymentReceived => {
            d.payment_received += 1;
            false
        }
        LocalSwarmCmd::FetchCompleted(_) => {
            d.fetch_completed += 1;
            false
        }
        LocalSwarmCmd::GetReplicateCandidates { sender, .. } => {
            let _ = sender.send(vec![]);
            false
        }
        other => {
            d.steps.push(json!({"other_cmd": format!("{other:?}")}));
            false
        }
    }
}

async fn drain_background(
    w: &mut World,
    d: &mut Delivery,
    local_rx: &mut mpsc::Receiver<LocalSwarmCmd>,
    net_rx: &mut mpsc::Receiver<NetworkSwarmCmd>,
) {
    let mut idle = 0;
    while idle < 4 {
        tokio::task::yield_now().await;
        let mut got = false;
        while let Ok(cmd) = local_rx.try_recv() {
            got = true;
            on_local_cmd(w, d, cmd, true);
        }
        while let Ok(cmd) = net_rx.try_recv() {
            got = true;
            d.steps.push(json!({"net_cmd": format!("{cmd:?}").chars().take(60).collect::<String>()}));
        }
        idle = if got { 0 } else { idle + 1 };
    }
}

/// One schedule step of delivery `d`.
async fn advance(
    w: &mut World,
    d: &mut Delivery,
    stub: &Stub,
    local_rx: &mut mpsc::Receiver<LocalSwarmCmd>,
    net_rx: &mut mpsc::Receiver<NetworkSwarmCmd>,
) {
    w.flush(d);
    if d.result.is_some() {
        return;
    }
    stub.configure(d.chain.clone());
    match d.pending.take() {
        Some(Pending::HasKey(k, s)) => {
            let listed = w.listed(&k);
            d.steps.push(json!({"has_key": build::key_name(&w.reg, &k), "answer": listed}));
            let _ = s.send(listed);
        }
        Some(Pending::Get(k, s)) => {
            let r = w.get(&k);
            d.steps.push(json!({"get_local": build::key_name(&w.reg, &k),
                                 "answer": r.as_ref().map(|r| build::describe(&w.reg, &r.value))}));
            let _ = s.send(r);
        }
        None => {}
    }
    let mut fut = d.fut.take().expect("delivery future");
    let done = loop {
        tokio::select! {
            biased;
            r = &mut fut => break Some(r),
            Some(cmd) = local_rx.recv() => {
                if on_local_cmd(w, d, cmd, false) { break None; }
            }
            Some(cmd) = net_rx.recv() => {
                d.steps.push(json!({"net_cmd": format!("{cmd:?}").chars().take(60).collect::<String>()}));
            }
        }
    };
    match done {
        None => d.fut = Some(fut),
        Some(r) => {
            drop(fut);
            match r {
                Ok(()) => d.result = Some("Ok".into()),
                Err(e) => {
                    d.result = Some(err_code(&e));
                    d.err_text = Some(format!("{e:?}").chars().take(200).collect());
                }
            }
            drain_background(w, d, local_rx, net_rx).await;
        }
    }
    d.rpc_calls.extend(stub.take_calls());
    d.rpc_tags.extend(stub.take_tags());
}

pub fn run_case(case: &Value, stub: &Stub) -> Value {
    let rt = tokio::runtime::Builder::new_current_thread().enable_all().build().expect("runtime");
    let out = rt.block_on(async {
        match tokio::time::timeout(Duration::from_secs(60), run_case_async(case, stub)).await {
            Ok(v) => v,
            Err(_) => json!({"error": "case timed out"}),
        }
    });
    drop(rt);
    out
}

async fn run_case_async(case: &Value, stub: &Stub) -> Value {
    let mut w = World { reg: Registry::default(), store: BTreeMap::new(), closest: vec![], real: None };
    if case.get("realstore").and_then(|b| b.as_bool()).unwrap_or(false) {
        let dir = std::env::temp_dir().join(format!(
            "verif-c07-{}-{}",
            std::process::id(),
            SystemTime::now().duration_since(SystemTime::UNIX_EPOCH).unwrap().as_nanos()
        ));
        std::fs::create_dir_all(&dir).expect("temp dir");
        let (ev_tx, ev_rx) = mpsc::channel::<ant_networking::NetworkEvent>(10_000);
        let (ack_tx, ack_rx) = mpsc::channel::<LocalSwarmCmd>(10_000);
        let mut cfg = ant_networking::verif_hooks::NodeRecordStoreConfig::default();
        cfg.storage_dir = dir.clone();
        cfg.historic_quote_dir = dir.clone();
        cfg.encryption_seed = [7u8; 16];
        if let Some(n) = case.get("cache").and_then(|c| c.as_u64()) {
            cfg.records_cache_size = n as usize;
        }
        let store = ant_networking::verif_hooks::record_store::new_node_store(build::peer_id(0), cfg, ev_tx, ack_tx);
        w.real = Some(Real { store, ack_rx, _ev_rx: ev_rx, dir, keys: Default::default() });
        w.ack().await;
    }
    for p in case["closest"].as_array().cloned().unwrap_or_default() {
        w.closest.push(build::peer_id(p.as_i64().unwrap()));
    }
    // prior store content
    for s in case["store"].as_array().cloned().unwrap_or_default() {
        let k = build::key(&mut w.reg, &s["key"]);
        let hdr = match s["obj"]["t"].as_str().unwrap_or("") {
            "chunk" => 1,
            "pad" => 5,
            "txs" => 2,
            "reg" => 3,
            _ => s["hdr"].as_i64().unwrap_or(1),
        };
        let v = build::value(&mut w.reg, hdr, &s["obj"], &None);
        if w.real.is_some() {
            w.insert(build::record(k.clone(), v));
            w.ack().await;
        } else {
            w.store.insert(k.to_vec(), Slot { value: v, listed: s.get("listed").and_then(|b| b.as_bool()).unwrap_or(true) });
        }
    }
    let store_before = w.dump();

    let (net_tx, mut net_rx) = mpsc::channel::<NetworkSwarmCmd>(10_000);
    let (local_tx, mut local_rx) = mpsc::channel::<LocalSwarmCmd>(10_000);
    let kp = build::peer_kp(0);
    let network = Network::new(net_tx, local_tx, kp.public().to_peer_id(), kp);
    let evm = EvmNetwork::new_custom(
        &stub.url,
        "0x5FbDB2315678afecb367f032d93F642f64180aa3",
        "0x8464135c8F25Da09e49BC8782676a84730C318bC",
    );
    let events = NodeEventsChannel::default();
    let mut events_rx = events.subscribe();
    let node = VerifNode::new(network, evm, build::rewards(0), events);

    let now = SystemTime::now();
    let mut ds: Vec<Delivery> = vec![];
    for spec in case["deliveries"].as_array().cloned().unwrap_or_default() {
        let proof = if spec["proof"].is_object() { Some(build::proof(&mut w.reg, &spec["proof"], now)) } else { None };
        let k = build::key(&mut w.reg, &spec["key"]);
        let v = build::value(&mut w.reg, spec["hdr"].as_i64().unwrap(), &spec["body"], &proof);
        let rec = build::record(k, v);
        let n = node.clone();
        let fut: Fut = if spec["path"].as_str() == Some("repl") {
            Box::pin(async move { n.store_replicated_in_record(rec).await })
        } else {
            Box::pin(async move { n.validate_and_store_record(rec).await })
        };
        ds.push(Delivery {
            fut: Some(fut),
            pending: None,
            result: None,
            err_text: None,
            steps: vec![],
            puts: vec![],
            outbox: vec![],
            payment_received: 0,
            fetch_completed: 0,
            replicate_started: 0,
            chain: chain_cfg(&spec["chain"]),
            rpc_calls: vec![],
            rpc_tags: vec![],
            store_at_start: None,
            store_after: None,
        });
    }

    let mut trace: Vec<Value> = vec![];
    let sched = case.get("schedule").and_then(|s| s.as_array()).cloned();
    let mut events_by_delivery: Vec<Vec<Value>> = vec![vec![]; ds.len()];
    let mut collect_events = |i: usize, rx: &mut tokio::sync::broadcast::Receiver<NodeEvent>, reg: &Registry| {
        while let Ok(ev) = rx.try_recv() {
            let v = match ev {
                NodeEvent::RewardReceived(amount, addr) => {
                    json!({"reward": amount.as_atto().to_string(), "addr": build::key_name(reg, addr.to_record_key().as_ref())})
                }
                NodeEvent::ChunkStored(a) => json!({"chunk_stored": build::key_name(reg, a.xorname().0.as_ref())}),
                other => json!({"event": format!("{other:?}").chars().take(40).collect::<String>()}),
            };
            events_by_delivery[i].push(v);
        }
    };
    if let Some(tokens) = sched {
        for t in tokens {
            if let Some(i) = t.as_u64() {
                let i = i as usize;
                if i < ds.len() {
                    if ds[i].store_at_start.is_none() {
                        ds[i].store_at_start = Some(w.dump());
                    }
                    let before = ds[i].steps.len();
                    advance(&mut w, &mut ds[i], stub, &mut local_rx, &mut net_rx).await;
                    collect_events(i, &mut events_rx, &w.reg);
                    // a delivery that has returned and whose queued writes have been processed is "fully
                    // processed" (its disk write may still be unacknowledged): snapshot for the oracles
                    if ds[i].result.is_some() && ds[i].outbox.is_empty() && ds[i].store_after.is_none() {
                        ds[i].store_after = Some(w.dump());
                    }
                    trace.push(json!({"adv": i, "steps": ds[i].steps[before..].to_vec(), "done": ds[i].result}));
                }
            } else {
                w.ack().await;
                trace.push(json!("ack"));
            }
        }
    }
    // whatever the schedule left unfinished runs to completion, one delivery after the other
    for i in 0..ds.len() {
        if ds[i].store_at_start.is_none() {
            ds[i].store_at_start = Some(w.dump());
        }
        while ds[i].result.is_none() {
            advance(&mut w, &mut ds[i], stub, &mut local_rx, &mut net_rx).await;
        }
        w.flush(&mut ds[i]);
        collect_events(i, &mut events_rx, &w.reg);
        w.ack().await;
        if ds[i].store_after.is_none() {
            ds[i].store_after = Some(w.dump());
        }
    }

    let results: Vec<Value> = ds
        .iter()
        .enumerate()
        .map(|(i, d)| {
            let known_hashes: Vec<Vec<Value>> = d
                .rpc_calls
                .iter()
                .map(|c| c.iter().map(|h| w.reg.quote_hashes.get(h).cloned().unwrap_or(json!(h))).collect())
                .collect();
            json!({
                "res": d.result, "err": d.err_text, "steps": d.steps, "puts": d.puts,
                "payment_received": d.payment_received, "fetch_completed": d.fetch_completed,
                "replicate_started": d.replicate_started, "rpc_calls": known_hashes, "rpc_tags": d.rpc_tags,
                "events": events_by_delivery[i],
                "store_at_start": d.store_at_start, "store_after": d.store_after,
            })
        })
        .collect();
    let out = json!({"results": results, "store_before": store_before, "store": w.dump(), "trace": trace});
    if let Some(real) = w.real.take() {
        let dir = real.dir.clone();
        drop(real);
        let _ = std::fs::remove_dir_all(&dir);
    }
    out
}
