//! C03 / C04 / C07 harness: drives the REAL `ant-node` put validation
//! (`validate_and_store_record`, `store_replicated_in_record`) of a hook-constructed `Node` built
//! around `Network::new(..)`, with this process acting as the swarm driver: it receives the
//! `LocalSwarmCmd`s the node sends, answers them from a harness-owned store and chooses the order in
//! which overlapping deliveries are advanced. The payment contract is a tiny JSON-RPC stub on
//! 127.0.0.1 (reached through `EvmNetwork::Custom`) that answers `eth_call(verifyPayment)`.
//! The third path (`RecordStore::put` of the real `NodeRecordStore`) is in `storeput.rs`.
//!
//! One JSON case per stdin line, one JSON result per stdout line; see tools/props/C03.py.
mod build;
mod engine;
mod storeput;
mod stub;

use serde_json::{json, Value};
use std::io::{BufRead, Write};
use std::panic::{catch_unwind, AssertUnwindSafe};

fn run(case: &Value, stub: &stub::Stub) -> Value {
    match case.get("mode").and_then(|m| m.as_str()).unwrap_or("node") {
        "node" => engine::run_case(case, stub),
        "storeput" => storeput::run_case(case),
        other => json!({"error": format!("unknown mode {other}")}),
    }
}

fn main() {
    std::panic::set_hook(Box::new(|_| {}));
    // real nodes always run with a tracing subscriber, and `tracing` evaluates the arguments of
    // error!/warn!/debug! lines only when a subscriber enables the callsite: format every event's fields
    // (into a sink) so that a panicking expression inside a log line surfaces as a `panic` result here too
    let level = match std::env::var("VERIF_TRACE_LEVEL").as_deref() {
        Ok("debug") => tracing::Level::DEBUG,
        Ok("error") => tracing::Level::ERROR,
        _ => tracing::Level::TRACE,
    };
    let _ = tracing_subscriber::fmt()
        .with_max_level(level)
        .with_writer(std::io::sink)
        .try_init();
    let stub = stub::Stub::start();
    let stdin = std::io::stdin();
    let out = std::io::stdout();
    let mut out = out.lock();
    for line in stdin.lock().lines() {
        let line = line.unwrap();
        if line.trim().is_empty() {
            continue;
        }
        let case: Value = serde_json::from_str(&line).unwrap();
        let res = catch_unwind(AssertUnwindSafe(|| run(&case, &stub))).unwrap_or_else(|p| {
            let msg = p
                .downcast_ref::<String>()
                .cloned()
                .or_else(|| p.downcast_ref::<&str>().map(|s| s.to_string()))
                .unwrap_or_default();
            json!({"panic": msg})
        });
        writeln!(out, "{res}").unwrap();
        out.flush().unwrap();
    }
}
