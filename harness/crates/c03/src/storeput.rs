//! Third acceptance path (C04): `RecordStore::put` of the real `NodeRecordStore` -- records arriving
//! from the network are only forwarded for validation (`NetworkEvent::UnverifiedRecord`).
use serde_json::{json, Value};

pub fn run_case(_case: &Value) -> Value {
    json!({"error": "storeput not implemented yet"})
}
