//! Third acceptance path (C04): `RecordStore::put` of the real `NodeRecordStore` -- a record arriving
//! from the network is only forwarded for validation (`NetworkEvent::UnverifiedRecord`), never made
//! readable, and oversized / unparseable ones are refused.
//!
//! case: {"mode":"storeput","max":N,"prior":[{"key":ks,"obj":spec,"rtype":"chunk"|"pad"|"nonchunk"|"stalehash"}],
//!        "puts":[{"key":ks,"hdr":tag,"body":spec,"proof":..,"pad_to":len?}]}
use crate::build::{self, Registry};
use ant_networking::verif_hooks::record_store as rs;
use ant_networking::verif_hooks::record_store::KadRecordStore;
use ant_networking::verif_hooks::{LocalSwarmCmd, NodeRecordStoreConfig};
use ant_networking::NetworkEvent;
use ant_protocol::storage::RecordType;
use serde_json::{json, Value};
use std::time::{Duration, SystemTime};
use tokio::sync::mpsc;
use xor_name::XorName;

fn snapshot(store: &ant_networking::verif_hooks::UnifiedRecordStore, reg: &Registry, keys: &[libp2p::kad::RecordKey], dir: &std::path::Path) -> Value {
    let mut ks: Vec<Value> = vec![];
    for k in keys {
        let got = store.get(k).map(|r| r.into_owned());
        ks.push(json!({
            "key": build::key_name(reg, k.as_ref()),
            "contains": rs::contains(store, k),
            "get": got.map(|r| build::describe(reg, &r.value)),
        }));
    }
    let mut files: Vec<String> = std::fs::read_dir(dir)
        .map(|d| d.filter_map(|e| e.ok()).map(|e| e.file_name().to_string_lossy().to_string()).collect())
        .unwrap_or_default();
    files.sort();
    let mut addrs: Vec<String> = rs::record_addresses_ref(store)
        .iter()
        .map(|(k, _a, t)| format!("{}:{}", hex::encode(k.as_ref()), match t { RecordType::Chunk => "chunk".to_string(), RecordType::Scratchpad => "pad".to_string(), RecordType::NonChunk(_) => "nonchunk".to_string() }))
        .collect();
    addrs.sort();
    json!({"keys": ks, "files": files.len(), "file_names": files, "index": addrs, "cache": rs::cache_entries(store).len()})
}

pub fn run_case(case: &Value) -> Value {
    let rt = tokio::runtime::Builder::new_current_thread().enable_all().build().expect("runtime");
    let out = rt.block_on(async {
        match tokio::time::timeout(Duration::from_secs(60), run_async(case)).await {
            Ok(v) => v,
            Err(_) => json!({"error": "case timed out"}),
        }
    });
    drop(rt);
    out
}

async fn settle(store: &mut ant_networking::verif_hooks::UnifiedRecordStore, cmd_rx: &mut mpsc::Receiver<LocalSwarmCmd>) {
    // let the spawned disk writes run and deliver their acknowledgements, as handle_local_cmd does
    let mut idle = 0;
    while idle < 6 {
        tokio::task::yield_now().await;
        let mut got = false;
        while let Ok(cmd) = cmd_rx.try_recv() {
            got = true;
            match cmd {
                LocalSwarmCmd::AddLocalRecordAsStored { key, record_type } => rs::mark_as_stored(store, key, record_type),
                LocalSwarmCmd::RemoveFailedLocalRecord { key } => store.remove(&key),
                _ => {}
            }
        }
        idle = if got { 0 } else { idle + 1 };
    }
}

async fn run_async(case: &Value) -> Value {
    let mut reg = Registry::default();
    let dir = std::env::temp_dir().join(format!(
        "verif-c04-{}-{}",
        std::process::id(),
        SystemTime::now().duration_since(SystemTime::UNIX_EPOCH).unwrap().as_nanos()
    ));
    std::fs::create_dir_all(&dir).expect("temp dir");
    let (ev_tx, mut ev_rx) = mpsc::channel::<NetworkEvent>(10_000);
    let (cmd_tx, mut cmd_rx) = mpsc::channel::<LocalSwarmCmd>(10_000);
    let cfg = NodeRecordStoreConfig {
        storage_dir: dir.clone(),
        historic_quote_dir: dir.clone(),
        max_records: 64,
        max_value_bytes: case["max"].as_u64().unwrap_or(4096) as usize,
        records_cache_size: case.get("cache").and_then(|c| c.as_u64()).unwrap_or(8) as usize,
        encryption_seed: [7u8; 16],
    };
    let mut store = rs::new_node_store(build::peer_id(0), cfg, ev_tx, cmd_tx);
    settle(&mut store, &mut cmd_rx).await;

    let mut keys: Vec<libp2p::kad::RecordKey> = vec![];
    for p in case["prior"].as_array().cloned().unwrap_or_default() {
        let k = build::key(&mut reg, &p["key"]);
        let hdr = match p["obj"]["t"].as_str().unwrap_or("") { "chunk" => 1, "pad" => 5, "txs" => 2, "reg" => 3, _ => 1 };
        let v = build::value(&mut reg, hdr, &p["obj"], &None);
        let rtype = match p["rtype"].as_str().unwrap_or("") {
            "chunk" => RecordType::Chunk,
            "pad" => RecordType::Scratchpad,
            "stalehash" => RecordType::NonChunk(XorName([0x42; 32])),
            _ => RecordType::NonChunk(XorName::from_content(&v)),
        };
        let _ = rs::put_verified(&mut store, build::record(k.clone(), v), rtype);
        settle(&mut store, &mut cmd_rx).await;
        if !keys.contains(&k) {
            keys.push(k);
        }
    }
    // build all puts first so that every key is in the observed universe
    let now = SystemTime::now();
    let mut recs = vec![];
    for p in case["puts"].as_array().cloned().unwrap_or_default() {
        let proof = if p["proof"].is_object() { Some(build::proof(&mut reg, &p["proof"], now)) } else { None };
        let k = build::key(&mut reg, &p["key"]);
        let mut v = build::value(&mut reg, p["hdr"].as_i64().unwrap(), &p["body"], &proof);
        if let Some(n) = p.get("pad_to").and_then(|n| n.as_u64()) {
            // trailing bytes after the msgpack body: the length is what the size gate looks at
            v.resize(n as usize, 0);
        }
        if !keys.contains(&k) {
            keys.push(k.clone());
        }
        recs.push(build::record(k, v));
    }
    let mut results = vec![];
    for rec in recs {
        let before = snapshot(&store, &reg, &keys, &dir);
        let len = rec.value.len();
        let h64 = |x: &XorName| u64::from_be_bytes(x.0[..8].try_into().unwrap()) >> 4;
        let vhash = h64(&XorName::from_content(&rec.value));
        let held_before = rs::record_addresses_ref(&store).iter().find(|(k, _, _)| *k == rec.key).map(|(_, _, t)| match t {
            RecordType::Chunk => json!("chunk"),
            RecordType::Scratchpad => json!("pad"),
            RecordType::NonChunk(h) => json!({"nonchunk": h64(h)}),
        });
        let sent = rec.clone();
        let r = store.put(rec);
        settle(&mut store, &mut cmd_rx).await;
        let mut events = vec![];
        while let Ok(ev) = ev_rx.try_recv() {
            events.push(match ev {
                NetworkEvent::UnverifiedRecord(r) => json!({"unverified": build::key_name(&reg, r.key.as_ref()), "same_record": r.key == sent.key && r.value == sent.value}),
                other => json!({"other": format!("{other:?}").chars().take(40).collect::<String>()}),
            });
        }
        let after = snapshot(&store, &reg, &keys, &dir);
        results.push(json!({
            "res": match r { Ok(()) => "Ok".to_string(), Err(e) => format!("{e:?}") },
            "len": len, "events": events, "vhash": vhash, "held_before": held_before, "unchanged": before == after, "before": before, "after": after,
        }));
    }
    drop(store);
    let _ = std::fs::remove_dir_all(&dir);
    json!({"puts": results})
}
