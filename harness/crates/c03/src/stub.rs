//! The payment contract, replaced by a JSON-RPC stub on 127.0.0.1: answers the single `eth_call`
//! (`verifyPayment(PaymentVerification[]) -> PaymentVerificationResult[3]`) the node makes, with a
//! validity vector configured per delivery. Result encoding: 3 x (bytes32 quoteHash, uint256
//! amountPaid, bool isValid), all static, 288 bytes.
use std::io::{Read, Write};
use std::net::TcpListener;
use std::sync::{Arc, Mutex};

#[derive(Clone, Debug, Default)]
pub struct ChainCfg {
    /// "ok" | "rpcerr" | "garbage"
    pub mode: String,
    pub valid: [bool; 3],
    pub amounts: [u64; 3],
    /// answer with the hashes of the first three submitted verifications (else zero hashes)
    pub echo: bool,
    /// the PENDING state (a payForQuotes transaction that is only in the mempool): used when the eth_call
    /// asks for block tag "pending"; None = same as the mined state
    pub pending_valid: Option<[bool; 3]>,
}

#[derive(Default)]
pub struct State {
    pub cfg: ChainCfg,
    /// quote hashes (hex) the node submitted, one list per eth_call
    pub calls: Vec<Vec<String>>,
    /// block tag of each eth_call
    pub tags: Vec<String>,
    pub other_methods: Vec<String>,
}

pub struct Stub {
    pub url: String,
    pub state: Arc<Mutex<State>>,
}

fn word_bool(b: bool) -> [u8; 32] {
    let mut w = [0u8; 32];
    w[31] = b as u8;
    w
}
fn word_u64(x: u64) -> [u8; 32] {
    let mut w = [0u8; 32];
    w[24..].copy_from_slice(&x.to_be_bytes());
    w
}

fn handle(body: &str, state: &Arc<Mutex<State>>) -> String {
    let req: serde_json::Value = serde_json::from_str(body).unwrap_or(serde_json::Value::Null);
    let id = req.get("id").cloned().unwrap_or(serde_json::Value::Null);
    let method = req.get("method").and_then(|m| m.as_str()).unwrap_or("");
    let mut st = state.lock().unwrap();
    if method != "eth_call" {
        st.other_methods.push(method.to_string());
        // harmless defaults
        let result = match method {
            "eth_chainId" => "0x539",
            "eth_blockNumber" => "0x1",
            _ => "0x",
        };
        return serde_json::json!({"jsonrpc":"2.0","id":id,"result":result}).to_string();
    }
    let p0 = &req["params"][0];
    let data = p0
        .get("input")
        .or_else(|| p0.get("data"))
        .and_then(|d| d.as_str())
        .unwrap_or("0x");
    let raw = hex::decode(data.trim_start_matches("0x")).unwrap_or_default();
    // selector(4) | offset(32) | len(32) | len * 8 words (6 metrics, rewardsAddress, quoteHash)
    let mut hashes: Vec<[u8; 32]> = vec![];
    if raw.len() >= 68 {
        let n = u64::from_be_bytes(raw[60..68].try_into().unwrap()) as usize;
        for i in 0..n {
            let off = 68 + i * 256 + 7 * 32;
            if raw.len() >= off + 32 {
                hashes.push(raw[off..off + 32].try_into().unwrap());
            }
        }
    }
    st.calls.push(hashes.iter().map(hex::encode).collect());
    // second parameter of eth_call: the block the call is evaluated against (default "latest")
    let tag = match req["params"].get(1) {
        Some(serde_json::Value::String(t)) => t.clone(),
        Some(serde_json::Value::Null) | None => "latest".to_string(),
        Some(other) => other.to_string(),
    };
    st.tags.push(tag.clone());
    let valid = if tag == "pending" { st.cfg.pending_valid.unwrap_or(st.cfg.valid) } else { st.cfg.valid };
    match st.cfg.mode.as_str() {
        "rpcerr" => serde_json::json!({"jsonrpc":"2.0","id":id,
            "error":{"code":-32000,"message":"verif stub: execution reverted"}})
        .to_string(),
        "garbage" => serde_json::json!({"jsonrpc":"2.0","id":id,"result":"0x1234"}).to_string(),
        _ => {
            let mut out = Vec::with_capacity(288);
            for i in 0..3 {
                let h = if st.cfg.echo {
                    hashes.get(i).cloned().unwrap_or([0u8; 32])
                } else {
                    [0u8; 32]
                };
                out.extend_from_slice(&h);
                out.extend_from_slice(&word_u64(st.cfg.amounts[i]));
                out.extend_from_slice(&word_bool(valid[i]));
            }
            serde_json::json!({"jsonrpc":"2.0","id":id,"result":format!("0x{}", hex::encode(out))})
                .to_string()
        }
    }
}

impl Stub {
    pub fn start() -> Self {
        let listener = TcpListener::bind("127.0.0.1:0").expect("bind stub");
        let port = listener.local_addr().unwrap().port();
        let state = Arc::new(Mutex::new(State::default()));
        let st2 = state.clone();
        std::thread::spawn(move || {
            for conn in listener.incoming() {
                let Ok(mut s) = conn else { continue };
                let st3 = st2.clone();
                std::thread::spawn(move || {
                    let mut buf = Vec::new();
                    let mut tmp = [0u8; 4096];
                    // read headers + body (Content-Length)
                    loop {
                        let n = match s.read(&mut tmp) {
                            Ok(0) | Err(_) => return,
                            Ok(n) => n,
                        };
                        buf.extend_from_slice(&tmp[..n]);
                        if let Some(pos) = buf.windows(4).position(|w| w == b"\r\n\r\n") {
                            let head = String::from_utf8_lossy(&buf[..pos]).to_lowercase();
                            let len = head
                                .lines()
                                .find_map(|l| l.strip_prefix("content-length:").map(|v| v.trim().parse::<usize>().unwrap_or(0)))
                                .unwrap_or(0);
                            while buf.len() < pos + 4 + len {
                                let n = match s.read(&mut tmp) {
                                    Ok(0) | Err(_) => return,
                                    Ok(n) => n,
                                };
                                buf.extend_from_slice(&tmp[..n]);
                            }
                            let body = String::from_utf8_lossy(&buf[pos + 4..pos + 4 + len]).to_string();
                            let resp = handle(&body, &st3);
                            let _ = write!(
                                s,
                                "HTTP/1.1 200 OK\r\nContent-Type: application/json\r\nContent-Length: {}\r\nConnection: close\r\n\r\n{}",
                                resp.len(),
                                resp
                            );
                            let _ = s.flush();
                            return;
                        }
                    }
                });
            }
        });
        Stub { url: format!("http://127.0.0.1:{port}"), state }
    }

    pub fn configure(&self, cfg: ChainCfg) {
        self.state.lock().unwrap().cfg = cfg;
    }

    pub fn take_calls(&self) -> Vec<Vec<String>> {
        std::mem::take(&mut self.state.lock().unwrap().calls)
    }

    pub fn take_tags(&self) -> Vec<String> {
        std::mem::take(&mut self.state.lock().unwrap().tags)
    }
}
