//! Builds REAL protocol objects (records, proofs of payment, scratchpads, transactions, registers)
//! from the symbolic specs of a case, and maps stored bytes back to those specs by byte equality
//! only (no verification function of the implementation is used for canonicalisation).
use ant_evm::{EncodedPeerId, PaymentQuote, ProofOfPayment, QuotingMetrics, RewardsAddress};
use ant_protocol::storage::{Chunk, RecordHeader, Scratchpad, ScratchpadAddress, Transaction};
use ant_registers::{Permissions, Register, RegisterAddress, RegisterCrdt, RegisterOp, SignedRegister};
use bytes::Bytes;
use libp2p::identity::Keypair;
use libp2p::kad::{Record, RecordKey};
use libp2p::PeerId;
use serde::Serialize;
use serde_json::{json, Value};
use std::collections::{BTreeSet, HashMap};
use std::time::{Duration, SystemTime};
use xor_name::XorName;

pub fn peer_kp(i: i64) -> Keypair {
    Keypair::ed25519_from_bytes([(i as u8).wrapping_add(1); 32]).expect("ed25519 seed")
}
pub fn peer_id(i: i64) -> PeerId {
    peer_kp(i).public().to_peer_id()
}
pub fn owner_sk(o: i64) -> bls::SecretKey {
    let mut b = [0u8; 32];
    b[31] = (o as u8).wrapping_add(1);
    b[30] = 0x5a;
    bls::SecretKey::from_bytes(b).expect("bls scalar")
}
pub fn owner_pk(o: i64) -> bls::PublicKey {
    owner_sk(o).public_key()
}
pub fn meta(m: i64) -> XorName {
    XorName([(m as u8).wrapping_add(0x30); 32])
}
pub fn rewards(r: i64) -> RewardsAddress {
    RewardsAddress::from([(r as u8).wrapping_add(0x11); 20])
}

#[derive(Default)]
pub struct Registry {
    /// serialized atom -> spec
    pub atoms: HashMap<Vec<u8>, Value>,
    /// record key bytes -> keyspec
    pub keys: HashMap<Vec<u8>, Value>,
    /// quote hash hex -> (quote index in its proof)
    pub quote_hashes: HashMap<String, Value>,
}

/// chunk content from a content id: {"d": n, "size": s?} | {"pk": o} | {"regpre": [o, m]}
pub fn content(reg: &mut Registry, cid: &Value) -> Vec<u8> {
    let bytes = if let Some(o) = cid.get("pk").and_then(|v| v.as_i64()) {
        owner_pk(o).to_bytes().to_vec()
    } else if let Some(a) = cid.get("regpre").and_then(|v| v.as_array()) {
        let mut b = meta(a[1].as_i64().unwrap()).0.to_vec();
        b.extend_from_slice(&owner_pk(a[0].as_i64().unwrap()).to_bytes());
        b
    } else {
        let n = cid["d"].as_i64().unwrap();
        let mut b = format!("verif-chunk-content-{n}").into_bytes();
        if let Some(sz) = cid.get("size").and_then(|v| v.as_u64()) {
            b.resize(sz as usize, (n % 251) as u8);
        }
        b
    };
    reg.atoms.insert(bytes.clone(), cid.clone());
    bytes
}

/// 32-byte name from an xorspec: {"chunk": cid} | {"owner": o} | {"reg": [o, m]} | {"raw": n}
pub fn xor(reg: &mut Registry, xs: &Value) -> XorName {
    if let Some(cid) = xs.get("chunk") {
        XorName::from_content(&content(reg, cid))
    } else if let Some(o) = xs.get("owner").and_then(|v| v.as_i64()) {
        XorName::from_content(&owner_pk(o).to_bytes())
    } else if let Some(a) = xs.get("reg").and_then(|v| v.as_array()) {
        RegisterAddress::new(meta(a[1].as_i64().unwrap()), owner_pk(a[0].as_i64().unwrap())).xorname()
    } else {
        let n = xs["raw"].as_i64().unwrap();
        let mut b = [0xF0u8; 32];
        b[1] = n as u8;
        XorName(b)
    }
}

pub fn key(reg: &mut Registry, ks: &Value) -> RecordKey {
    let k = RecordKey::new(&xor(reg, ks));
    // canonical name of a key: the first spec that produced these bytes wins, except that the
    // python side normalises specs itself (it knows which specs coincide)
    reg.keys.entry(k.to_vec()).or_insert_with(|| ks.clone());
    k
}

pub fn key_name(reg: &Registry, k: &[u8]) -> Value {
    reg.keys.get(k).cloned().unwrap_or_else(|| json!({"hex": hex::encode(k)}))
}

// ---------------------------------------------------------------- scratchpads

#[derive(Serialize)]
struct PadMirror {
    address: ScratchpadAddress,
    data_encoding: u64,
    encrypted_data: Bytes,
    counter: u64,
    signature: Option<bls::Signature>,
}

fn pad_data(d: i64) -> Bytes {
    if d < 0 {
        return Bytes::new(); // a never-written scratchpad: empty encrypted_data
    }
    Bytes::from(format!("verif-pad-data-{d}").into_bytes())
}
fn pad_signing_bytes(ctr: u64, d: i64) -> Vec<u8> {
    let mut b = ctr.to_be_bytes().to_vec();
    b.extend(XorName::from_content(&pad_data(d)).to_vec());
    b
}

/// {"t":"pad","owner":o,"ctr":n,"data":d,"enc":e,"sig":"none"|"junk"|{"by":s,"ctr":n',"data":d'}}
pub fn pad(reg: &mut Registry, spec: &Value) -> Scratchpad {
    let o = spec["owner"].as_i64().unwrap();
    let ctr = spec["ctr"].as_u64().unwrap();
    let d = spec["data"].as_i64().unwrap();
    let signature = match &spec["sig"] {
        Value::String(s) if s == "none" => None,
        Value::String(_) => Some(owner_sk(77).sign(b"junk signature")),
        s => Some(owner_sk(s["by"].as_i64().unwrap()).sign(pad_signing_bytes(
            s["ctr"].as_u64().unwrap(),
            s["data"].as_i64().unwrap(),
        ))),
    };
    let m = PadMirror {
        address: ScratchpadAddress::new(owner_pk(o)),
        data_encoding: spec.get("enc").and_then(|v| v.as_u64()).unwrap_or(0),
        encrypted_data: pad_data(d),
        counter: ctr,
        signature,
    };
    let bytes = rmp_serde::to_vec(&m).expect("pad mirror");
    let p: Scratchpad = rmp_serde::from_slice(&bytes).expect("pad mirror decodes");
    let real = rmp_serde::to_vec(&p).expect("pad");
    assert_eq!(real, bytes, "scratchpad mirror is byte-identical");
    reg.atoms.insert(real, spec.clone());
    p
}

// ---------------------------------------------------------------- transactions

fn tx_content(c: i64) -> [u8; 32] {
    [(c as u8).wrapping_add(0x40); 32]
}

fn out_content(c: i64) -> [u8; 32] {
    [(c as u8).wrapping_add(0x70); 32]
}
fn tx_parents(v: &Value) -> Vec<bls::PublicKey> {
    v.as_array().map(|l| l.iter().map(|p| owner_pk(p.as_i64().unwrap())).collect()).unwrap_or_default()
}
fn tx_outputs(v: &Value) -> Vec<(bls::PublicKey, [u8; 32])> {
    v.as_array()
        .map(|l| l.iter().map(|o| (owner_pk(o[0].as_i64().unwrap()), out_content(o[1].as_i64().unwrap()))).collect())
        .unwrap_or_default()
}

/// {"owner":o,"content":c,"parents":[p..],"outputs":[[k,c]..],
///  "sig":"junk"|{"by":s,"content":c', "owner":o'?, "parents":[..]?, "outputs":[..]?}}
/// The signature is made over the fields named in "sig" (default: the transaction's own); the struct
/// fields are then set to the transaction's own values -- i.e. fields are edited AFTER signing.
pub fn tx(reg: &mut Registry, spec: &Value) -> Transaction {
    let o = owner_pk(spec["owner"].as_i64().unwrap());
    let c = tx_content(spec["content"].as_i64().unwrap());
    let parents = tx_parents(&spec["parents"]);
    let outputs = tx_outputs(&spec["outputs"]);
    let sig = match &spec["sig"] {
        Value::String(_) => owner_sk(77).sign(b"junk signature"),
        s => {
            let so = s.get("owner").and_then(|v| v.as_i64()).map(owner_pk).unwrap_or(o);
            let sp = if s.get("parents").is_some() { tx_parents(&s["parents"]) } else { parents.clone() };
            let souts = if s.get("outputs").is_some() { tx_outputs(&s["outputs"]) } else { outputs.clone() };
            owner_sk(s["by"].as_i64().unwrap()).sign(Transaction::bytes_to_sign(
                &so,
                &sp,
                &tx_content(s["content"].as_i64().unwrap()),
                &souts,
            ))
        }
    };
    let mut t = Transaction::new_with_signature(o, vec![], c, vec![], sig);
    // the fields are public: set them after the signature exists
    t.parents = parents;
    t.outputs = outputs;
    reg.atoms.insert(rmp_serde::to_vec(&t).expect("tx"), spec.clone());
    t
}

// ---------------------------------------------------------------- registers

fn perms(p: &Value) -> Permissions {
    match p {
        Value::String(s) if s == "anyone" => Permissions::new_anyone_can_write(),
        Value::Array(ws) => Permissions::new_with(ws.iter().map(|w| owner_pk(w.as_i64().unwrap()))),
        _ => Permissions::new_with(std::iter::empty()),
    }
}

/// {"id":e,"writer":w,"sig":"ok"|"junk","addr":[o,m]?,"size":n?}
fn reg_op(reg: &mut Registry, home: RegisterAddress, spec: &Value) -> RegisterOp {
    let addr = match spec.get("addr").and_then(|a| a.as_array()) {
        Some(a) => RegisterAddress::new(meta(a[1].as_i64().unwrap()), owner_pk(a[0].as_i64().unwrap())),
        None => home,
    };
    let mut entry = format!("verif-reg-entry-{}", spec["id"].as_i64().unwrap()).into_bytes();
    if let Some(sz) = spec.get("size").and_then(|v| v.as_u64()) {
        entry.resize(sz as usize, 0x2e);
    }
    let mut crdt = RegisterCrdt::new(addr);
    let (_h, _a, crdt_op) = crdt.write(entry, &BTreeSet::new()).expect("crdt write");
    let mut op = RegisterOp::new(addr, crdt_op, &owner_sk(spec["writer"].as_i64().unwrap()));
    if spec["sig"].as_str() == Some("junk") {
        let mut v = serde_json::to_value(&op).expect("op to json");
        v["signature"] = serde_json::to_value(owner_sk(77).sign(b"junk signature")).unwrap();
        op = serde_json::from_value(v).expect("forged op decodes");
    }
    reg.atoms.insert(serde_json::to_vec(&op).unwrap(), spec.clone());
    op
}

/// {"t":"reg","owner":o,"meta":m,"perm":..,"osig":"junk"|{"by":s},"ops":[..]}
pub fn register(reg: &mut Registry, spec: &Value) -> SignedRegister {
    let o = spec["owner"].as_i64().unwrap();
    let base = Register::new(owner_pk(o), meta(spec["meta"].as_i64().unwrap()), perms(&spec["perm"]));
    let sig = match &spec["osig"] {
        Value::String(_) => owner_sk(77).sign(b"junk signature"),
        s => owner_sk(s["by"].as_i64().unwrap()).sign(base.bytes().expect("reg bytes")),
    };
    let ops: BTreeSet<RegisterOp> = spec["ops"]
        .as_array()
        .map(|l| l.iter().map(|s| reg_op(reg, *base.address(), s)).collect())
        .unwrap_or_default();
    let sr = SignedRegister::new(base, sig, ops);
    let v = serde_json::to_value(&sr).unwrap();
    let base_spec = json!({"owner": spec["owner"], "meta": spec["meta"], "perm": spec["perm"], "osig": spec["osig"]});
    reg.atoms
        .insert(serde_json::to_vec(&json!([v["register"], v["signature"]])).unwrap(), base_spec);
    sr
}

// ---------------------------------------------------------------- proofs of payment

/// {"quotes":[{"claimed":p|-1,"pub":p|-1,"content":xorspec,"age":ms,"rew":r,
///             "sig":"ok"|"junk"|{"by":p}|{"content":xorspec}}]}
pub fn proof(reg: &mut Registry, spec: &Value, now: SystemTime) -> ProofOfPayment {
    let mut peer_quotes = vec![];
    for (qi, q) in spec["quotes"].as_array().unwrap().iter().enumerate() {
        let age = q["age"].as_i64().unwrap();
        let timestamp = if age >= 0 {
            now - Duration::from_millis(age as u64)
        } else {
            now + Duration::from_millis((-age) as u64)
        };
        let content = xor(reg, &q["content"]);
        let pubp = q["pub"].as_i64().unwrap();
        let quoting_metrics = QuotingMetrics {
            close_records_stored: 3 + qi,
            max_records: 16384,
            received_payment_count: qi,
            live_time: 100,
            network_density: None,
            network_size: Some(1000),
        };
        let rewards_address = rewards(q.get("rew").and_then(|v| v.as_i64()).unwrap_or(pubp.max(0)));
        let mut quote = PaymentQuote {
            content,
            timestamp,
            quoting_metrics,
            rewards_address,
            pub_key: if pubp < 0 {
                vec![1, 2, 3]
            } else {
                // "pubenc": the same key, re-encoded non-canonically (pub_key is not covered by the quote's
                // signature, and protobuf decoders accept unknown trailing fields / non-minimal varints)
                let mut pk = peer_kp(pubp).public().encode_protobuf();
                match q.get("pubenc").and_then(|v| v.as_str()) {
                    Some("trailing") => pk.extend_from_slice(&[0x18, 0x00]),
                    Some("trailing2") => pk.extend_from_slice(&[0x22, 0x02, 0xaa, 0xbb]),
                    Some("varint") => {
                        // 0x08 0x01 (Type = Ed25519) -> 0x08 0x81 0x00
                        if pk.len() > 2 && pk[0] == 0x08 {
                            let t = pk[1];
                            pk.splice(1..2, [t | 0x80, 0x00]);
                        }
                    }
                    Some("lenvarint") => {
                        // 0x12 0x20 (Data, 32 bytes) -> 0x12 0xa0 0x00
                        if pk.len() > 4 && pk[2] == 0x12 {
                            let l = pk[3];
                            pk.splice(3..4, [l | 0x80, 0x00]);
                        }
                    }
                    _ => {}
                }
                pk
            },
            signature: vec![],
        };
        quote.signature = match &q["sig"] {
            Value::String(s) if s == "ok" => peer_kp(pubp.max(0)).sign(&quote.bytes_for_sig()).unwrap(),
            Value::String(_) => vec![7u8; 64],
            s if s.get("by").is_some() => {
                peer_kp(s["by"].as_i64().unwrap()).sign(&quote.bytes_for_sig()).unwrap()
            }
            s => {
                let other = xor(reg, &s["content"]);
                let bytes = PaymentQuote::bytes_for_signing(
                    other,
                    quote.timestamp,
                    &quote.quoting_metrics,
                    &quote.rewards_address,
                );
                peer_kp(pubp.max(0)).sign(&bytes).unwrap()
            }
        };
        reg.quote_hashes.insert(hex::encode(quote.hash()), json!(qi));
        let claimed = q["claimed"].as_i64().unwrap();
        let enc: EncodedPeerId = if claimed < 0 {
            // EncodedPeerId is a newtype over Vec<u8>: forge undecodable bytes through serde
            rmp_serde::from_slice(&rmp_serde::to_vec(&vec![9u8, 9, 9]).unwrap()).expect("forged peer id")
        } else {
            EncodedPeerId::from(peer_id(claimed))
        };
        peer_quotes.push((enc, quote));
    }
    ProofOfPayment { peer_quotes }
}

// ---------------------------------------------------------------- records

pub fn header_bytes(tag: i64) -> Vec<u8> {
    if (0..128).contains(&tag) {
        vec![0x91, tag as u8]
    } else {
        vec![0xc1, 0xc1]
    }
}

fn body_bytes<T: Serialize>(proof: &Option<ProofOfPayment>, obj: &T) -> Vec<u8> {
    match proof {
        Some(p) => rmp_serde::to_vec(&(p, obj)).expect("body"),
        None => rmp_serde::to_vec(obj).expect("body"),
    }
}

/// value bytes of a record: header tag + body (with the proof in front when there is one)
pub fn value(reg: &mut Registry, hdr: i64, body: &Value, proof: &Option<ProofOfPayment>) -> Vec<u8> {
    let mut v = header_bytes(hdr);
    let b = match body["t"].as_str().unwrap() {
        "chunk" => body_bytes(proof, &Chunk::new(Bytes::from(content(reg, &body["c"])))),
        "rawchunk" => {
            let raw = raw_chunk_body(reg, body);
            match proof {
                Some(p) => [vec![0x92], rmp_serde::to_vec(p).expect("proof"), raw].concat(),
                None => raw,
            }
        }
        "pad" => body_bytes(proof, &pad(reg, body)),
        "tx" => body_bytes(proof, &tx(reg, body)),
        "txs" => {
            let l: Vec<Transaction> = body["list"].as_array().unwrap().iter().map(|t| tx(reg, t)).collect();
            body_bytes(proof, &l)
        }
        "reg" => body_bytes(proof, &register(reg, body)),
        "empty" => vec![],
        _ => {
            let n = body.get("n").and_then(|v| v.as_u64()).unwrap_or(5) as usize;
            vec![0xc1; n]
        }
    };
    v.extend_from_slice(&b);
    if body["t"].as_str() == Some("short") {
        v.truncate(2);
    }
    v
}

fn mp_bin(b: &[u8]) -> Vec<u8> {
    let mut v = if b.len() < 256 {
        vec![0xc4, b.len() as u8]
    } else if b.len() < 65536 {
        vec![0xc5, (b.len() >> 8) as u8, b.len() as u8]
    } else {
        let n = b.len() as u32;
        vec![0xc6, (n >> 24) as u8, (n >> 16) as u8, (n >> 8) as u8, n as u8]
    };
    v.extend_from_slice(b);
    v
}
fn mp_fixstr(s: &str) -> Vec<u8> {
    let mut v = vec![0xa0 | s.len() as u8];
    v.extend_from_slice(s.as_bytes());
    v
}

/// hand-built msgpack bodies for the chunk kinds: {"t":"rawchunk","shape":..,"addr":xorspec,"c":cid}
/// -- the claimed address travels next to the bytes in several encodings; "bare" is the honest form
fn raw_chunk_body(reg: &mut Registry, body: &Value) -> Vec<u8> {
    let bytes = content(reg, &body["c"]);
    let a = xor(reg, &body["addr"]);
    let addr_ints = rmp_serde::to_vec(&a).expect("xorname"); // what derive(Serialize) writes for an address
    let addr_bin = mp_bin(&a.0);
    let mut hexs = vec![0xd9, 64];
    hexs.extend_from_slice(hex::encode(a.0).as_bytes());
    let val = mp_bin(&bytes);
    match body["shape"].as_str().unwrap_or("bare") {
        "arr-ints" => [vec![0x92], addr_ints, val].concat(),
        "arr-bin" => [vec![0x92], addr_bin, val].concat(),
        "arr-hex" => [vec![0x92], hexs, val].concat(),
        "map-av" => [vec![0x82], mp_fixstr("address"), addr_ints, mp_fixstr("value"), val].concat(),
        "map-va" => [vec![0x82], mp_fixstr("value"), val, mp_fixstr("address"), addr_ints].concat(),
        _ => val,
    }
}

/// the bytes of a stored chunk record, read WITHOUT `Chunk`'s own serde impl (a tiny msgpack reader for
/// bare bin / [address, bin] / {address, value}): the oracle re-hashes exactly what is stored
pub fn stored_chunk_bytes(body: &[u8]) -> Option<Vec<u8>> {
    fn bin(b: &[u8]) -> Option<(Vec<u8>, usize)> {
        let (n, h) = match *b.first()? {
            0xc4 => (*b.get(1)? as usize, 2),
            0xc5 => (((*b.get(1)? as usize) << 8) | *b.get(2)? as usize, 3),
            0xc6 => (
                ((*b.get(1)? as usize) << 24) | ((*b.get(2)? as usize) << 16) | ((*b.get(3)? as usize) << 8) | *b.get(4)? as usize,
                5,
            ),
            _ => return None,
        };
        Some((b.get(h..h + n)?.to_vec(), h + n))
    }
    fn skip(b: &[u8]) -> Option<usize> {
        let m = *b.first()?;
        if let Some((_, n)) = bin(b) {
            return Some(n);
        }
        match m {
            0x00..=0x7f => Some(1),
            0xcc => Some(2),
            0xa0..=0xbf => Some(1 + (m & 0x1f) as usize),
            0xd9 => Some(2 + *b.get(1)? as usize),
            0x90..=0x9f | 0xdc => {
                let (cnt, mut off) = if m == 0xdc { (((*b.get(1)? as usize) << 8) | *b.get(2)? as usize, 3) } else { ((m & 0x0f) as usize, 1) };
                for _ in 0..cnt {
                    off += skip(b.get(off..)?)?;
                }
                Some(off)
            }
            _ => None,
        }
    }
    if let Some((v, _)) = bin(body) {
        return Some(v);
    }
    match *body.first()? {
        0x92 => {
            let off = 1 + skip(body.get(1..)?)?;
            bin(body.get(off..)?).map(|x| x.0)
        }
        0x82 => {
            let mut off = 1;
            for _ in 0..2 {
                let klen = skip(body.get(off..)?)?;
                let key = body.get(off + 1..off + klen)?.to_vec();
                off += klen;
                if key == b"value" {
                    return bin(body.get(off..)?).map(|x| x.0);
                }
                off += skip(body.get(off..)?)?;
            }
            None
        }
        _ => None,
    }
}

pub fn record(k: RecordKey, value: Vec<u8>) -> Record {
    Record { key: k, value, publisher: None, expires: None }
}

/// Map a stored record value back to the specs it was built from (byte equality only).
pub fn describe(reg: &Registry, value: &[u8]) -> Value {
    let raw = || json!({"t": "raw", "hex": hex::encode(&value[..value.len().min(48)]), "len": value.len()});
    let rec = record(RecordKey::new(&[0u8]), value.to_vec());
    let Ok(h) = RecordHeader::from_record(&rec) else { return raw() };
    let body = &value[RecordHeader::SIZE..];
    let tag = value[1];
    let atom = |b: &[u8]| reg.atoms.get(b).cloned().unwrap_or_else(|| json!({"unknown": hex::encode(&b[..b.len().min(24)])}));
    let _ = h;
    match tag {
        1 => match stored_chunk_bytes(body) {
            Some(b) => json!({"t": "chunk", "c": atom(&b), "sha3": hex::encode(XorName::from_content(&b).0)}),
            None => raw(),
        },
        5 => json!({"t": "pad", "pad": atom(body)}),
        2 => match rmp_serde::from_slice::<Vec<Transaction>>(body) {
            Ok(l) => json!({"t": "txs", "list": l.iter().map(|t| atom(&rmp_serde::to_vec(t).unwrap())).collect::<Vec<_>>() }),
            Err(_) => raw(),
        },
        3 => match rmp_serde::from_slice::<SignedRegister>(body) {
            Ok(r) => {
                let v = serde_json::to_value(&r).unwrap();
                let base = atom(&serde_json::to_vec(&json!([v["register"], v["signature"]])).unwrap());
                let ops: Vec<Value> = r.ops().iter().map(|op| atom(&serde_json::to_vec(op).unwrap())).collect();
                json!({"t": "reg", "base": base, "ops": ops})
            }
            Err(_) => raw(),
        },
        _ => raw(),
    }
}
