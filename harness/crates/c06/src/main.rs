//! C06 harness: drives the real ant-registers code (SignedRegister / RegisterOp / RegisterCrdt and,
//! through it, crdts::MerkleReg) on histories described by JSON cases.
//!
//! A case names its keys, base registers, DAG nodes and operations by small indices; the harness
//! builds the real objects (real BLS keys and signatures; forged operations are assembled through
//! a serde mirror of RegisterOp because its fields are crate-private), runs the steps and reports,
//! per step, the result code and the requested observations.  One JSON object per line in and out.
use ant_registers::{
    EntryHash, Error, Permissions, Register, RegisterAddress, RegisterCrdt, RegisterOp, SignedRegister,
};
use bls::{PublicKey, SecretKey, Signature};
use serde::{Deserialize, Serialize};
use serde_json::{json, Value};
use std::collections::hash_map::DefaultHasher;
use std::collections::{BTreeMap, BTreeSet};
use std::hash::{Hash, Hasher};
use std::io::{BufRead, Write};
use std::panic::{catch_unwind, AssertUnwindSafe};
use xor_name::XorName;

// serde mirrors (same field order and types as the real structs, hence the same encoding)
#[derive(Serialize, Deserialize, Clone, PartialEq, Eq, PartialOrd, Ord)]
struct MNode {
    children: BTreeSet<[u8; 32]>,
    value: Vec<u8>,
}
#[derive(Serialize, Deserialize, Clone)]
struct MOp {
    address: RegisterAddress,
    crdt_op: MNode,
    source: PublicKey,
    signature: Signature,
}
#[derive(Serialize, Deserialize, Clone)]
struct MSigned {
    register: MReg,
    signature: Signature,
    ops: BTreeSet<MOpOrd>,
}
#[derive(Serialize, Deserialize, Clone, PartialEq, Eq, PartialOrd, Ord)]
struct MOpOrd {
    address: RegisterAddress,
    crdt_op: MNode,
    source: PublicKey,
    signature: Signature,
}
#[derive(Serialize, Deserialize, Clone)]
struct MReg {
    address: RegisterAddress,
    permissions: Permissions,
}

fn recode<A: Serialize, B: for<'a> Deserialize<'a>>(a: &A) -> B {
    let bytes = rmp_serde::to_vec(a).expect("serialise");
    rmp_serde::from_slice(&bytes).expect("deserialise into the mirrored type")
}

struct World {
    sks: Vec<SecretKey>,
    pks: Vec<PublicKey>,
    junk_sk: SecretKey,
}

impl World {
    fn new(nkeys: usize) -> Self {
        let mut seed = [0u8; 32];
        seed[31] = 7;
        let root = SecretKey::from_bytes(seed).expect("valid scalar");
        let sks: Vec<SecretKey> = (0..nkeys).map(|i| root.derive_child(&(i as u64).to_be_bytes())).collect();
        let pks = sks.iter().map(|s| s.public_key()).collect();
        World { sks, pks, junk_sk: root.derive_child(b"junk") }
    }
    fn key_index(&self, pk: &PublicKey) -> u64 {
        self.pks.iter().position(|p| p == pk).map(|i| i as u64).unwrap_or(65535)
    }
    fn addr(&self, v: &Value) -> RegisterAddress {
        let m = v[0].as_u64().unwrap();
        let o = v[1].as_u64().unwrap() as usize;
        RegisterAddress::new(meta(m), self.pks[o])
    }
    fn junk(&self, j: u64) -> Signature {
        self.junk_sk.sign(j.to_be_bytes())
    }
}

fn meta(m: u64) -> XorName {
    let mut b = [0x5au8; 32];
    b[24..32].copy_from_slice(&m.to_be_bytes());
    XorName(b)
}

fn dangling(x: u64) -> [u8; 32] {
    let mut b = [0xeeu8; 32];
    b[0] = (x % 251) as u8; // spread over the hash order
    b[24..32].copy_from_slice(&x.to_be_bytes());
    b
}

/// the real Node for (children, value), obtained through the public write() of a scratch CRDT
fn real_op(addr: RegisterAddress, n: &MNode, sk: &SecretKey) -> (RegisterOp, [u8; 32]) {
    let mut c = RegisterCrdt::new(addr);
    let children: BTreeSet<EntryHash> = n.children.iter().map(|h| EntryHash(*h)).collect();
    let (h, a, node) = c.write(n.value.clone(), &children).expect("write");
    (RegisterOp::new(a, node, sk), h.0)
}

/// the digest RegisterOp::bytes_for_signing computes (replicated: that function is private); only
/// used for forged operations whose signer differs from the claimed source
fn digest(addr: &RegisterAddress, node_hash: &[u8; 32], source: &PublicKey) -> Vec<u8> {
    let mut hasher = DefaultHasher::new();
    addr.hash(&mut hasher);
    node_hash.hash(&mut hasher);
    source.hash(&mut hasher);
    hasher.finish().to_ne_bytes().to_vec()
}

fn code(e: &Error, w: &World) -> (u64, u64) {
    match e {
        Error::RegisterAddrMismatch { .. } => (1, 0),
        Error::EntryTooBig { size, .. } => (2, *size as u64),
        Error::AccessDenied(pk) => (3, w.key_index(pk)),
        Error::TooManyEntries(n) => (4, *n as u64),
        Error::DifferentBaseRegister => (5, 0),
        Error::InvalidSignature => (6, 0),
        Error::InvalidRegisterAddress { .. } => (7, 0),
        _ => (9, 0),
    }
}

fn res_json(r: Result<(), Error>, w: &World) -> Value {
    match r {
        Ok(()) => json!({"c": 0, "x": 0}),
        Err(e) => {
            let (c, x) = code(&e, w);
            json!({"c": c, "x": x})
        }
    }
}

fn bytes_of(v: &Value) -> Vec<u8> {
    if let Some(a) = v.as_array() {
        a.iter().map(|x| x.as_u64().unwrap() as u8).collect()
    } else {
        let r = v["rep"].as_array().unwrap();
        vec![r[1].as_u64().unwrap() as u8; r[0].as_u64().unwrap() as usize]
    }
}

struct Pools {
    nodes: Vec<MNode>,
    hashes: Vec<[u8; 32]>,
    ops: Vec<RegisterOp>,
    op_index: BTreeMap<Vec<u8>, usize>,
}

fn build_pools(case: &Value, w: &World) -> Pools {
    let mut nodes: Vec<MNode> = Vec::new();
    let mut hashes: Vec<[u8; 32]> = Vec::new();
    let scratch = RegisterAddress::new(meta(0), w.pks[0]);
    for n in case["nodes"].as_array().unwrap() {
        let mut children = BTreeSet::new();
        for c in n["children"].as_array().unwrap() {
            if let Some(i) = c.get("n").and_then(|x| x.as_u64()) {
                children.insert(hashes[i as usize]); // children refer to earlier nodes only
            } else {
                children.insert(dangling(c["x"].as_u64().unwrap()));
            }
        }
        let m = MNode { children, value: bytes_of(&n["val"]) };
        let (_, h) = real_op(scratch, &m, &w.sks[0]);
        nodes.push(m);
        hashes.push(h);
    }
    let mut ops = Vec::new();
    let mut op_index = BTreeMap::new();
    for (i, o) in case["ops"].as_array().unwrap_or(&vec![]).iter().enumerate() {
        let addr = w.addr(&o["addr"]);
        let ni = o["node"].as_u64().unwrap() as usize;
        let src = o["source"].as_u64().unwrap() as usize;
        let s = &o["sig"];
        let op: RegisterOp = if let Some(j) = s.get("junk").and_then(|x| x.as_u64()) {
            let (donor, _) = real_op(addr, &nodes[ni], &w.sks[src]);
            let mut m: MOp = recode(&donor);
            m.signature = w.junk(j);
            recode(&m)
        } else {
            let by = s["by"].as_u64().unwrap() as usize;
            let saddr = w.addr(&s["addr"]);
            let sni = s["node"].as_u64().unwrap() as usize;
            let ssrc = s["source"].as_u64().unwrap() as usize;
            if by == src && ssrc == src && saddr == addr && sni == ni {
                real_op(addr, &nodes[ni], &w.sks[src]).0 // RegisterOp::new, the honest path
            } else {
                let signature = if by == ssrc {
                    let (donor, _) = real_op(saddr, &nodes[sni], &w.sks[by]);
                    let m: MOp = recode(&donor);
                    m.signature
                } else {
                    w.sks[by].sign(digest(&saddr, &hashes[sni], &w.pks[ssrc]))
                };
                let m = MOp { address: addr, crdt_op: nodes[ni].clone(), source: w.pks[src], signature };
                recode(&m)
            }
        };
        op_index.entry(rmp_serde::to_vec(&op).unwrap()).or_insert(i);
        ops.push(op);
    }
    Pools { nodes, hashes, ops, op_index }
}

fn build_regs(case: &Value, w: &World) -> Vec<SignedRegister> {
    let specs = case["regs"].as_array().cloned().unwrap_or_default();
    let mut bases: Vec<Register> = Vec::new();
    for r in &specs {
        let owner = w.pks[r["owner"].as_u64().unwrap() as usize];
        let m = meta(r["meta"].as_u64().unwrap());
        let perms = match r["perms"].as_array() {
            None => Permissions::new_anyone_can_write(),
            Some(l) => Permissions::new_with(l.iter().map(|k| w.pks[k.as_u64().unwrap() as usize])),
        };
        let base = if r["raw"].as_bool().unwrap_or(false) {
            recode(&MReg { address: RegisterAddress::new(m, owner), permissions: perms })
        } else {
            Register::new(owner, m, perms)
        };
        bases.push(base);
    }
    let mut out = Vec::new();
    for (i, r) in specs.iter().enumerate() {
        let s = &r["sig"];
        let sig = if let Some(j) = s.get("junk").and_then(|x| x.as_u64()) {
            w.junk(j)
        } else {
            let by = s["by"].as_u64().unwrap() as usize;
            let over = s["reg"].as_u64().unwrap() as usize;
            w.sks[by].sign(bases[over].bytes().unwrap())
        };
        out.push(SignedRegister::new(bases[i].clone(), sig, BTreeSet::new()));
    }
    out
}

fn order_of(r: &SignedRegister, p: &Pools) -> Value {
    Value::Array(
        r.ops()
            .iter()
            .map(|o| match p.op_index.get(&rmp_serde::to_vec(o).unwrap()) {
                Some(i) => json!(*i),
                None => json!(-1),
            })
            .collect(),
    )
}

fn read_json(c: &RegisterCrdt) -> Value {
    Value::Array(c.read().iter().map(|(h, v)| json!([hex::encode(h.0), v])).collect())
}

fn crdt_state(c: &RegisterCrdt, p: &Pools) -> (Value, Value) {
    let mut dag: BTreeSet<[u8; 32]> = BTreeSet::new();
    for n in c.merkle_reg().all_nodes() {
        dag.insert(n.hash());
    }
    let mut orph: BTreeSet<[u8; 32]> = BTreeSet::new();
    for h in &p.hashes {
        if !dag.contains(h) && c.merkle_reg().node(*h).is_some() {
            orph.insert(*h);
        }
    }
    assert_eq!(dag.len(), c.merkle_reg().num_nodes());
    assert_eq!(orph.len(), c.merkle_reg().num_orphans(), "an orphan outside the case's node pool");
    (
        Value::Array(dag.iter().map(|h| json!(hex::encode(h))).collect()),
        Value::Array(orph.iter().map(|h| json!(hex::encode(h))).collect()),
    )
}

fn run(case: &Value) -> Value {
    let w = World::new(case["nkeys"].as_u64().unwrap_or(4) as usize);
    let p = build_pools(case, &w);
    let hashes: Vec<String> = p.hashes.iter().map(hex::encode).collect();
    let mut dang = serde_json::Map::new();
    for n in case["nodes"].as_array().unwrap() {
        for c in n["children"].as_array().unwrap() {
            if let Some(x) = c.get("x").and_then(|x| x.as_u64()) {
                dang.insert(x.to_string(), json!(hex::encode(dangling(x))));
            }
        }
    }
    let mut outs: Vec<Value> = Vec::new();
    match case["mode"].as_str().unwrap() {
        "hist" => {
            let regs = build_regs(case, &w);
            let mut reps: Vec<SignedRegister> = case["replicas"]
                .as_array()
                .unwrap()
                .iter()
                .map(|i| regs[i.as_u64().unwrap() as usize].clone())
                .collect();
            // replicas that arrive ready-made from the network: SignedRegister::new with any ops
            if let Some(init) = case["init_ops"].as_object() {
                for (slot, l) in init {
                    let i: usize = slot.parse().unwrap();
                    let ops: BTreeSet<RegisterOp> =
                        l.as_array().unwrap().iter().map(|x| p.ops[x.as_u64().unwrap() as usize].clone()).collect();
                    let m: MSigned = recode(&reps[i]);
                    reps[i] = SignedRegister::new(reps[i].base_register().clone(), m.signature, ops);
                }
            }
            for s in case["steps"].as_array().unwrap() {
                let kind = s[0].as_str().unwrap();
                let i = s[1].as_u64().unwrap() as usize;
                let o = match kind {
                    "add" => {
                        let op = p.ops[s[2].as_u64().unwrap() as usize].clone();
                        res_json(reps[i].add_op(op), &w)
                    }
                    "merge" => {
                        let other = reps[s[2].as_u64().unwrap() as usize].clone();
                        res_json(reps[i].merge(&other), &w)
                    }
                    "vmerge" => {
                        let other = reps[s[2].as_u64().unwrap() as usize].clone();
                        let mut v = res_json(reps[i].verified_merge(&other), &w);
                        v["order"] = order_of(&other, &p);
                        v
                    }
                    "clone" => {
                        reps[i] = reps[s[2].as_u64().unwrap() as usize].clone();
                        json!({"c": 0, "x": 0})
                    }
                    "verify" => {
                        let mut v = res_json(reps[i].verify(), &w);
                        v["order"] = order_of(&reps[i], &p);
                        v
                    }
                    "verify_addr" => {
                        let mut v = res_json(reps[i].verify_with_address(w.addr(&s[2])), &w);
                        v["order"] = order_of(&reps[i], &p);
                        v
                    }
                    "dump" => json!({"c": 0, "x": 0, "order": order_of(&reps[i], &p)}),
                    "client" => {
                        // what autonomi's register_get does with a fetched register
                        let mut crdt = RegisterCrdt::new(*reps[i].address());
                        let mut r = Ok(());
                        for op in reps[i].ops() {
                            if let Err(e) = crdt.apply_op(op.clone()) {
                                r = Err(e);
                                break;
                            }
                        }
                        let ok = r.is_ok();
                        let mut v = res_json(r, &w);
                        v["order"] = order_of(&reps[i], &p);
                        v["read"] = if ok { read_json(&crdt) } else { json!([]) };
                        v
                    }
                    other => json!({"error": format!("unknown step {other}")}),
                };
                outs.push(o);
            }
        }
        "crdt" => {
            let mut reps: Vec<RegisterCrdt> =
                case["crdts"].as_array().unwrap().iter().map(|a| RegisterCrdt::new(w.addr(a))).collect();
            for s in case["steps"].as_array().unwrap() {
                let kind = s[0].as_str().unwrap();
                let i = s[1].as_u64().unwrap() as usize;
                let mut v = match kind {
                    "apply" => {
                        let op = p.ops[s[2].as_u64().unwrap() as usize].clone();
                        res_json(reps[i].apply_op(op), &w)
                    }
                    "cmerge" => {
                        let other = reps[s[2].as_u64().unwrap() as usize].clone();
                        reps[i].merge(other);
                        json!({"c": 0, "x": 0})
                    }
                    other => json!({"error": format!("unknown step {other}")}),
                };
                let (dag, orph) = crdt_state(&reps[i], &p);
                v["dag"] = dag;
                v["orph"] = orph;
                v["read"] = read_json(&reps[i]);
                v["size"] = json!(reps[i].size());
                outs.push(v);
            }
        }
        other => return json!({"error": format!("unknown kind {other}")}),
    }
    json!({"hashes": hashes, "dangling": Value::Object(dang), "steps": outs})
}

fn main() {
    std::panic::set_hook(Box::new(|_| {}));
    let stdin = std::io::stdin();
    let out = std::io::stdout();
    let mut out = out.lock();
    for line in stdin.lock().lines() {
        let line = line.unwrap();
        if line.trim().is_empty() {
            continue;
        }
        let case: Value = serde_json::from_str(&line).unwrap();
        let res = catch_unwind(AssertUnwindSafe(|| run(&case))).unwrap_or_else(|p| {
            let msg = p
                .downcast_ref::<String>()
                .cloned()
                .or_else(|| p.downcast_ref::<&str>().map(|s| s.to_string()))
                .unwrap_or_default();
            json!({"panic": msg})
        });
        writeln!(out, "{res}").unwrap();
    }
}
