//! C20 harness.  For one option combination per stdin line:
//!  * runs the REAL `add_node` (=> `InstallNodeServiceCtxBuilder::build`) with a capturing
//!    `ServiceControl`, which yields the install-time `ServiceInstallCtx` and the registry record;
//!  * calls the REAL `NodeService::build_upgrade_install_context` on that record, with
//!    `UpgradeOptions` composed the way `cmd/node.rs::upgrade` composes them;
//!  * if ANTNODE_BIN is set, runs the REAL antnode binary (built from the same tree with the verif
//!    cfg; VERIF_DUMP_OPT makes it print the parsed `Opt` and exit) on both argument lists.
//! The temp base directory is replaced by `$B` in everything that is reported.
use ant_bootstrap::PeersArgs;
use ant_evm::{EvmNetwork, RewardsAddress};
use ant_logging::LogFormat;
use ant_node_manager::add_services::add_node;
use ant_node_manager::add_services::config::{AddNodeServiceOptions, PortRange};
use ant_node_manager::VerbosityLevel;
use ant_service_management::control::ServiceControl;
use ant_service_management::error::Result as SvcResult;
use ant_service_management::rpc::{NetworkInfo, NodeInfo, RecordAddress, RpcActions};
use ant_service_management::{NodeRegistry, NodeService, ServiceStateActions, UpgradeOptions};
use async_trait::async_trait;
use serde_json::{json, Value};
use service_manager::ServiceInstallCtx;
use std::io::{BufRead, Write};
use std::net::Ipv4Addr;
use std::panic::{catch_unwind, AssertUnwindSafe};
use std::path::{Path, PathBuf};
use std::str::FromStr;
use std::sync::{Arc, Mutex};
use std::time::Duration;

#[derive(Clone, Default)]
struct Capture(Arc<Mutex<Vec<(ServiceInstallCtx, bool)>>>, Arc<Mutex<bool>>);

impl ServiceControl for Capture {
    fn create_service_user(&self, _u: &str) -> SvcResult<()> {
        Ok(())
    }
    fn get_available_port(&self) -> SvcResult<u16> {
        Ok(40000)
    }
    fn install(&self, ctx: ServiceInstallCtx, user_mode: bool) -> SvcResult<()> {
        self.0.lock().unwrap().push((ctx, user_mode));
        Ok(())
    }
    fn get_process_pid(&self, p: &Path) -> SvcResult<u32> {
        if *self.1.lock().unwrap() {
            Ok(4242)
        } else {
            Err(ant_service_management::Error::ServiceProcessNotFound(p.to_string_lossy().to_string()))
        }
    }
    fn start(&self, _n: &str, _u: bool) -> SvcResult<()> {
        *self.1.lock().unwrap() = true;
        Ok(())
    }
    fn stop(&self, _n: &str, _u: bool) -> SvcResult<()> {
        *self.1.lock().unwrap() = false;
        Ok(())
    }
    fn uninstall(&self, _n: &str, _u: bool) -> SvcResult<()> {
        Ok(())
    }
    fn wait(&self, _d: u64) {}
}

/// the RPC endpoint of a running node: reports its pid, peer id and listen addresses (loopback first
/// when it listens on 0.0.0.0, as a real node does)
struct LiveRpc {
    ip: Option<String>,
    port: u16,
}
#[async_trait]
impl RpcActions for LiveRpc {
    async fn node_info(&self) -> SvcResult<NodeInfo> {
        Ok(NodeInfo {
            pid: 4242,
            peer_id: libp2p::PeerId::from_str("12D3KooWS2tpXGGTmg2AHFiDh57yPQnat49YHnyqoggzXZWpqkCR").unwrap(),
            log_path: PathBuf::new(),
            data_path: PathBuf::new(),
            version: "0.1.1".to_string(),
            uptime: Duration::from_secs(1),
            wallet_balance: 0,
        })
    }
    async fn network_info(&self) -> SvcResult<NetworkInfo> {
        let ips: Vec<String> = match &self.ip {
            Some(ip) => vec![ip.clone()],
            None => vec!["127.0.0.1".to_string(), "192.168.1.5".to_string()],
        };
        Ok(NetworkInfo {
            connected_peers: vec![libp2p::PeerId::from_str("12D3KooWS2tpXGGTmg2AHFiDh57yPQnat49YHnyqoggzXZWpqkCR").unwrap()],
            listeners: ips.iter().map(|ip| format!("/ip4/{ip}/udp/{}/quic-v1", self.port).parse().unwrap()).collect(),
        })
    }
    async fn record_addresses(&self) -> SvcResult<Vec<RecordAddress>> {
        Ok(vec![])
    }
    async fn node_restart(&self, _d: u64, _r: bool) -> SvcResult<()> {
        Ok(())
    }
    async fn node_stop(&self, _d: u64) -> SvcResult<()> {
        Ok(())
    }
    async fn node_update(&self, _d: u64) -> SvcResult<()> {
        Ok(())
    }
    async fn is_node_connected_to_network(&self, _t: Duration) -> SvcResult<()> {
        Ok(())
    }
    async fn update_log_level(&self, _l: String) -> SvcResult<()> {
        Ok(())
    }
}

struct NoRpc;
#[async_trait]
impl RpcActions for NoRpc {
    async fn node_info(&self) -> SvcResult<NodeInfo> {
        Err(ant_service_management::Error::RpcConnectionError("none".into()))
    }
    async fn network_info(&self) -> SvcResult<NetworkInfo> {
        Err(ant_service_management::Error::RpcConnectionError("none".into()))
    }
    async fn record_addresses(&self) -> SvcResult<Vec<RecordAddress>> {
        Ok(vec![])
    }
    async fn node_restart(&self, _d: u64, _r: bool) -> SvcResult<()> {
        Ok(())
    }
    async fn node_stop(&self, _d: u64) -> SvcResult<()> {
        Ok(())
    }
    async fn node_update(&self, _d: u64) -> SvcResult<()> {
        Ok(())
    }
    async fn is_node_connected_to_network(&self, _t: Duration) -> SvcResult<()> {
        Ok(())
    }
    async fn update_log_level(&self, _l: String) -> SvcResult<()> {
        Ok(())
    }
}

fn opt_u64(v: &Value) -> Option<u64> {
    v.as_u64()
}

fn opt_str(v: &Value) -> Option<String> {
    v.as_str().map(|s| s.to_string())
}

fn env_of(v: &Value) -> Option<Vec<(String, String)>> {
    v.as_array().map(|a| {
        a.iter()
            .map(|kv| (kv[0].as_str().unwrap().to_string(), kv[1].as_str().unwrap().to_string()))
            .collect()
    })
}

fn scrub(s: &str, base: &Path) -> String {
    s.replace(&*base.to_string_lossy(), "$B")
}

fn ctx_view(ctx: &ServiceInstallCtx, base: &Path) -> Value {
    json!({
        "args": ctx.args.iter().map(|a| scrub(&a.to_string_lossy(), base)).collect::<Vec<_>>(),
        "autostart": ctx.autostart,
        "env": ctx.environment,
        "label": ctx.label.to_qualified_name(),
        "program": scrub(&ctx.program.to_string_lossy(), base),
        "username": ctx.username,
        "contents": ctx.contents,
        "working_directory": ctx.working_directory.as_ref().map(|p| p.to_string_lossy().to_string()),
    })
}

/// "The internet" as the node sees it: a local HTTP proxy (antnode is run with HTTP(S)_PROXY pointing here) that
/// records the request line of everything the node tries to fetch and answers plain-http GETs with a list of
/// peers (`big` hosts get 120 of them, enough for the fetcher to stop early; the others 5).  CONNECT (https) is
/// recorded and refused.  Nothing ever leaves the machine.
struct Recorder {
    port: u16,
    seen: Arc<Mutex<Vec<String>>>,
}

fn start_recorder() -> Recorder {
    use std::io::{Read, Write as _};
    let listener = std::net::TcpListener::bind("127.0.0.1:0").unwrap();
    let port = listener.local_addr().unwrap().port();
    let seen: Arc<Mutex<Vec<String>>> = Arc::new(Mutex::new(vec![]));
    let peers: Vec<String> = (0..120)
        .map(|i| format!("/ip4/203.0.113.{}/udp/{}/quic-v1/p2p/{}", i % 250 + 1, 4000 + i, libp2p_identity::PeerId::random()))
        .collect();
    let seen2 = seen.clone();
    std::thread::spawn(move || {
        for conn in listener.incoming() {
            let Ok(mut conn) = conn else { continue };
            let seen = seen2.clone();
            let peers = peers.clone();
            std::thread::spawn(move || {
                let _ = conn.set_read_timeout(Some(Duration::from_secs(5)));
                let mut buf = Vec::new();
                let mut chunk = [0u8; 1024];
                while !buf.windows(4).any(|w| w == b"\r\n\r\n") {
                    match conn.read(&mut chunk) {
                        Ok(0) | Err(_) => break,
                        Ok(n) => buf.extend_from_slice(&chunk[..n]),
                    }
                }
                let head = String::from_utf8_lossy(&buf).to_string();
                let line = head.lines().next().unwrap_or("").to_string();
                if line.is_empty() {
                    return;
                }
                seen.lock().unwrap().push(line.clone());
                let resp = if line.starts_with("CONNECT") {
                    "HTTP/1.1 502 Bad Gateway\r\nContent-Length: 0\r\nConnection: close\r\n\r\n".to_string()
                } else {
                    let n = if line.contains("bootstrap_cache.json") || line.contains("network-contacts") { 120 } else { 5 };
                    let body = peers[..n].join("\n");
                    format!("HTTP/1.1 200 OK\r\nContent-Type: text/plain\r\nContent-Length: {}\r\nConnection: close\r\n\r\n{}", body.len(), body)
                };
                let _ = conn.write_all(resp.as_bytes());
                let _ = conn.flush();
            });
        }
    });
    Recorder { port, seen }
}

fn list_files(dir: &Path, base: &Path, out: &mut Vec<String>) {
    if let Ok(rd) = std::fs::read_dir(dir) {
        for e in rd.flatten() {
            let p = e.path();
            if p.is_dir() {
                list_files(&p, base, out);
            } else {
                out.push(scrub(&p.to_string_lossy(), base));
            }
        }
    }
}

/// Runs antnode on the argument list with the verification hook in `effects` mode: it prints the parsed
/// options, performs its real start-up up to the first bootstrap-cache flush (root dir + key, logging,
/// cache store) with HOME pointing into the scratch directory, and exits.  Reports exit status, the dump
/// and every file that exists under the scratch directory afterwards.
fn run_antnode(bin: &str, ctx: &ServiceInstallCtx, base: &Path, rec: &Recorder) -> Value {
    // remove what a previous run on this scratch directory left behind
    let _ = std::fs::remove_dir_all(base.join("home"));
    let _ = std::fs::remove_dir_all(base.join("logs"));
    let _ = std::fs::remove_file(base.join("data").join("antnode1").join("secret-key"));
    if let Ok(rd) = std::fs::read_dir(base) {
        for e in rd.flatten() {
            let name = e.file_name().to_string_lossy().to_string();
            if name.starts_with("cache") {
                let _ = std::fs::remove_dir_all(e.path());
            }
        }
    }
    rec.seen.lock().unwrap().clear();
    let proxy = format!("http://127.0.0.1:{}", rec.port);
    let out = std::process::Command::new(bin)
        .args(&ctx.args)
        // `contacts`: parsed options, start-up effects, then the initial peers gathered from the peers arguments
        .env("VERIF_DUMP_OPT", "contacts")
        .env("HTTP_PROXY", &proxy)
        .env("http_proxy", &proxy)
        .env("HTTPS_PROXY", &proxy)
        .env("https_proxy", &proxy)
        .env("ALL_PROXY", &proxy)
        .env_remove("NO_PROXY")
        .env_remove("no_proxy")
        .env("HOME", base.join("home"))
        .env_remove("XDG_DATA_HOME")
        .env_remove("ANT_PEERS")
        .env_remove("EVM_NETWORK")
        .env_remove("RPC_URL")
        .env_remove("PAYMENT_TOKEN_ADDRESS")
        .env_remove("DATA_PAYMENTS_ADDRESS")
        // the environment of the service definition is part of what the manager writes
        .envs(ctx.environment.clone().unwrap_or_default())
        .output();
    let mut files = vec![];
    list_files(base, base, &mut files);
    files.sort();
    match out {
        Ok(o) => json!({
            "code": o.status.code(),
            "dump": scrub(&String::from_utf8_lossy(&o.stdout), base),
            "stderr": scrub(&String::from_utf8_lossy(&o.stderr).chars().take(1500).collect::<String>(), base),
            "files": files,
            "requests": rec.seen.lock().unwrap().clone(),
        }),
        Err(e) => json!({ "code": -1, "dump": "", "stderr": format!("spawn failed: {e}"), "files": files }),
    }
}

async fn run_case(case: &Value, base: &Path, antnode: Option<&str>, rec: &Recorder) -> Value {
    std::fs::create_dir_all(base).unwrap();
    let data = base.join("data");
    let logs = base.join("logs");
    let src = base.join("antnode");
    std::fs::write(&src, b"fake antnode bin").unwrap();
    let p = &case["peers"];
    let peers_args = PeersArgs {
        first: p["first"].as_bool().unwrap_or(false),
        addrs: p["addrs"].as_array().map(|a| a.iter().map(|x| x.as_str().unwrap().parse().unwrap()).collect()).unwrap_or_default(),
        network_contacts_url: p["urls"].as_array().map(|a| a.iter().map(|x| x.as_str().unwrap().to_string()).collect()).unwrap_or_default(),
        local: p["local"].as_bool().unwrap_or(false),
        disable_mainnet_contacts: p["testnet"].as_bool().unwrap_or(false),
        ignore_cache: p["ignore_cache"].as_bool().unwrap_or(false),
        bootstrap_cache_dir: opt_str(&p["cache_dir"]).map(|s| PathBuf::from(s.replace("$B", &base.to_string_lossy()))),
    };
    let evm_network = match &case["evm"] {
        Value::String(s) if s == "sepolia" => EvmNetwork::ArbitrumSepolia,
        Value::Object(o) => EvmNetwork::new_custom(
            o["url"].as_str().unwrap(),
            o["token"].as_str().unwrap(),
            o["payments"].as_str().unwrap(),
        ),
        _ => EvmNetwork::ArbitrumOne,
    };
    let log_format = match case["log_format"].as_str() {
        Some(s) => Some(LogFormat::parse_from_str(s).unwrap()),
        None => None,
    };
    let options = AddNodeServiceOptions {
        antnode_dir_path: data.clone(),
        antnode_src_path: src.clone(),
        auto_restart: case["auto_restart"].as_bool().unwrap_or(false),
        auto_set_nat_flags: false,
        count: None,
        delete_antnode_src: false,
        enable_metrics_server: case["enable_metrics"].as_bool().unwrap_or(false),
        env_variables: env_of(&case["env"]),
        evm_network,
        home_network: case["home"].as_bool().unwrap_or(false),
        log_format,
        max_archived_log_files: opt_u64(&case["max_arch"]).map(|x| x as usize),
        max_log_files: opt_u64(&case["max_log"]).map(|x| x as usize),
        metrics_port: opt_u64(&case["metrics_port"]).map(|x| PortRange::Single(x as u16)),
        network_id: opt_u64(&case["network_id"]).map(|x| x as u8),
        node_ip: opt_str(&case["ip"]).map(|s| Ipv4Addr::from_str(&s).unwrap()),
        node_port: opt_u64(&case["node_port"]).map(|x| PortRange::Single(x as u16)),
        owner: opt_str(&case["owner"]),
        peers_args,
        rewards_address: RewardsAddress::from_str(case["rewards"].as_str().unwrap()).unwrap(),
        rpc_address: opt_str(&case["rpc_ip"]).map(|s| Ipv4Addr::from_str(&s).unwrap()),
        rpc_port: opt_u64(&case["rpc_port"]).map(|x| PortRange::Single(x as u16)),
        service_data_dir_path: data.clone(),
        service_log_dir_path: logs.clone(),
        upnp: case["upnp"].as_bool().unwrap_or(false),
        user: opt_str(&case["user"]),
        user_mode: case["user_mode"].as_bool().unwrap_or(false),
        version: "0.1.1".to_string(),
    };
    let mut reg = NodeRegistry::load(&base.join("node_registry.json")).unwrap();
    let cap = Capture::default();
    if let Err(e) = add_node(options, &mut reg, &cap, VerbosityLevel::Minimal).await {
        return json!({ "add_error": e.to_string() });
    }
    let (install_ctx, install_user_mode) = cap.0.lock().unwrap()[0].clone();
    // what a later `antctl upgrade` sees: the registry as saved and reloaded
    reg.save().unwrap();
    let mut reg = NodeRegistry::load(&base.join("node_registry.json")).unwrap();
    let life: Vec<String> = case["lifecycle"].as_array().map(|a| a.iter().map(|x| x.as_str().unwrap().to_string()).collect()).unwrap_or_default();
    if life.is_empty() {
        if let Some(port) = opt_u64(&case["observed_port"]) {
            // NodeService::on_start records the port the node is observed to listen on
            reg.nodes[0].node_port = Some(port as u16);
        }
    }
    // the service's life between installation and upgrade: real ServiceManager::start / stop and
    // refresh_node_registry against a node whose RPC reports pid, peer id and listeners; the registry is
    // saved and reloaded after every step, as the antctl commands do
    let listen_port = opt_u64(&case["observed_port"]).or(opt_u64(&case["node_port"])).unwrap_or(45000) as u16;
    for step in &life {
        match step.as_str() {
            "start" | "stop" => {
                let node = &mut reg.nodes[0];
                let rpc = LiveRpc { ip: opt_str(&case["ip"]), port: listen_port };
                let service = NodeService::new(node, Box::new(rpc));
                let mut m = ant_node_manager::ServiceManager::new(service, Box::new(cap.clone()), VerbosityLevel::Minimal);
                let r = if step == "start" { m.start().await } else { m.stop().await };
                if let Err(e) = r {
                    return json!({ "lifecycle_error": format!("{step}: {e}") });
                }
            }
            "refresh" => {
                if let Err(e) = ant_node_manager::refresh_node_registry(&mut reg, &cap, false, false, false).await {
                    return json!({ "lifecycle_error": format!("refresh: {e}") });
                }
            }
            other => panic!("unknown lifecycle step {other}"),
        }
        reg.save().unwrap();
        reg = NodeRegistry::load(&base.join("node_registry.json")).unwrap();
    }
    // cmd/node.rs::upgrade: env = the ones provided with the upgrade, else the registry-wide ones;
    // auto_restart is the literal the command passes
    let provided = env_of(&case["upgrade_env"]);
    let env_variables = if provided.is_some() { provided } else { reg.environment_variables.clone() };
    let options = UpgradeOptions {
        auto_restart: case["cli_upgrade_auto_restart"].as_bool().unwrap_or(false),
        env_variables,
        force: case["force"].as_bool().unwrap_or(false),
        start_service: case["start_service"].as_bool().unwrap_or(true),
        target_bin_path: src.clone(),
        target_version: semver::Version::new(0, 1, 2),
    };
    let node = &mut reg.nodes[0];
    let recorded = json!({
        "service_name": node.service_name, "auto_restart": node.auto_restart, "user": node.user, "user_mode": node.user_mode,
        "rewards": node.rewards_address.to_string(), "owner": node.owner,
        "evm": match &node.evm_network {
            EvmNetwork::Custom(c) => json!({"url": c.rpc_url_http.to_string(), "token": c.payment_token_address.to_string(),
                                             "payments": c.data_payments_address.to_string()}),
            other => json!(other.to_string()),
        },
        "rpc": node.rpc_socket_addr.to_string(), "data_dir": scrub(&node.data_dir_path.to_string_lossy(), base),
        "log_dir": scrub(&node.log_dir_path.to_string_lossy(), base), "bin": scrub(&node.antnode_path.to_string_lossy(), base),
        "metrics_port": node.metrics_port, "node_port": node.node_port,
    });
    // the definition ServiceManager::upgrade ACTUALLY hands to ServiceControl::install (recorded by `cap`),
    // not the output of build_upgrade_install_context alone
    let rpc = LiveRpc { ip: opt_str(&case["ip"]), port: listen_port };
    let service = NodeService::new(node, Box::new(rpc));
    let upgrade_user_mode = service.is_user_mode();
    let installs_before = cap.0.lock().unwrap().len();
    let mut m = ant_node_manager::ServiceManager::new(service, Box::new(cap.clone()), VerbosityLevel::Minimal);
    let upgrade_result = match m.upgrade(options).await {
        Ok(r) => format!("{r:?}"),
        Err(e) => return json!({ "upgrade_error": e.to_string() }),
    };
    let upgrade_ctx = {
        let installs = cap.0.lock().unwrap();
        if installs.len() != installs_before + 1 {
            return json!({ "upgrade_error": format!("upgrade ({upgrade_result}) installed {} definitions", installs.len() - installs_before) });
        }
        installs[installs.len() - 1].0.clone()
    };
    let mut res = json!({
        "install": ctx_view(&install_ctx, base), "upgrade": ctx_view(&upgrade_ctx, base),
        "install_user_mode": install_user_mode, "upgrade_user_mode": upgrade_user_mode, "recorded": recorded,
        "upgrade_result": upgrade_result,
    });
    if let Some(bin) = antnode {
        res["antnode"] = json!({ "install": run_antnode(bin, &install_ctx, base, rec), "upgrade": run_antnode(bin, &upgrade_ctx, base, rec) });
    }
    res
}

fn main() {
    std::panic::set_hook(Box::new(|_| {}));
    let rt = tokio::runtime::Builder::new_current_thread().enable_all().build().unwrap();
    // unique even when several checks run at once in different pid namespaces sharing the scratch dir
    let nanos = std::time::SystemTime::now().duration_since(std::time::UNIX_EPOCH).map(|d| d.as_nanos()).unwrap_or(0);
    let root = std::env::temp_dir().join(format!("verif-c20-{}-{nanos}", std::process::id()));
    let antnode = std::env::var("ANTNODE_BIN").ok().filter(|s| !s.is_empty());
    let rec = start_recorder();
    let stdin = std::io::stdin();
    let out = std::io::stdout();
    let mut n = 0u64;
    for line in stdin.lock().lines() {
        let line = line.unwrap();
        if line.trim().is_empty() {
            continue;
        }
        let case: Value = serde_json::from_str(&line).unwrap();
        n += 1;
        let base = root.join(format!("c{n}"));
        let res = catch_unwind(AssertUnwindSafe(|| rt.block_on(run_case(&case, &base, antnode.as_deref(), &rec)))).unwrap_or_else(|p| {
            let msg = p
                .downcast_ref::<String>()
                .cloned()
                .or_else(|| p.downcast_ref::<&str>().map(|s| s.to_string()))
                .unwrap_or_default();
            json!({ "panic": msg })
        });
        let _ = std::fs::remove_dir_all(&base);
        let mut o = out.lock();
        writeln!(o, "{res}").unwrap();
    }
    let _ = std::fs::remove_dir_all(&root);
}
