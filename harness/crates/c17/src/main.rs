//! C17 harness: drives the repository's real parsers of untrusted text / bytes under `catch_unwind`.
//! One JSON object per input line, one per output line.  Every op reports, next to the result of the
//! repository function, the answers of the third-party oracles the Coq model is parametric in
//! (hex-decoded length, BLS key validity, AEAD opening, Multiaddr parse, serde decoders), obtained by
//! calling the third-party function directly.
use serde_json::{json, Value};
use std::io::{BufRead, Write};
use std::panic::{catch_unwind, AssertUnwindSafe};
use std::str::FromStr;
use std::time::{Duration, SystemTime, UNIX_EPOCH};

// ant-cli is a binary crate: its wallet encryption module (and the error type it imports through
// `crate::wallet::error::Error`) are compiled into the harness from the repository's source files.
mod wallet {
    #[path = "/repo/ant-cli/src/wallet/error.rs"]
    pub mod error;
    #[path = "/repo/ant-cli/src/wallet/encryption.rs"]
    pub mod encryption;
}
use wallet::encryption::{decrypt_private_key, encrypt_private_key};

use ant_bootstrap::{craft_valid_multiaddr_from_str, BootstrapCacheConfig, BootstrapCacheStore, PeersArgs};
use ant_evm::{AttoTokens, EvmError};
use ant_node_manager::add_services::config::PortRange;
use ant_evm::ProofOfPayment;
use ant_node_manager::helpers::{check_port_availability, get_start_port_if_applicable, increment_port_option};
use ant_protocol::storage::{
    try_deserialize_record, try_serialize_record, Chunk, RecordHeader, RecordKind, Scratchpad, ScratchpadAddress, Transaction,
};
use ant_registers::{RegisterAddress, SignedRegister};
use ant_service_management::{NodeRegistry, NodeServiceData};
use autonomi::client::address::{addr_to_str, str_to_addr, DataError};
use autonomi::client::data::DataMapChunk;
use libp2p::multiaddr::Protocol;
use libp2p::Multiaddr;
use rand::{rngs::StdRng, Rng, SeedableRng};
use xor_name::XorName;

fn bytes_of(v: &Value) -> Vec<u8> {
    v.as_array().unwrap().iter().map(|x| x.as_u64().unwrap() as u8).collect()
}

fn input_string(case: &Value) -> String {
    if let Some(s) = case.get("s").and_then(|s| s.as_str()) {
        s.to_string()
    } else {
        String::from_utf8(bytes_of(&case["bytes"])).expect("generator only emits valid UTF-8 for &str APIs")
    }
}

fn pk_from_seed(seed: u64) -> bls::PublicKey {
    let mut rng = StdRng::seed_from_u64(seed);
    let sk: bls::SecretKey = rng.gen();
    sk.public_key()
}

pub fn protos(a: &Multiaddr) -> Value {
    Value::Array(
        a.iter()
            .map(|p| match p {
                Protocol::Ip4(ip) => json!(["ip4", u32::from(ip)]),
                Protocol::Udp(p) => json!(["udp", p]),
                Protocol::Tcp(p) => json!(["tcp", p]),
                Protocol::QuicV1 => json!(["quic-v1"]),
                Protocol::Ws(path) => json!(["ws", path.as_bytes().to_vec()]),
                Protocol::P2p(id) => json!(["p2p", hex::encode(id.to_bytes())]),
                other => json!(["other", other.to_string().into_bytes()]),
            })
            .collect(),
    )
}

fn sealed_hex(pt: &[u8], pw: &[u8], salt: &[u8], nonce: &[u8; 12]) -> String {
    use ring::aead::{Aad, LessSafeKey, Nonce, UnboundKey, CHACHA20_POLY1305};
    let mut key = [0u8; 32];
    ring::pbkdf2::derive(
        ring::pbkdf2::PBKDF2_HMAC_SHA512,
        std::num::NonZeroU32::new(100_000).unwrap(),
        salt,
        pw,
        &mut key,
    );
    let k = LessSafeKey::new(UnboundKey::new(&CHACHA20_POLY1305, &key).unwrap());
    let mut buf = pt.to_vec();
    k.seal_in_place_append_tag(Nonce::assume_unique_for_key(*nonce), Aad::empty(), &mut buf).unwrap();
    let mut all = salt.to_vec();
    all.extend_from_slice(nonce);
    all.extend_from_slice(&buf);
    hex::encode(all)
}

/// the AEAD oracle: what ring says about (salt, nonce, ciphertext) under the password, independent of
/// the repository code.  Only defined when at least 20 bytes were decoded.
fn open_oracle(data: &[u8], pw: &[u8]) -> Value {
    use ring::aead::{Aad, LessSafeKey, Nonce, UnboundKey, CHACHA20_POLY1305};
    if data.len() < 20 {
        return Value::Null;
    }
    let mut key = [0u8; 32];
    ring::pbkdf2::derive(
        ring::pbkdf2::PBKDF2_HMAC_SHA512,
        std::num::NonZeroU32::new(100_000).unwrap(),
        &data[..8],
        pw,
        &mut key,
    );
    let k = LessSafeKey::new(UnboundKey::new(&CHACHA20_POLY1305, &key).unwrap());
    let mut nonce = [0u8; 12];
    nonce.copy_from_slice(&data[8..20]);
    let mut buf = data[20..].to_vec();
    match k.open_in_place(Nonce::assume_unique_for_key(nonce), Aad::empty(), &mut buf) {
        Ok(pt) => json!({"pt": pt.to_vec()}),
        Err(_) => json!("fail"),
    }
}

fn decrypt_report(data: &str, pw: &str) -> Value {
    let decoded = hex::decode(data).ok();
    let oracle = decoded.as_ref().map(|d| open_oracle(d, pw.as_bytes())).unwrap_or(Value::Null);
    let dec_len = decoded.as_ref().map(|d| d.len());
    match decrypt_private_key(data, pw) {
        Ok(s) => json!({"r": "ok", "out": s.into_bytes(), "dec_len": dec_len, "opened": oracle}),
        Err(e) => json!({"r": "err", "msg": e.to_string(), "dec_len": dec_len, "opened": oracle}),
    }
}

fn port_json(p: &PortRange) -> Value {
    match p {
        PortRange::Single(p) => json!({"r": "single", "a": p, "b": p}),
        PortRange::Range(a, b) => json!({"r": "range", "a": a, "b": b}),
    }
}

fn cache_cfg(case: &Value, path: &std::path::Path) -> BootstrapCacheConfig {
    BootstrapCacheConfig::empty()
        .with_cache_path(path)
        .with_max_peers(case["max_peers"].as_u64().unwrap_or(1500) as usize)
        .with_addrs_per_peer(case["max_addrs"].as_u64().unwrap_or(6) as usize)
        .with_addr_expiry_duration(Duration::from_secs(case["expiry_secs"].as_u64().unwrap_or(86400)))
}

/// replaces every `@S<signed offset>@` by (now_secs + offset)
fn substitute_now(content: &str, now_secs: u64) -> String {
    let mut out = String::new();
    let mut rest = content;
    while let Some(i) = rest.find("@S") {
        out.push_str(&rest[..i]);
        let tail = &rest[i + 2..];
        if let Some(j) = tail.find('@') {
            if let Ok(off) = tail[..j].parse::<i64>() {
                out.push_str(&((now_secs as i64 + off).max(0)).to_string());
                rest = &tail[j + 1..];
                continue;
            }
        }
        out.push_str("@S");
        rest = tail;
    }
    out.push_str(rest);
    out
}

fn run(case: &Value) -> Value {
    match case["op"].as_str().unwrap() {
        // ------------------------------------------------------------------ hex addresses
        "reg_from_hex" => {
            let s = input_string(case);
            let decoded = hex::decode(&s).ok();
            let dec_len = decoded.as_ref().map(|d| d.len());
            let pk_ok = decoded.as_ref().and_then(|d| {
                if d.len() == 80 {
                    let mut b = [0u8; 48];
                    b.copy_from_slice(&d[32..]);
                    Some(bls::PublicKey::from_bytes(b).is_ok())
                } else {
                    None
                }
            });
            match RegisterAddress::from_hex(&s) {
                Ok(a) => json!({"r": "ok", "hex": a.to_hex(), "dec_len": dec_len, "pk_ok": pk_ok}),
                Err(_) => json!({"r": "err", "dec_len": dec_len, "pk_ok": pk_ok}),
            }
        }
        "reg_roundtrip" => {
            let mut meta = [0u8; 32];
            meta.copy_from_slice(&hex::decode(case["meta"].as_str().unwrap()).unwrap());
            let pk = pk_from_seed(case["seed"].as_u64().unwrap());
            let a = RegisterAddress::new(XorName(meta), pk);
            let h = a.to_hex();
            let shown = format!("{a}");
            let back = RegisterAddress::from_hex(&h);
            json!({"hex": h, "display": shown, "pk": hex::encode(pk.to_bytes()),
                   "back": matches!(back, Ok(b) if b == a)})
        }
        "scratch_from_hex" => {
            let s = input_string(case);
            let decoded = hex::decode(&s).ok();
            let dec_len = decoded.as_ref().map(|d| d.len());
            let pk_ok = decoded.as_ref().and_then(|d| {
                if d.len() == 48 {
                    let mut b = [0u8; 48];
                    b.copy_from_slice(d);
                    Some(bls::PublicKey::from_bytes(b).is_ok())
                } else {
                    None
                }
            });
            match ScratchpadAddress::from_hex(&s) {
                Ok(a) => json!({"r": "ok", "hex": a.to_hex(), "dec_len": dec_len, "pk_ok": pk_ok}),
                Err(_) => json!({"r": "err", "dec_len": dec_len, "pk_ok": pk_ok}),
            }
        }
        "scratch_roundtrip" => {
            let pk = pk_from_seed(case["seed"].as_u64().unwrap());
            let a = ScratchpadAddress::new(pk);
            let h = a.to_hex();
            let back = ScratchpadAddress::from_hex(&h);
            json!({"hex": h, "pk": hex::encode(pk.to_bytes()), "back": matches!(back, Ok(b) if b == a)})
        }
        "str_to_addr" => match str_to_addr(&input_string(case)) {
            Ok(x) => json!({"r": "ok", "hex": hex::encode(x.0)}),
            Err(DataError::InvalidHexString) => json!({"r": "err", "code": 1}),
            Err(DataError::InvalidXorName) => json!({"r": "err", "code": 2}),
        },
        "addr_roundtrip" => {
            let mut x = [0u8; 32];
            x.copy_from_slice(&hex::decode(case["x"].as_str().unwrap()).unwrap());
            let s = addr_to_str(XorName(x));
            let back = str_to_addr(&s);
            json!({"hex": s, "back": matches!(back, Ok(b) if b == XorName(x))})
        }
        "datamap_from_hex" => match DataMapChunk::from_hex(&input_string(case)) {
            Ok(d) => json!({"r": "ok", "hex": d.to_hex()}),
            Err(_) => json!({"r": "err"}),
        },
        "datamap_roundtrip" => {
            let data = bytes_of(&case["data"]);
            let d = DataMapChunk::from(autonomi::Chunk::new(bytes::Bytes::from(data)));
            let h = d.to_hex();
            let back = DataMapChunk::from_hex(&h);
            json!({"hex": h, "back": matches!(back, Ok(b) if b == d)})
        }
        // ------------------------------------------------------------------ encrypted wallet keys
        "decrypt" => {
            let pw = String::from_utf8(bytes_of(&case["pw"])).unwrap();
            decrypt_report(&input_string(case), &pw)
        }
        "decrypt_sealed" => {
            // a blob sealed with the same KDF/AEAD parameters as encrypt_private_key, but for arbitrary
            // plaintext bytes (encrypt_private_key itself only takes &str)
            let pw = String::from_utf8(bytes_of(&case["pw"])).unwrap();
            let salt = bytes_of(&case["salt"]);
            let mut nonce = [0u8; 12];
            nonce.copy_from_slice(&bytes_of(&case["nonce"]));
            let data = sealed_hex(&bytes_of(&case["pt"]), pw.as_bytes(), &salt, &nonce);
            let mut r = decrypt_report(&data, &pw);
            r["data"] = json!(data);
            r
        }
        "encrypt_roundtrip" => {
            let key = String::from_utf8(bytes_of(&case["key"])).unwrap();
            let pw = String::from_utf8(bytes_of(&case["pw"])).unwrap();
            match encrypt_private_key(&key, &pw) {
                Ok(enc) => {
                    let mut r = decrypt_report(&enc, &pw);
                    r["data"] = json!(enc);
                    r
                }
                Err(e) => json!({"r": "encrypt-err", "msg": e.to_string()}),
            }
        }
        // ------------------------------------------------------------------ ports
        "port_parse" => match PortRange::parse(&input_string(case)) {
            Ok(p) => port_json(&p),
            Err(_) => json!({"r": "err"}),
        },
        "port_validate" => match PortRange::parse(&input_string(case)) {
            Ok(p) => {
                let mut j = port_json(&p);
                j["v"] = json!(p.validate(case["count"].as_u64().unwrap() as u16).is_ok());
                j
            }
            Err(_) => json!({"r": "err"}),
        },
        "incr_port" => {
            let p = case["p"].as_u64().map(|p| p as u16);
            json!({"r": increment_port_option(p)})
        }
        // consumers of a PortRange: check_port_availability against the ports recorded for existing services,
        // get_start_port_if_applicable
        "port_avail" => {
            let range = if let Some(s) = case.get("bytes") {
                let _ = s;
                match PortRange::parse(&input_string(case)) {
                    Ok(r) => r,
                    Err(_) => return json!({"r": "parse-err"}),
                }
            } else if let Some(p) = case.get("single").and_then(|p| p.as_u64()) {
                PortRange::Single(p as u16)
            } else {
                PortRange::Range(case["range"][0].as_u64().unwrap() as u16, case["range"][1].as_u64().unwrap() as u16)
            };
            // service records: the generator's seed node with the three port fields replaced
            let Ok(seed) = serde_json::from_str::<NodeServiceData>(case["node_json"].as_str().unwrap()) else {
                return json!({"r": "seed-rejected"});
            };
            let nodes: Vec<NodeServiceData> = case["nodes"]
                .as_array()
                .unwrap()
                .iter()
                .map(|t| {
                    let mut n = seed.clone();
                    n.metrics_port = t[0].as_u64().map(|p| p as u16);
                    n.node_port = t[1].as_u64().map(|p| p as u16);
                    n.rpc_socket_addr.set_port(t[2].as_u64().unwrap() as u16);
                    n
                })
                .collect();
            let start = get_start_port_if_applicable(Some(range.clone()));
            let mut j = port_json(&range);
            j["avail"] = json!(check_port_availability(&range, &nodes).is_ok());
            j["start"] = json!(start);
            j
        }
        // ------------------------------------------------------------------ amounts (model: Amount.v, C16)
        "amount_from_str" => match AttoTokens::from_str(&input_string(case)) {
            Ok(a) => json!({"code": 0, "v": a.as_atto().to_string()}),
            Err(EvmError::FailedToParseAttoToken(m)) if m.contains("units") => json!({"code": 1, "v": "0"}),
            Err(EvmError::FailedToParseAttoToken(_)) => json!({"code": 2, "v": "0"}),
            Err(EvmError::LossOfPrecision) => json!({"code": 3, "v": "0"}),
            Err(EvmError::ExcessiveValue) => json!({"code": 4, "v": "0"}),
            Err(e) => json!({"code": 9, "v": "0", "err": format!("{e:?}")}),
        },
        // formatter -> parser over the whole 256-bit domain: Display, then FromStr
        "amount_roundtrip" => {
            let a = AttoTokens::from_atto(ant_evm::Amount::from_str_radix(case["a"].as_str().unwrap(), 10).unwrap());
            let s = format!("{a}");
            match AttoTokens::from_str(&s) {
                Ok(b) => json!({"s": s, "code": 0, "v": b.as_atto().to_string()}),
                Err(e) => json!({"s": s, "code": 9, "v": "0", "err": format!("{e:?}")}),
            }
        }
        // ------------------------------------------------------------------ multiaddresses
        "craft_from_str" => {
            let s = input_string(case);
            let ignore = case["ignore"].as_bool().unwrap_or(false);
            let parsed = s.parse::<Multiaddr>().ok();
            let out = craft_valid_multiaddr_from_str(&s, ignore);
            json!({"parsed": parsed.as_ref().map(protos), "out": out.as_ref().map(protos),
                   "out_s": out.as_ref().map(|o| o.to_string())})
        }
        // ------------------------------------------------------------------ cache file
        "load_cache" => {
            let dir = tempfile::tempdir().unwrap();
            let path = dir.path().join("cache.json");
            let now_secs = SystemTime::now().duration_since(UNIX_EPOCH).unwrap().as_secs();
            if let Some(text) = case.get("text").and_then(|t| t.as_str()) {
                std::fs::write(&path, substitute_now(text, now_secs)).unwrap();
            } else if !case["content"].is_null() {
                std::fs::write(&path, bytes_of(&case["content"])).unwrap();
            } // else: no file at all
            let cfg = cache_cfg(case, &path);
            match BootstrapCacheStore::load_cache_data(&cfg) {
                Ok(data) => {
                    let mut peers: Vec<(String, Value)> = data
                        .peers
                        .iter()
                        .map(|(p, addrs)| {
                            let l: Vec<Value> = addrs
                                .0
                                .iter()
                                .map(|a| {
                                    let d = a.last_seen.duration_since(UNIX_EPOCH).unwrap_or_default();
                                    json!({"addr": a.addr.to_string(), "protos": protos(&a.addr),
                                           "s": a.success_count, "f": a.failure_count,
                                           "ls_off": d.as_secs() as i64 - now_secs as i64, "ls_nanos": d.subsec_nanos()})
                                })
                                .collect();
                            (p.to_string(), Value::Array(l))
                        })
                        .collect();
                    peers.sort_by(|a, b| a.0.cmp(&b.0));
                    let peers: Vec<Value> = peers.into_iter().map(|(p, l)| json!({"peer": p, "addrs": l})).collect();
                    json!({"r": "ok", "peers": peers, "now_secs": now_secs})
                }
                Err(e) => json!({"r": "err", "msg": e.to_string(), "now_secs": now_secs}),
            }
        }
        // the cache file's formatter: write() of a freshly built store (populated or EMPTY, or the `first` constructor,
        // which writes an empty cache) over whatever the same path held, then load_cache_data must return what was written
        "cache_save_seq" => {
            let dir = tempfile::tempdir().unwrap();
            let path = dir.path().join("cache.json");
            let cfg = BootstrapCacheConfig::empty().with_cache_path(&path);
            let mut out = Vec::new();
            for st in case["steps"].as_array().unwrap() {
                let mut wrote = true;
                if st["first"].as_bool().unwrap_or(false) {
                    let pa = PeersArgs { first: true, ..Default::default() };
                    wrote = BootstrapCacheStore::new_from_peers_args(&pa, Some(cfg.clone())).is_ok();
                } else {
                    let mut store = BootstrapCacheStore::new(cfg.clone()).unwrap();
                    for a in st["adds"].as_array().unwrap() {
                        store.add_addr(a.as_str().unwrap().parse().unwrap());
                    }
                    wrote = store.write().is_ok();
                }
                let loaded = BootstrapCacheStore::load_cache_data(&cfg);
                let mut addrs: Vec<String> = loaded
                    .as_ref()
                    .map(|d| d.peers.values().flat_map(|l| l.0.iter().map(|a| a.addr.to_string())).collect())
                    .unwrap_or_default();
                addrs.sort();
                out.push(json!({"wrote": wrote, "load_ok": loaded.is_ok(), "addrs": addrs}));
            }
            json!({"steps": out})
        }
        // ------------------------------------------------------------------ node registry file
        "registry_load" => {
            let dir = tempfile::tempdir().unwrap();
            let path = dir.path().join("node_registry.json");
            let content = if case["content"].is_null() { None } else { Some(bytes_of(&case["content"])) };
            if let Some(c) = &content {
                std::fs::write(&path, c).unwrap();
            }
            // the serde_json oracle, asked directly
            let parse_ok = content
                .as_ref()
                .and_then(|c| std::str::from_utf8(c).ok())
                .map(|t| NodeRegistry::from_json(t).is_ok());
            match NodeRegistry::load(&path) {
                Ok(r) => json!({"r": "ok", "nodes": r.nodes.len(), "save_path_kept": r.save_path == path,
                                "parse_ok": parse_ok}),
                Err(_) => json!({"r": "err", "parse_ok": parse_ok}),
            }
        }
        // save -> save -> ... -> load on ONE path: after every save the file must hold exactly the formatter's
        // output and load must return the registry that was saved
        "registry_seq" => {
            let dir = tempfile::tempdir().unwrap();
            let path = dir.path().join("node_registry.json");
            if let Some(pre) = case.get("pre") {
                if !pre.is_null() {
                    std::fs::write(&path, bytes_of(pre)).unwrap();      // whatever was there before (any content)
                }
            }
            let mut out = Vec::new();
            for st in case["steps"].as_array().unwrap() {
                let text = String::from_utf8(bytes_of(st)).unwrap();
                let mut reg = match NodeRegistry::from_json(&text) {
                    Ok(r) => r,
                    Err(_) => {
                        out.push(json!({"parsed": false}));
                        continue;
                    }
                };
                reg.save_path = path.clone();
                let fmt = serde_json::to_string(&reg).unwrap();
                let saved = reg.save().is_ok();
                let file = std::fs::read(&path).unwrap_or_default();
                let loaded = NodeRegistry::load(&path);
                let load_eq = loaded.as_ref().map(|l| serde_json::to_string(l).unwrap() == fmt).unwrap_or(false);
                out.push(json!({"parsed": true, "saved": saved, "fmt": fmt.clone().into_bytes(), "file": file,
                                "load_ok": loaded.is_ok(), "load_eq": load_eq,
                                "load_err": loaded.err().map(|e| e.to_string())}));
            }
            json!({"steps": out, "path_len": path.to_string_lossy().len()})
        }
        // ------------------------------------------------------------------ record bytes
        "header_from_record" => {
            let v = bytes_of(&case["bytes"]);
            let oracle = if v.len() >= 3 {
                match RecordHeader::try_deserialize(&v[..3]) {
                    Ok(h) => json!(kind_tag(h.kind)),
                    Err(_) => json!("err"),
                }
            } else {
                Value::Null
            };
            let rec = libp2p::kad::Record::new(libp2p::kad::RecordKey::new(&[0u8; 32]), v);
            match RecordHeader::from_record(&rec) {
                Ok(h) => json!({"r": "ok", "kind": kind_tag(h.kind), "oracle": oracle}),
                Err(_) => json!({"r": "err", "oracle": oracle}),
            }
        }
        // try_deserialize_record::<T> for every T the code base uses it with
        "record_payload" => {
            let v: Vec<u8> = if !case["valid_chunk"].is_null() {
                let full = try_serialize_record(&Chunk::new(bytes::Bytes::from(bytes_of(&case["valid_chunk"]))), RecordKind::Chunk)
                    .unwrap()
                    .to_vec();
                match case["cut"].as_u64() {
                    Some(n) => full[..(n as usize).min(full.len())].to_vec(),
                    None => full,
                }
            } else {
                bytes_of(&case["bytes"])
            };
            let rec = libp2p::kad::Record::new(libp2p::kad::RecordKey::new(&[0u8; 32]), v.clone());
            macro_rules! probe {
                ($t:ty) => {{
                    // the decoder oracle, asked directly on the bytes after the header
                    let oracle = if v.len() > RecordHeader::SIZE {
                        Some(rmp_serde::from_slice::<$t>(&v[RecordHeader::SIZE..]).is_ok())
                    } else {
                        None
                    };
                    json!({"r": if try_deserialize_record::<$t>(&rec).is_ok() { "ok" } else { "err" },
                           "oracle": oracle, "value": v})
                }};
            }
            match case["t"].as_str().unwrap() {
                "chunk" => probe!(Chunk),
                "scratchpad" => probe!(Scratchpad),
                "transactions" => probe!(Vec<Transaction>),
                "register" => probe!(SignedRegister),
                "paid_chunk" => probe!((ProofOfPayment, Chunk)),
                "paid_scratchpad" => probe!((ProofOfPayment, Scratchpad)),
                "paid_transaction" => probe!((ProofOfPayment, Transaction)),
                "paid_register" => probe!((ProofOfPayment, SignedRegister)),
                other => json!({"error": format!("unknown type {other}")}),
            }
        }
        other => json!({"error": format!("unknown op {other}")}),
    }
}

fn kind_tag(k: RecordKind) -> u32 {
    match k {
        RecordKind::ChunkWithPayment => 0,
        RecordKind::Chunk => 1,
        RecordKind::Transaction => 2,
        RecordKind::Register => 3,
        RecordKind::RegisterWithPayment => 4,
        RecordKind::Scratchpad => 5,
        RecordKind::ScratchpadWithPayment => 6,
        RecordKind::TransactionWithPayment => 7,
    }
}

/// Nodes and clients always run with a tracing subscriber; tracing evaluates the arguments of a log statement only
/// when a subscriber enables the call site.  So the harness installs one at TRACE level that formats every event's
/// fields (into a sink): evaluating log arguments is part of what the code under test does in production.
fn install_tracing() {
    let _ = tracing_subscriber::fmt()
        .with_max_level(tracing::Level::TRACE)
        .with_writer(std::io::sink)
        .try_init();
}

fn main() {
    install_tracing();
    std::panic::set_hook(Box::new(|_| {}));
    let stdin = std::io::stdin();
    let out = std::io::stdout();
    let mut out = out.lock();
    for line in stdin.lock().lines() {
        let line = line.unwrap();
        if line.trim().is_empty() {
            continue;
        }
        let case: Value = serde_json::from_str(&line).unwrap();
        let res = catch_unwind(AssertUnwindSafe(|| run(&case))).unwrap_or_else(|p| {
            let msg = p
                .downcast_ref::<String>()
                .cloned()
                .or_else(|| p.downcast_ref::<&str>().map(|s| s.to_string()))
                .unwrap_or_default();
            json!({"panic": msg})
        });
        writeln!(out, "{res}").unwrap();
    }
}
