//! C13 harness: drives the real `PaymentQuote` / `ProofOfPayment` (ant-evm/src/data_payments.rs)
//! with real ed25519 keys.  One JSON object per input line, one per output line.
//!
//! Signatures are made here, so for every signature string the harness knows which key signed
//! which bytes and reports that as the symbol (`sym`) the Coq model works with.
mod trace;

use ant_evm::{EncodedPeerId, PaymentQuote, ProofOfPayment, QuotingMetrics, RewardsAddress};
use ant_networking::verif_hooks::{cmd as hooks, LocalSwarmCmd};
use ant_networking::{Network, NetworkBuilder, NodeIssue};
use ant_node::verif_hooks_quote as duty;
use ant_protocol::{storage::ChunkAddress, NetworkAddress};
use libp2p::identity::{Keypair, PublicKey};
use libp2p::PeerId;
use serde_json::{json, Value};
use std::io::{BufRead, Write};
use std::panic::{catch_unwind, AssertUnwindSafe};
use std::time::{Duration, SystemTime, UNIX_EPOCH};
use xor_name::XorName;

fn key(i: u64) -> Keypair {
    let mut seed = [0u8; 32];
    seed[..8].copy_from_slice(&(i + 1).to_le_bytes());
    seed[31] = 0x5a;
    Keypair::ed25519_from_bytes(seed).expect("seed")
}

fn hexv(v: &Value) -> Vec<u8> {
    hex::decode(v.as_str().expect("hex string")).expect("hex")
}

fn ts_json(t: SystemTime) -> Value {
    match t.duration_since(UNIX_EPOCH) {
        Ok(d) => json!({"s": d.as_secs(), "n": d.subsec_nanos()}),
        // before the epoch: the distance back, flagged
        Err(e) => json!({"neg": true, "s": e.duration().as_secs(), "n": e.duration().subsec_nanos()}),
    }
}

fn ts_of(v: &Value, now: SystemTime) -> SystemTime {
    if let Some(b) = v.get("before_ns") {
        // an instant BEFORE the unix epoch (only constructible in memory, never read from the wire)
        return UNIX_EPOCH - Duration::from_nanos(b.as_u64().expect("before_ns"));
    }
    if let Some(rel) = v.get("rel_ns") {
        let r = rel.as_i64().expect("rel_ns");
        if r >= 0 { now + Duration::from_nanos(r as u64) } else { now - Duration::from_nanos(r.unsigned_abs()) }
    } else {
        UNIX_EPOCH + Duration::new(v["s"].as_u64().expect("s"), v["n"].as_u64().expect("n") as u32)
    }
}

fn metrics_of(v: &Value) -> QuotingMetrics {
    QuotingMetrics {
        close_records_stored: v["crs"].as_u64().unwrap() as usize,
        max_records: v["mr"].as_u64().unwrap() as usize,
        received_payment_count: v["rpc"].as_u64().unwrap() as usize,
        live_time: v["lt"].as_u64().unwrap(),
        network_density: if v["nd"].is_null() { None } else {
            let b = hexv(&v["nd"]);
            let mut a = [0u8; 32];
            a.copy_from_slice(&b);
            Some(a)
        },
        network_size: v["ns"].as_u64(),
    }
}

struct Fields {
    content: XorName,
    ts: SystemTime,
    metrics: QuotingMetrics,
    addr: RewardsAddress,
}

fn fields_of(v: &Value, now: SystemTime) -> Fields {
    let c = hexv(&v["content"]);
    let mut x = [0u8; 32];
    x.copy_from_slice(&c);
    Fields {
        content: XorName(x),
        ts: ts_of(&v["ts"], now),
        metrics: metrics_of(&v["m"]),
        addr: RewardsAddress::from_slice(&hexv(&v["addr"])),
    }
}

/// builds the quote and the description the model needs
fn quote_of(v: &Value, now: SystemTime, nkeys: u64) -> (PaymentQuote, Value) {
    let f = fields_of(v, now);
    let pub_key = match v["pk"].get("key") {
        Some(k) => key(k.as_u64().unwrap()).public().encode_protobuf(),
        None => hexv(&v["pk"]["raw"]),
    };
    let mut sign_panic = false;
    let (signature, sym) = if let Some(k) = v["sig"].get("key") {
        let k = k.as_u64().unwrap();
        // bytes_for_signing panics for a pre-epoch timestamp: then there is nothing to sign
        let msg = catch_unwind(AssertUnwindSafe(|| {
            if v["sig"].get("of").is_some() {
                let g = fields_of(&v["sig"]["of"], now);
                PaymentQuote::bytes_for_signing(g.content, g.ts, &g.metrics, &g.addr)
            } else {
                PaymentQuote::bytes_for_signing(f.content, f.ts, &f.metrics, &f.addr)
            }
        }));
        let msg = match msg {
            Ok(m) => m,
            Err(_) => {
                sign_panic = true;
                b"nothing could be signed".to_vec()
            }
        };
        let mut s = key(k).sign(&msg).expect("sign");
        if sign_panic {
            (s, Value::Null)
        } else if let Some(cut) = v["sig"].get("truncate").and_then(|c| c.as_u64()) {
            s.truncate(cut as usize);
            (s, Value::Null)
        } else if let Some(flip) = v["sig"].get("flip").and_then(|c| c.as_u64()) {
            let i = (flip as usize) % s.len();
            s[i] ^= 1;
            (s, Value::Null)
        } else {
            (s, json!({"key": k, "msg": hex::encode(&msg)}))
        }
    } else {
        (hexv(&v["sig"]["raw"]), Value::Null)
    };
    let q = PaymentQuote {
        content: f.content,
        timestamp: f.ts,
        quoting_metrics: f.metrics,
        rewards_address: f.addr,
        pub_key,
        signature,
    };
    let decoded = PublicKey::try_decode_protobuf(&q.pub_key).ok();
    let pk_key = decoded.as_ref().map(|pk| {
        (0..nkeys).find(|i| key(*i).public() == *pk).unwrap_or(1_000_000)
    });
    let pk_peer = decoded.as_ref().map(|pk| hex::encode(PeerId::from(pk.clone()).to_bytes()));
    let bfs = catch_unwind(AssertUnwindSafe(|| hex::encode(q.bytes_for_sig()))).ok();
    let hash = catch_unwind(AssertUnwindSafe(|| hex::encode(q.hash()))).ok();
    let desc = json!({
        "bfs": bfs,
        "hash": hash,
        "sign_panic": sign_panic,
        "pk": hex::encode(&q.pub_key),
        "sig": hex::encode(&q.signature),
        "sym": sym,
        "pk_key": pk_key,
        "pk_peer": pk_peer,
        "peer_id": q.peer_id().ok().map(|p| hex::encode(p.to_bytes())),
        "ts": ts_json(q.timestamp),
    });
    (q, desc)
}

fn peer_of(v: &Value) -> PeerId {
    match v.get("key") {
        Some(k) => key(k.as_u64().unwrap()).public().to_peer_id(),
        None => PeerId::from_bytes(&hexv(&v["raw"])).expect("claimed peer id must parse"),
    }
}

fn encoded_of(v: &Value) -> (EncodedPeerId, Vec<u8>) {
    match v.get("key") {
        Some(k) => {
            let p = key(k.as_u64().unwrap()).public().to_peer_id();
            (EncodedPeerId::from(p), p.to_bytes())
        }
        None => {
            // EncodedPeerId's field is private: arbitrary bytes go in through its Deserialize impl
            let b = hexv(&v["raw"]);
            let e: EncodedPeerId = serde_json::from_value(json!(b)).expect("EncodedPeerId from bytes");
            (e, b)
        }
    }
}

/// `history`: a real client-mode SwarmDriver receives LocalSwarmCmd::QuoteVerification through
/// the real handle_local_cmd, one delivery per step.  After each step the issues recorded against
/// the peer are read (flagged = a BadQuoting issue appeared) and cleared again (record_node_issue
/// rate-limits issues to one per ten seconds), and the stored reference quote of the peer is read.
fn run_history(case: &Value) -> Value {
    let rt = tokio::runtime::Builder::new_current_thread().enable_all().build().expect("runtime");
    rt.block_on(async {
        let (_net, _events, mut driver) = NetworkBuilder::new(Keypair::ed25519_from_bytes([0xEE; 32]).unwrap(), true)
            .build_client()
            .expect("client-mode driver");
        let nkeys = case.get("nkeys").and_then(|n| n.as_u64()).unwrap_or(6);
        let now = SystemTime::now();
        let mut steps = vec![];
        for d in case["deliveries"].as_array().unwrap() {
            let peer = peer_of(&d["peer"]);
            let (q, _desc) = quote_of(&d["q"], now, nkeys);
            let ts = q.timestamp;
            hooks::clear_node_issues(&mut driver, &peer);
            let before = SystemTime::now();
            let res = hooks::handle_local_cmd(&mut driver, LocalSwarmCmd::QuoteVerification { quotes: vec![(peer, q)] });
            let after = SystemTime::now();
            let (issues, is_bad) = hooks::node_issues(&driver, &peer);
            hooks::clear_node_issues(&mut driver, &peer);
            let stored = hooks::quotes_history(&driver).into_iter().find(|(p, _)| *p == peer).map(|(_, q)| ts_json(q.timestamp));
            steps.push(json!({"ok": res.is_ok(), "issues": issues, "is_bad": is_bad, "flagged": !issues.is_empty(),
                              "ts": ts_json(ts), "stored_ts": stored, "now": ts_json(before), "now_after": ts_json(after)}));
        }
        json!({"steps": steps, "peers_in_history": hooks::quotes_history(&driver).len()})
    })
}

/// `driver`: like `history`, but nothing is cleared: quotes (QuoteVerification), unrelated issues
/// (RecordNodeIssue) and the passing of time (the guarded age_node_issues hook) are interleaved on one
/// client-mode SwarmDriver through the real handle_local_cmd; after each step the peer's issue list,
/// its is_bad flag and its stored reference quote are read.
fn run_driver(case: &Value) -> Value {
    let rt = tokio::runtime::Builder::new_current_thread().enable_all().build().expect("runtime");
    rt.block_on(async {
        let (_net, _events, mut driver) = NetworkBuilder::new(Keypair::ed25519_from_bytes([0xEE; 32]).unwrap(), true)
            .build_client()
            .expect("client-mode driver");
        let nkeys = case.get("nkeys").and_then(|n| n.as_u64()).unwrap_or(6);
        let now = SystemTime::now();
        let mut steps = vec![];
        for st in case["steps"].as_array().unwrap() {
            if let Some(secs) = st.get("age").and_then(|a| a.as_u64()) {
                hooks::age_node_issues(&mut driver, secs);
                steps.push(json!({"aged": secs}));
                continue;
            }
            let (peer, res, ts, before, after) = if let Some(d) = st.get("quote") {
                let peer = peer_of(&d["peer"]);
                let (q, _desc) = quote_of(&d["q"], now, nkeys);
                let ts = q.timestamp;
                let before = SystemTime::now();
                let res = hooks::handle_local_cmd(&mut driver, LocalSwarmCmd::QuoteVerification { quotes: vec![(peer, q)] });
                (peer, res, Some(ts), before, SystemTime::now())
            } else {
                let d = &st["issue"];
                let peer = peer_of(&d["peer"]);
                let issue = match d["kind"].as_u64().unwrap() {
                    0 => NodeIssue::ReplicationFailure,
                    1 => NodeIssue::CloseNodesShunning,
                    2 => NodeIssue::BadQuoting,
                    _ => NodeIssue::FailedChunkProofCheck,
                };
                let before = SystemTime::now();
                let res = hooks::handle_local_cmd(&mut driver, LocalSwarmCmd::RecordNodeIssue { peer_id: peer, issue });
                (peer, res, None, before, SystemTime::now())
            };
            let (issues, is_bad) = hooks::node_issues(&driver, &peer);
            let kinds: Vec<u64> = issues.iter().map(|i| match i.as_str() {
                "ReplicationFailure" => 0, "CloseNodesShunning" => 1, "BadQuoting" => 2, _ => 3 }).collect();
            let stored = hooks::quotes_history(&driver).into_iter().find(|(p, _)| *p == peer).map(|(_, q)| ts_json(q.timestamp));
            steps.push(json!({"ok": res.is_ok(), "issues": kinds, "is_bad": is_bad, "ts": ts.map(ts_json), "stored_ts": stored,
                              "now": ts_json(before), "now_after": ts_json(after)}));
            // let the tasks spawned when a peer turns bad run
            tokio::task::yield_now().await;
        }
        json!({"steps": steps})
    })
}

/// a `Network` handle over plain channels owned by the harness (nothing is polled behind it)
fn plain_network(self_key: u64) -> (Network, tokio::sync::mpsc::Receiver<LocalSwarmCmd>) {
    let (net_tx, _net_rx) = tokio::sync::mpsc::channel(8);
    let (local_tx, local_rx) = tokio::sync::mpsc::channel(8);
    let kp = key(self_key);
    (Network::new(net_tx, local_tx, kp.public().to_peer_id(), kp), local_rx)
}

/// `duty`: the real ant_node quotes_verification over a batch; reports which pairs (by position) were
/// sent down in LocalSwarmCmd::QuoteVerification, or null when no command was emitted.
fn run_duty(case: &Value) -> Value {
    let rt = tokio::runtime::Builder::new_current_thread().enable_all().build().expect("runtime");
    rt.block_on(async {
        let nkeys = case.get("nkeys").and_then(|n| n.as_u64()).unwrap_or(6);
        let self_key = case["self"].as_u64().unwrap();
        let (network, mut local_rx) = plain_network(self_key);
        let now = SystemTime::now();
        let mut descs = vec![];
        let mut batch = vec![];
        for item in case["quotes"].as_array().unwrap() {
            let (q, mut d) = quote_of(&item["q"], now, nkeys);
            let p = peer_of(&item["peer"]);
            d["peer"] = json!(hex::encode(p.to_bytes()));
            descs.push(d);
            batch.push((p, q));
        }
        let before = SystemTime::now();
        duty::quotes_verification(&network, batch.clone()).await;
        let after = SystemTime::now();
        // the command is sent from a spawned task
        let mut forwarded = Value::Null;
        for _ in 0..50 {
            tokio::task::yield_now().await;
            if let Ok(cmd) = local_rx.try_recv() {
                forwarded = match cmd {
                    LocalSwarmCmd::QuoteVerification { quotes } => {
                        let mut used = vec![false; batch.len()];
                        let idx: Vec<Value> = quotes.iter().map(|(p, q)| {
                            let i = batch.iter().enumerate().position(|(i, (bp, bq))| !used[i] && bp == p && bq == q);
                            if let Some(i) = i { used[i] = true; }
                            json!(i)
                        }).collect();
                        json!(idx)
                    }
                    other => json!({"other_cmd": format!("{other:?}")}),
                };
                break;
            }
        }
        json!({"quotes": descs, "self_peer": hex::encode(network.peer_id().to_bytes()), "forwarded": forwarded,
               "now": ts_json(before), "now_after": ts_json(after)})
    })
}

/// `storecost`: the real verify_quote_for_storecost of a node holding key `self`
fn run_storecost(case: &Value) -> Value {
    let rt = tokio::runtime::Builder::new_current_thread().enable_all().build().expect("runtime");
    rt.block_on(async {
        let nkeys = case.get("nkeys").and_then(|n| n.as_u64()).unwrap_or(6);
        let (network, _rx) = plain_network(case["self"].as_u64().unwrap());
        let now = SystemTime::now();
        let (q, d) = quote_of(&case["q"], now, nkeys);
        let address = match case["addr"].get("chunk") {
            Some(x) => {
                let mut a = [0u8; 32];
                a.copy_from_slice(&hexv(x));
                NetworkAddress::from_chunk_address(ChunkAddress::new(XorName(a)))
            }
            None => NetworkAddress::from_peer(peer_of(&case["addr"]["peer"])),
        };
        let addr_xor = address.as_xorname().unwrap_or_default();
        let before = SystemTime::now();
        let r = duty::verify_quote_for_storecost(&network, q, &address);
        let after = SystemTime::now();
        let code = match &r {
            Ok(()) => 0,
            Err(e) if e.contains("InvalidQuoteContent") => 1,
            Err(e) if e.contains("QuoteExpired") => 2,
            Err(e) if e.contains("InvalidQuoteSignature") => 3,
            Err(_) => 9,
        };
        json!({"q": d, "addr_xor": hex::encode(addr_xor.0), "code": code, "err": r.err(),
               "now": ts_json(before), "now_after": ts_json(after)})
    })
}

fn run(case: &Value) -> Value {
    if case["op"].as_str() == Some("history") {
        return run_history(case);
    }
    if case["op"].as_str() == Some("driver") {
        return run_driver(case);
    }
    if case["op"].as_str() == Some("duty") {
        return run_duty(case);
    }
    if case["op"].as_str() == Some("storecost") {
        return run_storecost(case);
    }
    let nkeys = case.get("nkeys").and_then(|n| n.as_u64()).unwrap_or(6);
    let now = SystemTime::now();
    match case["op"].as_str().unwrap() {
        "check" => {
            let (q, d) = quote_of(&case["q"], now, nkeys);
            let claimed = peer_of(&case["claimed"]);
            // a panic is reported as "no verdict" (r = null), not as a harness failure
            let r = catch_unwind(AssertUnwindSafe(|| q.check_is_signed_by_claimed_peer(claimed)));
            let msg = r.as_ref().err().map(|p| p.downcast_ref::<String>().cloned()
                .or_else(|| p.downcast_ref::<&str>().map(|s| s.to_string())).unwrap_or_default());
            json!({"q": d, "claimed": hex::encode(claimed.to_bytes()), "r": r.ok(), "r_panic": msg})
        }
        "proof" => {
            let mut descs = vec![];
            let mut pq = vec![];
            for item in case["quotes"].as_array().unwrap() {
                let (q, mut d) = quote_of(&item["q"], now, nkeys);
                let (e, eb) = encoded_of(&item["e"]);
                d["e"] = json!(hex::encode(&eb));
                d["e_peer"] = json!(e.to_peer_id().ok().map(|p| hex::encode(p.to_bytes())));
                descs.push(d);
                pq.push((e, q));
            }
            let proof = ProofOfPayment { peer_quotes: pq };
            let me = peer_of(&case["me"]);
            let verify = proof.verify_for(me);
            let payees: Vec<String> = proof.payees().iter().map(|p| hex::encode(p.to_bytes())).collect();
            let by_peer: Vec<String> = proof.quotes_by_peer(&me).iter().map(|q| hex::encode(q.bytes_for_sig())).collect();
            let digest: Vec<String> = proof.digest().iter().map(|(h, _, _)| hex::encode(h)).collect();
            let before = SystemTime::now();
            let expired = proof.has_expired();
            let after = SystemTime::now();
            json!({"quotes": descs, "me": hex::encode(me.to_bytes()), "verify": verify, "payees": payees,
                   "by_peer": by_peer, "digest": digest, "expired": expired,
                   "now": ts_json(before), "now_after": ts_json(after)})
        }
        "expiry" => {
            let (q, d) = quote_of(&case["q"], now, nkeys);
            let before = SystemTime::now();
            let r = q.has_expired();
            let after = SystemTime::now();
            json!({"q": d, "r": r, "now": ts_json(before), "now_after": ts_json(after)})
        }
        "historical" => {
            let (a, da) = quote_of(&case["a"], now, nkeys);
            let (b, db) = quote_of(&case["b"], now, nkeys);
            let before = SystemTime::now();
            let newer = a.is_newer_than(&b);
            let r = a.historical_verify(&b);
            let r_sym = b.historical_verify(&a);
            let after = SystemTime::now();
            json!({"a": da, "b": db, "newer": newer, "r": r, "r_swapped": r_sym,
                   "now": ts_json(before), "now_after": ts_json(after)})
        }
        other => json!({"error": format!("unknown op {other}")}),
    }
}

fn main() {
    std::panic::set_hook(Box::new(|_| {}));
    // all decoder / handler runs happen under an active TRACE-level subscriber (see trace.rs)
    trace::install();
    let stdin = std::io::stdin();
    let out = std::io::stdout();
    let mut out = out.lock();
    for line in stdin.lock().lines() {
        let line = line.unwrap();
        if line.trim().is_empty() {
            continue;
        }
        let case: Value = serde_json::from_str(&line).unwrap();
        let res = catch_unwind(AssertUnwindSafe(|| run(&case))).unwrap_or_else(|p| {
            let msg = p.downcast_ref::<String>().cloned()
                .or_else(|| p.downcast_ref::<&str>().map(|s| s.to_string()))
                .unwrap_or_default();
            json!({"panic": msg})
        });
        writeln!(out, "{res}").unwrap();
    }
}
