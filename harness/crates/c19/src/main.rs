//! C19 harness: the REAL `add_node`, `ServiceManager::{start,stop,remove,upgrade}` and
//! `refresh_node_registry` driven against a simulated OS.  `ServiceControl` and `RpcActions` are
//! public traits; the implementations below *are* the simulated OS (installed service definitions,
//! live processes keyed by program path, fresh pid / port counters) plus the fault plan: every
//! trait call gets the next call index, and a call whose index is in the plan returns an error
//! and has no effect.  One JSON history per stdin line, one JSON result per stdout line.
use ant_bootstrap::PeersArgs;
use ant_evm::{EvmNetwork, RewardsAddress};
use ant_node_manager::add_services::add_node;
use ant_node_manager::add_services::config::{AddNodeServiceOptions, PortRange};
use ant_node_manager::error::Error as NmError;
use ant_node_manager::{refresh_node_registry, ServiceManager, VerbosityLevel};
use ant_service_management::control::ServiceControl;
use ant_service_management::error::{Error as SvcError, Result as SvcResult};
use ant_service_management::rpc::{NetworkInfo, NodeInfo, RecordAddress, RpcActions};
use ant_service_management::{
    NodeRegistry, NodeService, ServiceStateActions, ServiceStatus, UpgradeOptions, UpgradeResult,
};
use async_trait::async_trait;
use libp2p::Multiaddr;
use libp2p_identity::PeerId;
use serde_json::{json, Value};
use service_manager::ServiceInstallCtx;
use std::collections::{BTreeMap, BTreeSet};
use std::io::{BufRead, Write};
use std::panic::{catch_unwind, AssertUnwindSafe};
use std::path::{Path, PathBuf};
use std::str::FromStr;
use std::sync::{Arc, Mutex};
use std::time::Duration;

const FIRST_PID: u32 = 1000;
const FIRST_PORT: u16 = 40000;
const DYN_LISTEN_BASE: u16 = 50000;
const PEER: &str = "12D3KooWS2tpXGGTmg2AHFiDh57yPQnat49YHnyqoggzXZWpqkCR";
/// the peers of the simulated network; the node of service n reports the first (n - 1) % 3 of them as
/// connected: none for antnode1 (a just-launched / genesis node), one for antnode2, two for antnode3
const NETWORK_PEERS: [&str; 3] = [
    "12D3KooWS2tpXGGTmg2AHFiDh57yPQnat49YHnyqoggzXZWpqkCR",
    "12D3KooWRi6wF7yxWLuPSNskXc6kQ5cJ6eaymeMbCRdTnMesPgFx",
    "12D3KooWRBhwfeP2Y4TCx1SM6s9rUoHhR5STiGwxBhgFRcw3UERE",
];

struct Installed {
    program: PathBuf,
    port: Option<u16>,
}

struct Sim {
    base: PathBuf,
    faults: BTreeSet<u64>,
    nc: u64,
    log: Vec<Value>,
    installed: BTreeMap<String, Installed>,
    procs: BTreeMap<PathBuf, u32>,
    next_pid: u32,
    next_port: u16,
}

impl Sim {
    fn rel(&self, p: &Path) -> String {
        p.strip_prefix(&self.base).unwrap_or(p).to_string_lossy().to_string()
    }
    /// numbers the call, records it, and says whether the plan makes it fail
    fn call(&mut self, kind: &str, arg: &str) -> bool {
        let faulted = self.faults.contains(&self.nc);
        self.log.push(json!([kind, arg, faulted]));
        self.nc += 1;
        faulted
    }
}

fn fault() -> SvcError {
    SvcError::Io(std::io::Error::new(std::io::ErrorKind::Other, "injected fault"))
}

fn not_installed(name: &str) -> SvcError {
    SvcError::Io(std::io::Error::new(std::io::ErrorKind::Other, format!("unit {name} not loaded")))
}

#[derive(Clone)]
struct SimCtl(Arc<Mutex<Sim>>);

impl ServiceControl for SimCtl {
    fn create_service_user(&self, _username: &str) -> SvcResult<()> {
        Ok(())
    }
    fn get_available_port(&self) -> SvcResult<u16> {
        let mut s = self.0.lock().unwrap();
        if s.call("port", "") {
            return Err(fault());
        }
        let p = s.next_port;
        s.next_port += 1;
        Ok(p)
    }
    fn install(&self, ctx: ServiceInstallCtx, _user_mode: bool) -> SvcResult<()> {
        let mut s = self.0.lock().unwrap();
        let name = ctx.label.to_qualified_name();
        if s.call("install", &name) {
            return Err(fault());
        }
        let mut port = None;
        let args: Vec<String> = ctx.args.iter().map(|a| a.to_string_lossy().to_string()).collect();
        for w in args.windows(2) {
            if w[0] == "--port" {
                port = w[1].parse::<u16>().ok();
            }
        }
        s.installed.insert(name, Installed { program: ctx.program.clone(), port });
        Ok(())
    }
    fn get_process_pid(&self, path: &Path) -> SvcResult<u32> {
        let mut s = self.0.lock().unwrap();
        let rel = s.rel(path);
        if s.call("pid", &rel) {
            return Err(fault());
        }
        match s.procs.get(path) {
            Some(pid) => Ok(*pid),
            None => Err(SvcError::ServiceProcessNotFound(path.to_string_lossy().to_string())),
        }
    }
    fn start(&self, name: &str, _user_mode: bool) -> SvcResult<()> {
        let mut s = self.0.lock().unwrap();
        if s.call("start", name) {
            return Err(fault());
        }
        let program = match s.installed.get(name) {
            Some(i) => i.program.clone(),
            None => return Err(not_installed(name)),
        };
        if !s.procs.contains_key(&program) {
            let pid = s.next_pid;
            s.next_pid += 1;
            s.procs.insert(program, pid);
        }
        Ok(())
    }
    fn stop(&self, name: &str, _user_mode: bool) -> SvcResult<()> {
        let mut s = self.0.lock().unwrap();
        if s.call("stop", name) {
            return Err(fault());
        }
        let program = match s.installed.get(name) {
            Some(i) => i.program.clone(),
            None => return Err(not_installed(name)),
        };
        s.procs.remove(&program);
        Ok(())
    }
    fn uninstall(&self, name: &str, _user_mode: bool) -> SvcResult<()> {
        let mut s = self.0.lock().unwrap();
        if s.call("uninstall", name) {
            return Err(fault());
        }
        if s.installed.remove(name).is_none() {
            return Err(SvcError::ServiceDoesNotExists(name.to_string()));
        }
        Ok(())
    }
    fn wait(&self, _delay: u64) {
        let mut s = self.0.lock().unwrap();
        s.call("wait", "");
    }
}

/// the node's RPC endpoint as seen by the manager: answers only while the process is alive
struct SimRpc {
    sim: Arc<Mutex<Sim>>,
    name: String,
    program: PathBuf,
    number: u16,
}

impl SimRpc {
    fn live_pid(&self, s: &Sim) -> SvcResult<u32> {
        s.procs
            .get(&self.program)
            .copied()
            .ok_or_else(|| SvcError::RpcConnectionError(self.name.clone()))
    }
}

#[async_trait]
impl RpcActions for SimRpc {
    async fn node_info(&self) -> SvcResult<NodeInfo> {
        let mut s = self.sim.lock().unwrap();
        if s.call("rpc_node_info", &self.name) {
            return Err(fault());
        }
        let pid = self.live_pid(&s)?;
        Ok(NodeInfo {
            pid,
            peer_id: PeerId::from_str(PEER).unwrap(),
            log_path: PathBuf::new(),
            data_path: PathBuf::new(),
            version: "0.0.0".to_string(),
            uptime: Duration::from_secs(1),
            wallet_balance: 0,
        })
    }
    async fn network_info(&self) -> SvcResult<NetworkInfo> {
        let mut s = self.sim.lock().unwrap();
        if s.call("rpc_network_info", &self.name) {
            return Err(fault());
        }
        self.live_pid(&s)?;
        let port = s
            .installed
            .get(&self.name)
            .and_then(|i| i.port)
            .unwrap_or(DYN_LISTEN_BASE + self.number);
        let addr: Multiaddr = format!("/ip4/127.0.0.1/udp/{port}/quic-v1").parse().unwrap();
        let k = (self.number.max(1) as usize - 1) % 3;
        let connected_peers = NETWORK_PEERS[..k].iter().map(|p| PeerId::from_str(p).unwrap()).collect();
        Ok(NetworkInfo { connected_peers, listeners: vec![addr] })
    }
    async fn record_addresses(&self) -> SvcResult<Vec<RecordAddress>> {
        Ok(vec![])
    }
    async fn node_restart(&self, _d: u64, _r: bool) -> SvcResult<()> {
        Ok(())
    }
    async fn node_stop(&self, _d: u64) -> SvcResult<()> {
        Ok(())
    }
    async fn node_update(&self, _d: u64) -> SvcResult<()> {
        Ok(())
    }
    async fn is_node_connected_to_network(&self, _t: Duration) -> SvcResult<()> {
        let mut s = self.sim.lock().unwrap();
        if s.call("rpc_connected", &self.name) {
            return Err(fault());
        }
        self.live_pid(&s)?;
        Ok(())
    }
    async fn update_log_level(&self, _l: String) -> SvcResult<()> {
        Ok(())
    }
}

fn nm_code(e: &NmError) -> u64 {
    match e {
        NmError::PidNotFoundAfterStarting => 1,
        NmError::PidNotSet => 2,
        NmError::ServiceAlreadyRunning(_) => 3,
        NmError::ServiceStatusMismatch { .. } => 4,
        NmError::ServiceManagementError(SvcError::Io(_)) => 5,
        NmError::ServiceManagementError(SvcError::ServiceDoesNotExists(_)) => 6,
        NmError::ServiceManagementError(SvcError::RpcConnectionError(_)) => 9,
        NmError::ServiceManagementError(_) => 18,
        NmError::Io(_) => 7,
        NmError::SemverError(_) => 8,
        _ => 19,
    }
}

fn add_code(msg: &str) -> u64 {
    if msg.contains("can only be added as a single node") {
        20
    } else if msg.contains("genesis node already exists") {
        21
    } else if msg.contains("does not match the number of ports") {
        22
    } else if msg.contains("is being used by another service") {
        23
    } else if msg.contains("Failed to add one or more services") {
        24
    } else {
        29
    }
}

fn port_range(v: &Value) -> Option<PortRange> {
    if v.is_null() {
        None
    } else if let Some(a) = v.as_array() {
        Some(PortRange::Range(a[0].as_u64().unwrap() as u16, a[1].as_u64().unwrap() as u16))
    } else {
        Some(PortRange::Single(v.as_u64().unwrap() as u16))
    }
}

fn status_code(s: &ServiceStatus) -> u64 {
    match s {
        ServiceStatus::Added => 0,
        ServiceStatus::Running => 1,
        ServiceStatus::Stopped => 2,
        ServiceStatus::Removed => 3,
    }
}

fn version_n(v: &str) -> Value {
    match semver::Version::parse(v) {
        Ok(v) if v.major == 0 && v.minor == 1 => json!(v.patch),
        _ => json!(v),
    }
}

fn view(reg: &NodeRegistry, sim: &Sim) -> (Value, Value) {
    let nodes: Vec<Value> = reg
        .nodes
        .iter()
        .map(|n| {
            json!({
                "number": n.number, "name": n.service_name, "status": status_code(&n.status),
                "pid": n.pid, "version": version_n(&n.version), "node_port": n.node_port,
                "metrics_port": n.metrics_port, "rpc_port": n.rpc_socket_addr.port(),
                "peers": n.connected_peers.is_some(), "peers_n": n.connected_peers.as_ref().map(|p| p.len()),
                "listen": n.listen_addr.is_some(),
                "peer_id": n.peer_id.is_some(), "first": n.peers_args.first,
                "data_dir": sim.rel(&n.data_dir_path), "log_dir": sim.rel(&n.log_dir_path),
                "bin": sim.rel(&n.antnode_path),
                "data_dir_exists": n.data_dir_path.exists(), "log_dir_exists": n.log_dir_path.exists(),
            })
        })
        .collect();
    let os = json!({
        "installed": sim.installed.iter().map(|(k, i)| json!([k, sim.rel(&i.program)])).collect::<Vec<_>>(),
        "procs": sim.procs.iter().map(|(k, p)| json!([sim.rel(k), p])).collect::<Vec<_>>(),
        "next_pid": sim.next_pid, "next_port": sim.next_port, "nc": sim.nc,
    });
    (Value::Array(nodes), os)
}

async fn run_history(case: &Value, base: &Path) -> Value {
    std::fs::create_dir_all(base).unwrap();
    let data = base.join("data");
    let logs = base.join("logs");
    let src = base.join("antnode");
    let newbin = base.join("antnode-new");
    std::fs::write(&src, b"fake antnode bin").unwrap();
    std::fs::write(&newbin, b"fake antnode bin v2").unwrap();
    let reg_path = base.join("node_registry.json");
    let faults: BTreeSet<u64> =
        case["faults"].as_array().map(|a| a.iter().map(|x| x.as_u64().unwrap()).collect()).unwrap_or_default();
    let sim = Arc::new(Mutex::new(Sim {
        base: base.to_path_buf(),
        faults,
        nc: 0,
        log: vec![],
        installed: BTreeMap::new(),
        procs: BTreeMap::new(),
        next_pid: FIRST_PID,
        next_port: FIRST_PORT,
    }));
    let ctl = SimCtl(sim.clone());
    let mut reg = NodeRegistry::load(&reg_path).unwrap();
    let mut steps = vec![];
    let mut killed: Vec<u32> = vec![];
    for op in case["ops"].as_array().unwrap() {
        let kind = op["op"].as_str().unwrap();
        let i = op.get("i").and_then(|x| x.as_u64()).unwrap_or(0) as usize;
        let mut extra = json!({});
        let out: u64 = match kind {
            "add" => {
                let options = AddNodeServiceOptions {
                    antnode_dir_path: data.clone(),
                    antnode_src_path: src.clone(),
                    auto_restart: false,
                    auto_set_nat_flags: false,
                    count: op.get("count").and_then(|x| x.as_u64()).map(|c| c as u16),
                    delete_antnode_src: false,
                    enable_metrics_server: op["metrics"].as_bool().unwrap_or(false),
                    env_variables: None,
                    evm_network: EvmNetwork::ArbitrumOne,
                    home_network: false,
                    log_format: None,
                    max_archived_log_files: None,
                    max_log_files: None,
                    metrics_port: port_range(&op["metrics_port"]),
                    network_id: None,
                    node_ip: None,
                    node_port: port_range(&op["node_port"]),
                    owner: None,
                    peers_args: PeersArgs { first: op["first"].as_bool().unwrap_or(false), ..Default::default() },
                    rewards_address: RewardsAddress::from_str("0x03B770D9cD32077cC0bF330c13C114a87643B124").unwrap(),
                    rpc_address: op["rpc_ip"].as_str().map(|s| std::net::Ipv4Addr::from_str(s).unwrap()),
                    rpc_port: port_range(&op["rpc_port"]),
                    service_data_dir_path: data.clone(),
                    service_log_dir_path: logs.clone(),
                    upnp: false,
                    user: None,
                    user_mode: false,
                    version: "0.1.1".to_string(),
                };
                match add_node(options, &mut reg, &ctl, VerbosityLevel::Minimal).await {
                    Ok(names) => {
                        extra = json!({ "added": names });
                        0
                    }
                    Err(e) => add_code(&e.to_string()),
                }
            }
            "refresh" => match refresh_node_registry(&mut reg, &ctl, false, false, false).await {
                Ok(()) => 0,
                Err(e) => add_code(&e.to_string()) + 100,
            },
            "kill" => {
                if let Some(n) = reg.nodes.get(i) {
                    let mut s = sim.lock().unwrap();
                    if let Some(pid) = s.procs.remove(&n.antnode_path) {
                        killed.push(pid);
                    }
                    0
                } else {
                    99
                }
            }
            "restart" => {
                // out of band: the process dies and the OS service manager brings it back under a fresh pid
                if let Some(n) = reg.nodes.get(i) {
                    let mut s = sim.lock().unwrap();
                    if let Some(pid) = s.procs.remove(&n.antnode_path) {
                        killed.push(pid);
                        let fresh = s.next_pid;
                        s.next_pid += 1;
                        s.procs.insert(n.antnode_path.clone(), fresh);
                    }
                    0
                } else {
                    99
                }
            }
            "start" | "stop" | "remove" | "upgrade" => {
                if i >= reg.nodes.len() {
                    99
                } else {
                    let node = &mut reg.nodes[i];
                    let rpc = SimRpc {
                        sim: sim.clone(),
                        name: node.service_name.clone(),
                        program: node.antnode_path.clone(),
                        number: node.number,
                    };
                    let service = NodeService::new(node, Box::new(rpc));
                    let service = if op["dyn"].as_bool().unwrap_or(false) {
                        service.with_connection_timeout(Duration::from_secs(1))
                    } else {
                        service
                    };
                    let mut m = ServiceManager::new(service, Box::new(ctl.clone()), VerbosityLevel::Minimal);
                    match kind {
                        "start" => m.start().await.map(|_| 0).unwrap_or_else(|e| nm_code(&e)),
                        "stop" => m.stop().await.map(|_| 0).unwrap_or_else(|e| nm_code(&e)),
                        "remove" => m
                            .remove(op["keep"].as_bool().unwrap_or(false))
                            .await
                            .map(|_| 0)
                            .unwrap_or_else(|e| nm_code(&e)),
                        _ => {
                            let options = UpgradeOptions {
                                auto_restart: false,
                                env_variables: None,
                                force: op["force"].as_bool().unwrap_or(false),
                                start_service: op["start"].as_bool().unwrap_or(true),
                                target_bin_path: if op["binok"].as_bool().unwrap_or(true) {
                                    newbin.clone()
                                } else {
                                    base.join("missing-bin")
                                },
                                target_version: semver::Version::new(0, 1, op["tv"].as_u64().unwrap_or(2)),
                            };
                            match m.upgrade(options).await {
                                Ok(UpgradeResult::NotRequired) => 10,
                                Ok(UpgradeResult::Upgraded(..)) => 11,
                                Ok(UpgradeResult::Forced(..)) => 12,
                                Ok(UpgradeResult::UpgradedButNotStarted(..)) => 13,
                                Ok(UpgradeResult::Error(_)) => 14,
                                Err(e) => nm_code(&e),
                            }
                        }
                    }
                }
            }
            other => panic!("unknown op {other}"),
        };
        // add_node saves the registry itself (after every service it records).  What the next antctl
        // command starts from is that file, so: compare the file as add_node left it with the in-memory
        // registry, and CONTINUE from the file.
        let mut disk_same = true;
        if kind == "add" {
            let mem = format!("{reg:?}");
            match NodeRegistry::load(&reg_path) {
                Ok(on_disk) => {
                    disk_same = format!("{on_disk:?}") == mem;
                    reg = on_disk;
                }
                Err(_) => disk_same = false,
            }
        }
        // "The registry saved after each step loads back to the same state": save, reload, compare,
        // and CONTINUE with the reloaded registry
        let saved = reg.save().is_ok();
        // field by field on the structs themselves (their Debug rendering distinguishes Some([]) from None);
        // comparing two serialisations would push both sides through the serialiser under test
        let before = format!("{reg:?}");
        let reload_ok = match NodeRegistry::load(&reg_path) {
            Ok(r) => {
                let same = format!("{r:?}") == before;
                reg = r;
                saved && same
            }
            Err(_) => false,
        };
        let s = sim.lock().unwrap();
        let (nodes, os) = view(&reg, &s);
        steps.push(json!({ "out": out, "reg": nodes, "os": os, "reload_ok": reload_ok, "disk_same": disk_same, "extra": extra,
                           "killed": killed.clone() }));
    }
    let log = sim.lock().unwrap().log.clone();
    let _ = std::fs::remove_dir_all(base);
    json!({ "steps": steps, "log": log })
}

fn main() {
    std::panic::set_hook(Box::new(|_| {}));
    let rt = tokio::runtime::Builder::new_current_thread().enable_all().build().unwrap();
    // unique even when several checks run at once in different pid namespaces sharing the scratch dir
    let nanos = std::time::SystemTime::now().duration_since(std::time::UNIX_EPOCH).map(|d| d.as_nanos()).unwrap_or(0);
    let root = std::env::temp_dir().join(format!("verif-c19-{}-{nanos}", std::process::id()));
    let stdin = std::io::stdin();
    let out = std::io::stdout();
    let mut n = 0u64;
    for line in stdin.lock().lines() {
        let line = line.unwrap();
        if line.trim().is_empty() {
            continue;
        }
        let case: Value = serde_json::from_str(&line).unwrap();
        n += 1;
        let base = root.join(format!("c{n}"));
        let res = catch_unwind(AssertUnwindSafe(|| rt.block_on(run_history(&case, &base)))).unwrap_or_else(|p| {
            let msg = p
                .downcast_ref::<String>()
                .cloned()
                .or_else(|| p.downcast_ref::<&str>().map(|s| s.to_string()))
                .unwrap_or_default();
            let _ = std::fs::remove_dir_all(&base);
            json!({ "panic": msg })
        });
        let mut o = out.lock();
        writeln!(o, "{res}").unwrap();
    }
    let _ = std::fs::remove_dir_all(&root);
}
