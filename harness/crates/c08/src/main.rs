//! C08 harness: drives the REAL crate-private `ReplicationFetcher` through the cfg-guarded hook
//! `ant_networking::verif_hooks::replication_fetcher::Fetcher`.
//!
//! One JSON object (a whole history) per input line, one JSON object per output line.
//! After every operation the harness records what the operation returned, the
//! `FailedToFetchHolders` events that arrived on the event channel it owns, and the abstract state
//! (both maps with *virtual* deadlines, range, farthest, virtual clock).
//!
//! Time: the fetcher reads `Instant::now()`; the harness lets time pass with the hook's `age(ms)`
//! (which moves every stored deadline into the past) and keeps the virtual clock `V` = sum of the
//! ages.  A stored deadline is reported as `remaining_ms + V` rounded to the case's granularity
//! (default 1000 ms), which is invariant under ageing and absorbs the few real microseconds that
//! pass between calls.
use ant_evm::U256;
use ant_networking::verif_hooks::replication_fetcher::{constants, Fetcher};
use ant_networking::NetworkEvent;
use ant_protocol::storage::{ChunkAddress, RecordType};
use ant_protocol::NetworkAddress;
use libp2p::kad::RecordKey;
use libp2p::PeerId;
use serde_json::{json, Value};
use std::collections::HashMap;
use std::io::{BufRead, Write};
use std::panic::{catch_unwind, AssertUnwindSafe};
use std::str::FromStr;
use xor_name::XorName;

mod driver;

pub(crate) fn unhex(s: &str) -> Vec<u8> {
    (0..s.len() / 2).map(|i| u8::from_str_radix(&s[2 * i..2 * i + 2], 16).unwrap()).collect()
}

/// record types travel as integers: 0 Chunk, 1 Scratchpad, n>=2 NonChunk([n as u8; 32])
pub(crate) fn rtype(v: &Value) -> RecordType {
    match v.as_u64().unwrap() {
        0 => RecordType::Chunk,
        1 => RecordType::Scratchpad,
        n => RecordType::NonChunk(XorName([n as u8; 32])),
    }
}

pub(crate) fn rtype_code(t: &RecordType) -> u64 {
    match t {
        RecordType::Chunk => 0,
        RecordType::Scratchpad => 1,
        RecordType::NonChunk(x) => x.0[0] as u64,
    }
}

struct World {
    peers: Vec<PeerId>,
    keys: Vec<RecordKey>,
    chunk_addr: bool,
}

impl World {
    fn peer_idx(&self, p: &PeerId) -> i64 {
        self.peers.iter().position(|x| x == p).map(|i| i as i64).unwrap_or(-1)
    }
    fn key_idx(&self, k: &RecordKey) -> i64 {
        self.keys.iter().position(|x| x == k).map(|i| i as i64).unwrap_or(-1)
    }
    fn addr(&self, i: usize) -> NetworkAddress {
        let k = &self.keys[i];
        let b: &[u8] = k.as_ref();
        if self.chunk_addr && b.len() == 32 {
            let mut x = [0u8; 32];
            x.copy_from_slice(b);
            NetworkAddress::from_chunk_address(ChunkAddress::new(XorName(x)))
        } else {
            NetworkAddress::from_record_key(k)
        }
    }
}

pub(crate) fn round_to(v: i128, gran: i128) -> i128 {
    // nearest multiple of gran (ties upwards); works for negatives
    (v + gran / 2).div_euclid(gran) * gran
}

async fn run_history(case: &Value) -> Value {
    let peer_of = |v: &Value| PeerId::from_bytes(&unhex(v.as_str().unwrap())).expect("peer id bytes");
    let self_id = peer_of(&case["self"]);
    let w = World {
        peers: case["holders"].as_array().unwrap().iter().map(peer_of).collect(),
        keys: case["keys"].as_array().unwrap().iter().map(|k| RecordKey::from(unhex(k.as_str().unwrap()))).collect(),
        chunk_addr: case.get("addr").and_then(|a| a.as_str()) == Some("chunk"),
    };
    let gran = case.get("gran").and_then(|g| g.as_i64()).unwrap_or(1000) as i128;
    // the NetworkEvent channel the harness owns: capacity and initial occupancy are part of the case
    let chan = case.get("chan").and_then(|c| c.as_u64()).unwrap_or(4096) as usize;
    let (tx, mut rx) = tokio::sync::mpsc::channel::<NetworkEvent>(chan);
    let prefill = case.get("prefill").and_then(|c| c.as_u64()).unwrap_or(0);
    for _ in 0..prefill {
        // the upper layer is busy: filler events occupy the channel
        let _ = tx.try_send(NetworkEvent::KeysToFetchForReplication(vec![]));
    }
    let mut f = Fetcher::new(self_id, tx);
    let mut vclock: i128 = 0;

    let dist: Vec<String> = w.keys.iter().map(|k| f.distance_to_self(k).to_string()).collect();
    let (maxp, fetch_ms, pending_ms) = constants();

    let pairs = |w: &World, v: Vec<(PeerId, RecordKey)>| -> Value {
        Value::Array(v.iter().map(|(p, k)| json!([w.peer_idx(p), w.key_idx(k)])).collect())
    };

    let mut steps: Vec<Value> = Vec::new();
    // the node's record store as the harness tracks it (used by `"held":"auto"` and `complete`)
    let mut store: Vec<(usize, u64)> = Vec::new();
    // expand script-level operations into primitive fetcher calls
    let mut queue: std::collections::VecDeque<Value> = case["ops"].as_array().unwrap().iter().cloned().collect();
    while let Some(op) = queue.pop_front() {
        let name = op["op"].as_str().unwrap().to_string();
        let mut prim = op.clone();
        let out: Value = match name.as_str() {
            // ---- script-level (no fetcher call of their own) ----
            "store" => {
                let k = op["k"].as_u64().unwrap() as usize;
                store.retain(|(i, _)| *i != k);
                store.push((k, op["t"].as_u64().unwrap()));
                continue;
            }
            "unstore" => {
                let k = op["k"].as_u64().unwrap() as usize;
                store.retain(|(i, _)| *i != k);
                continue;
            }
            "complete" => {
                // finish up to n of the fetches that are in flight right now (feedback from the real state)
                let n = op["n"].as_u64().unwrap_or(u64::MAX) as usize;
                let mode = op["mode"].as_str().unwrap_or("put");
                let keep = op["store"].as_bool().unwrap_or(false);
                let shift = op["type_shift"].as_u64().unwrap_or(0);
                let mut og: Vec<(i64, u64)> = f.dump().1.iter().map(|(k, t, _, _)| (w.key_idx(k), rtype_code(t))).collect();
                og.sort();
                if op["from_end"].as_bool().unwrap_or(false) {
                    og.reverse();
                }
                let mut prims = Vec::new();
                for (k, t) in og.into_iter().take(n) {
                    let t2 = if shift == 0 { t } else { t + shift + 1 };
                    if keep {
                        prims.push(json!({"op": "store", "k": k, "t": t2}));
                    }
                    prims.push(json!({"op": mode, "k": k, "t": t2}));
                }
                for p in prims.into_iter().rev() {
                    queue.push_front(p);
                }
                continue;
            }
            // ---- primitive operations ----
            "add" => {
                let holder = w.peers[op["h"].as_u64().unwrap() as usize];
                let inc: Vec<(NetworkAddress, RecordType)> = op["inc"].as_array().unwrap().iter()
                    .map(|e| (w.addr(e[0].as_u64().unwrap() as usize), rtype(&e[1]))).collect();
                if op["held"].as_str() == Some("auto") {
                    let mut st = store.clone();
                    st.sort();
                    prim["held"] = Value::Array(st.iter().map(|(k, t)| json!([k, t])).collect());
                }
                let mut held: HashMap<RecordKey, (NetworkAddress, RecordType)> = HashMap::new();
                for e in prim["held"].as_array().unwrap() {
                    let i = e[0].as_u64().unwrap() as usize;
                    let _ = held.insert(w.keys[i].clone(), (w.addr(i), rtype(&e[1])));
                }
                pairs(&w, f.add_keys(holder, inc, &held))
            }
            "next" => pairs(&w, f.next_keys_to_fetch()),
            "put" => pairs(&w, f.notify_about_new_put(w.keys[op["k"].as_u64().unwrap() as usize].clone(), rtype(&op["t"]))),
            "early" => pairs(&w, f.notify_fetch_early_completed(w.keys[op["k"].as_u64().unwrap() as usize].clone(), rtype(&op["t"]))),
            "range" => {
                f.set_replication_distance_range(U256::from_str(op["r"].as_str().unwrap()).unwrap());
                json!([])
            }
            "far" => {
                let k = op["k"].as_u64().map(|i| w.keys[i as usize].clone());
                f.set_farthest_on_full(k);
                json!([])
            }
            "age" => {
                let ms = op["ms"].as_u64().unwrap();
                f.age(ms);
                vclock += ms as i128;
                json!([])
            }
            other => panic!("unknown op {other}"),
        };
        // let the spawned event-sending tasks run, then (unless the step says the consumer is busy) drain
        // the channel we own; a sender waiting for capacity needs a poll after every receive
        let events = if prim.get("nodrain").and_then(|b| b.as_bool()).unwrap_or(false) {
            for _ in 0..4 {
                tokio::task::yield_now().await;
            }
            Vec::new()
        } else {
            drain_events(&mut rx, &w).await
        };
        let (tbf, ong) = f.dump();
        let mut tbf: Vec<(i64, u64, i64, i128)> = tbf.iter()
            .map(|(k, t, h, r)| (w.key_idx(k), rtype_code(t), w.peer_idx(h), round_to(r + vclock, gran))).collect();
        tbf.sort();
        let mut ong: Vec<(i64, u64, i64, i128)> = ong.iter()
            .map(|(k, t, h, r)| (w.key_idx(k), rtype_code(t), w.peer_idx(h), round_to(r + vclock, gran))).collect();
        ong.sort();
        steps.push(json!({
            "op": prim,
            "out": out,
            "events": events,
            "tbf": tbf.iter().map(|(k, t, h, d)| json!([k, t, h, d.to_string()])).collect::<Vec<_>>(),
            "ong": ong.iter().map(|(k, t, h, d)| json!([k, t, h, d.to_string()])).collect::<Vec<_>>(),
            "range": f.distance_range().map(|r| r.to_string()),
            "far": f.farthest_acceptable_distance().map(|r| r.to_string()),
            "now": vclock.to_string(),
        }));
    }
    // the consumer finally catches up: whatever was still on its way is delivered now
    let late = drain_events(&mut rx, &w).await;
    json!({"dist": dist, "consts": [maxp, fetch_ms.to_string(), pending_ms.to_string()], "steps": steps, "late": late})
}

/// Receive until nothing more arrives (senders blocked on a full channel are polled between receives).
/// Filler events are dropped; FailedToFetchHolders become lists of holder indices.
async fn drain_events(rx: &mut tokio::sync::mpsc::Receiver<NetworkEvent>, w: &World) -> Vec<Value> {
    let mut events = Vec::new();
    loop {
        for _ in 0..4 {
            tokio::task::yield_now().await;
        }
        match rx.try_recv() {
            Ok(NetworkEvent::FailedToFetchHolders(set)) => {
                events.push(Value::Array(set.iter().map(|p| json!(w.peer_idx(p))).collect()))
            }
            Ok(NetworkEvent::KeysToFetchForReplication(v)) if v.is_empty() => {}
            Ok(other) => events.push(json!(format!("{other:?}"))),
            Err(_) => break,
        }
    }
    events
}

fn main() {
    std::panic::set_hook(Box::new(|_| {}));
    // real nodes always run with a tracing subscriber, and `tracing` evaluates the arguments of
    // `error!`/`warn!`/... only for enabled callsites: format every event into a sink so that a panicking
    // log argument surfaces here (as the `panic` class) exactly as it would in a node
    let _ = tracing_subscriber::fmt()
        .with_max_level(match std::env::var("C08_LOG_LEVEL").as_deref() {
            Ok("debug") => tracing::Level::DEBUG,
            Ok("error") => tracing::Level::ERROR,
            _ => tracing::Level::TRACE,
        })
        .with_writer(std::io::sink)
        .try_init();
    let rt = tokio::runtime::Builder::new_current_thread().enable_all().build().unwrap();
    let stdin = std::io::stdin();
    let out = std::io::stdout();
    let mut out = out.lock();
    for line in stdin.lock().lines() {
        let line = line.unwrap();
        if line.trim().is_empty() {
            continue;
        }
        let case: Value = serde_json::from_str(&line).unwrap();
        let res = catch_unwind(AssertUnwindSafe(|| match case.get("mode").and_then(|m| m.as_str()) {
            Some("peerinfo") => driver::peerinfo(&case),
            Some("driver") => rt.block_on(driver::run_driver_history(&case)),
            _ => rt.block_on(run_history(&case)),
        })).unwrap_or_else(|p| {
            let msg = p.downcast_ref::<String>().cloned()
                .or_else(|| p.downcast_ref::<&str>().map(|s| s.to_string()))
                .unwrap_or_default();
            json!({"panic": msg})
        });
        writeln!(out, "{res}").unwrap();
    }
}
