//! Driver-level cases: the PutLocalRecord / FetchCompleted arms of the REAL
//! `SwarmDriver::handle_local_cmd` around the driver-owned fetcher, against a real record store
//! that is filled to `max_records` (the builder offers no smaller capacity) with harness-generated
//! filler keys closer than a given distance.  The harness plays the driver's event loop: it feeds the
//! commands, hands the store's own follow-up commands back, and reads the NetworkEvent channel.
use ant_evm::U256;
use ant_networking::verif_hooks::{cmd as nethooks, replication_fetcher as fh, LocalSwarmCmd};
use ant_networking::{NetworkBuilder, NetworkEvent, SwarmDriver};
use ant_protocol::storage::{try_serialize_record, Chunk, RecordKind, RecordType};
use ant_protocol::NetworkAddress;
use libp2p::identity::Keypair;
use libp2p::kad::{Record, RecordKey};
use libp2p::PeerId;
use serde_json::{json, Value};
use sha2::{Digest, Sha256};
use std::str::FromStr;

use crate::{round_to, rtype, rtype_code, unhex};

pub fn keypair(seed: u64) -> Keypair {
    let mut b = [0u8; 32];
    b[..8].copy_from_slice(&seed.to_le_bytes());
    b[31] = 1;
    Keypair::ed25519_from_bytes(b).expect("ed25519 seed")
}

pub fn peerinfo(case: &Value) -> Value {
    let kp = keypair(case["kp_seed"].as_u64().unwrap());
    json!({"peer": kp.public().to_peer_id().to_bytes().iter().map(|b| format!("{b:02x}")).collect::<String>()})
}

struct W {
    peers: Vec<PeerId>,
    keys: Vec<RecordKey>,
}
impl W {
    fn peer_idx(&self, p: &PeerId) -> i64 {
        self.peers.iter().position(|x| x == p).map(|i| i as i64).unwrap_or(-1)
    }
    fn key_idx(&self, k: &RecordKey) -> i64 {
        self.keys.iter().position(|x| x == k).map(|i| i as i64).unwrap_or(-1)
    }
}

fn record_for(key: &RecordKey, t: u64) -> Record {
    // a record whose header says Chunk (t = 0) or Scratchpad (t = 1); put_verified reads the header only
    let chunk = Chunk::new(bytes::Bytes::from(vec![7u8; 48]));
    let kind = if t == 0 { RecordKind::Chunk } else { RecordKind::Scratchpad };
    Record {
        key: key.clone(),
        value: try_serialize_record(&chunk, kind).expect("serialise").to_vec(),
        publisher: None,
        expires: None,
    }
}

/// let spawned tasks run, hand the store's own follow-up commands back to the driver
async fn settle(driver: &mut SwarmDriver) {
    for _ in 0..3 {
        for _ in 0..6 {
            tokio::task::yield_now().await;
        }
        tokio::time::sleep(std::time::Duration::from_millis(2)).await;
        while let Some(cmd) = driver.verif_try_recv_local_cmd() {
            let _ = nethooks::handle_local_cmd(driver, cmd);
        }
    }
}

pub async fn run_driver_history(case: &Value) -> Value {
    let kp = keypair(case["kp_seed"].as_u64().unwrap());
    let self_bytes = kp.public().to_peer_id().to_bytes();
    let dir = tempfile::tempdir().expect("tempdir");
    let mut nb = NetworkBuilder::new(kp, true);
    nb.listen_addr("127.0.0.1:0".parse().unwrap());
    let (_network, mut events, mut driver) = nb.build_node(dir.path().to_path_buf()).expect("build_node");
    let peer_of = |v: &Value| PeerId::from_bytes(&unhex(v.as_str().unwrap())).expect("peer id bytes");
    let w = W {
        peers: case["holders"].as_array().unwrap().iter().map(peer_of).collect(),
        keys: case["keys"].as_array().unwrap().iter().map(|k| RecordKey::from(unhex(k.as_str().unwrap()))).collect(),
    };
    let gran = case.get("gran").and_then(|g| g.as_i64()).unwrap_or(1000) as i128;
    let mut vclock: i128 = 0;
    let dist: Vec<String> = w.keys.iter().map(|k| fh::driver_distance_to_self(&driver, k).to_string()).collect();
    let (maxp, fetch_ms, pending_ms) = fh::constants();

    // fill the store: generated keys closer than `below`, marked as stored through the real command
    let mut filled = 0u64;
    if let Some(fill) = case.get("fill") {
        let n = fill["n"].as_u64().unwrap();
        let seed = fill["seed"].as_u64().unwrap();
        let below = U256::from_str(fill["below"].as_str().unwrap()).unwrap();
        let mut ctr: u64 = 0;
        let self_digest = Sha256::digest(&self_bytes);
        while filled < n {
            let mut h = Sha256::new();
            h.update(seed.to_le_bytes());
            h.update(ctr.to_le_bytes());
            ctr += 1;
            let key = RecordKey::from(h.finalize().to_vec());
            // XOR of the two SHA-256 digests (the reported distances of the case's keys come from the fetcher)
            let kd = Sha256::digest(key.as_ref());
            let mut x = [0u8; 32];
            for i in 0..32 {
                x[i] = self_digest[i] ^ kd[i];
            }
            if U256::from_be_bytes(x) < below {
                let _ = nethooks::handle_local_cmd(
                    &mut driver,
                    LocalSwarmCmd::AddLocalRecordAsStored { key, record_type: RecordType::Chunk },
                );
                filled += 1;
            }
        }
    }
    while events.try_recv().is_ok() {}

    let mut steps: Vec<Value> = Vec::new();
    // real time must not count as time: before every command the stored deadlines are moved forward by
    // the real time that passed since the previous synchronisation point (driver steps take milliseconds)
    let mut last_sync = std::time::Instant::now();
    for op in case["ops"].as_array().unwrap() {
        let nowi = std::time::Instant::now();
        fh::driver_fetcher_rewind_micros(&mut driver, nowi.duration_since(last_sync).as_micros() as u64);
        last_sync = nowi;
        let name = op["op"].as_str().unwrap();
        let mut prim = op.clone();
        let mut direct_out: Option<Value> = None;
        match name {
            "add" => {
                let holder = w.peers[op["h"].as_u64().unwrap() as usize];
                let inc: Vec<(NetworkAddress, RecordType)> = op["inc"].as_array().unwrap().iter()
                    .map(|e| (NetworkAddress::from_record_key(&w.keys[e[0].as_u64().unwrap() as usize]), rtype(&e[1])))
                    .collect();
                // the store index restricted to the keys of the case (filler keys never meet the fetcher)
                let held: Vec<Value> = driver.verif_record_addresses().iter()
                    .filter_map(|(a, t)| { let i = w.key_idx(&a.to_record_key()); if i >= 0 { Some(json!([i, rtype_code(t)])) } else { None } })
                    .collect();
                prim["held"] = Value::Array(held);
                let ret = fh::driver_fetcher_add_keys(&mut driver, holder, inc);
                direct_out = Some(Value::Array(ret.iter().map(|(p, k)| json!([w.peer_idx(p), w.key_idx(k)])).collect()));
            }
            "put" => {
                let k = op["k"].as_u64().unwrap() as usize;
                let t = op["t"].as_u64().unwrap();
                let res = nethooks::handle_local_cmd(&mut driver, LocalSwarmCmd::PutLocalRecord { record: record_for(&w.keys[k], t) });
                prim["op"] = json!("putarm");
                prim["res"] = json!(match &res {
                    Ok(()) => "ok".to_string(),
                    Err(e) if format!("{e:?}").contains("MaxRecords") => "max".to_string(),
                    Err(e) => format!("err:{e:?}"),
                });
            }
            "early" => {
                let k = op["k"].as_u64().unwrap() as usize;
                let _ = nethooks::handle_local_cmd(&mut driver, LocalSwarmCmd::FetchCompleted((w.keys[k].clone(), rtype(&op["t"]))));
            }
            "age" => {
                let ms = op["ms"].as_u64().unwrap();
                fh::driver_fetcher_age(&mut driver, ms);
                vclock += ms as i128;
            }
            other => panic!("unknown driver op {other}"),
        }
        // what the store says right after the command (before its follow-up commands are handled):
        // a refused put leaves the store untouched, so this is what the arm saw
        let (store_len, store_far) = fh::driver_store_len_and_farthest(&mut driver);
        prim["store_len"] = json!(store_len);
        prim["far_dist"] = json!(store_far.as_ref().map(|k| fh::driver_distance_to_self(&driver, k).to_string()));
        prim["far_key"] = json!(store_far.as_ref().map(|k| w.key_idx(k)).unwrap_or(-1));
        prim["rng"] = json!(nethooks::get_responsible_distance_range(&mut driver).map(|r| r.to_string()));
        settle(&mut driver).await;
        // NetworkEvents the driver emitted during this step
        let mut out: Vec<Value> = Vec::new();
        let mut nfetch_events = 0;
        let mut evs: Vec<Value> = Vec::new();
        while let Ok(ev) = events.try_recv() {
            match ev {
                NetworkEvent::KeysToFetchForReplication(list) => {
                    nfetch_events += 1;
                    out.extend(list.iter().map(|(p, k)| json!([w.peer_idx(p), w.key_idx(k)])));
                }
                NetworkEvent::FailedToFetchHolders(set) => evs.push(Value::Array(set.iter().map(|p| json!(w.peer_idx(p))).collect())),
                _ => {}
            }
        }
        let out = direct_out.unwrap_or(Value::Array(out));
        let nowi = std::time::Instant::now();
        fh::driver_fetcher_rewind_micros(&mut driver, nowi.duration_since(last_sync).as_micros() as u64);
        last_sync = nowi;
        let (tbf, ong, range, far) = fh::driver_fetcher_dump(&driver);
        let mut tbf: Vec<(i64, u64, i64, i128)> = tbf.iter()
            .map(|(k, t, h, r)| (w.key_idx(k), rtype_code(t), w.peer_idx(h), round_to(r + vclock, gran))).collect();
        tbf.sort();
        let mut ong: Vec<(i64, u64, i64, i128)> = ong.iter()
            .map(|(k, t, h, r)| (w.key_idx(k), rtype_code(t), w.peer_idx(h), round_to(r + vclock, gran))).collect();
        ong.sort();
        steps.push(json!({
            "op": prim,
            "out": out,
            "nfetch_events": nfetch_events,
            "events": evs,
            "tbf": tbf.iter().map(|(k, t, h, d)| json!([k, t, h, d.to_string()])).collect::<Vec<_>>(),
            "ong": ong.iter().map(|(k, t, h, d)| json!([k, t, h, d.to_string()])).collect::<Vec<_>>(),
            "range": range.map(|r| r.to_string()),
            "far": far.map(|r| r.to_string()),
            "now": vclock.to_string(),
        }));
    }
    json!({"dist": dist, "consts": [maxp, fetch_ms.to_string(), pending_ms.to_string()], "steps": steps,
           "late": [], "filled": filled})
}
