"""Shared driver library for the /verif checks.

Every property check is `tools/props/Cxx.py` with a `run(ctx)` function; this module provides
the context object: constant regeneration, the Coq build and axiom audit, the Rust harness build
and execution, evaluation of the Coq model on the cases the implementation ran, the verdict
logic (VIOLATION / KNOWN-FINDING / no-failing-input-found) and the evidence file.
"""
import fcntl
import glob
import hashlib
import json
import os
import random
import re
import shutil
import subprocess
import sys
import time

VERIF = os.path.dirname(os.path.dirname(os.path.dirname(os.path.abspath(__file__))))
REPO = os.environ.get("VERIF_REPO", "/repo")
COQ = os.path.join(VERIF, "coq")
CACHE = os.path.join(VERIF, ".cache")
TARGET = os.environ.get("VERIF_TARGET_DIR", os.path.join(CACHE, "target"))
HARNESS = os.path.join(VERIF, "harness")
OUT = os.path.join(VERIF, "out")
GUARD = "maidsafe_safe_network_verif"
NCPU = os.cpu_count() or 4

FORBIDDEN = re.compile(
    r"\b(Admitted|admit|Axiom|Axioms|Parameter|Parameters|Conjecture|Conjectures|Abort All|"
    r"Admit Obligations|give_up|bypass_check|Unset Guard Checking|Unset Positivity Checking|"
    r"Unset Universe Checking|Guard Checking|type-in-type|impredicative-set|native_compute)\b")

# axioms of the standard library a proof may rely on (each is named in the evidence when used)
AXIOM_ALLOW = {
    "functional_extensionality_dep", "FunctionalExtensionality.functional_extensionality_dep",
    "proof_irrelevance", "ProofIrrelevance.proof_irrelevance", "Eqdep.Eq_rect_eq.eq_rect_eq",
    "JMeq_eq", "JMeq.JMeq_eq", "classic", "Classical_Prop.classic",
    "propositional_extensionality",
}


def sh(cmd, timeout=None, cwd=None, env=None, input=None):
    """Run a command, return (returncode, stdout+stderr). rc=124 on timeout."""
    try:
        p = subprocess.run(cmd, shell=isinstance(cmd, str), cwd=cwd, env=env, input=input,
                           stdout=subprocess.PIPE, stderr=subprocess.STDOUT, timeout=timeout,
                           text=True, errors="replace")
        return p.returncode, p.stdout
    except subprocess.TimeoutExpired as e:
        out = e.stdout or ""
        if isinstance(out, bytes):
            out = out.decode("utf-8", "replace")
        return 124, out + "\n[timeout]"


class Lock:
    def __init__(self, name):
        os.makedirs(CACHE, exist_ok=True)
        self.path = os.path.join(CACHE, name + ".lock")

    def __enter__(self):
        self.f = open(self.path, "w")
        fcntl.flock(self.f, fcntl.LOCK_EX)
        return self

    def __exit__(self, *a):
        fcntl.flock(self.f, fcntl.LOCK_UN)
        self.f.close()


# ----------------------------------------------------------------------------------------------
# Coq term rendering helpers (python value -> Gallina source text)
# ----------------------------------------------------------------------------------------------

def cN(n):
    assert n >= 0
    return "%d%%N" % n


def cZ(n):
    return "(%d)%%Z" % n


def cbool(b):
    return "true" if b else "false"


def cstr(s):
    """Coq `string` for a python str (encoded as UTF-8) or bytes."""
    b = s.encode("utf-8") if isinstance(s, str) else bytes(s)
    if all(0x20 <= c <= 0x7e for c in b):
        return '"%s"%%string' % b.decode("ascii").replace('"', '""')
    return "(of_codes [%s]%%N)" % "; ".join(str(c) for c in b)


def cbytes(b):
    """`list N` of byte values through the hex reader V.lib.Strs.hx."""
    if isinstance(b, str):
        b = bytes.fromhex(b)
    return '(hx "%s")' % bytes(b).hex()


def clist(items):
    return "[" + "; ".join(items) + "]"


def copt(x, f=lambda v: v):
    return "None" if x is None else "(Some %s)" % f(x)


def cpair(a, b):
    return "(%s, %s)" % (a, b)


# ----------------------------------------------------------------------------------------------

class Known:
    def __init__(self):
        self.known = {}   # (prop, class) -> desc
        self.fixed = []
        p = os.path.join(VERIF, "known_findings.txt")
        if os.path.exists(p):
            for line in open(p):
                line = line.strip()
                if not line or line.startswith("#"):
                    continue
                m = re.match(r"known:\s+property=(\S+)\s+class=(\S+)\s+(.*)", line)
                if m:
                    self.known[(m.group(1), m.group(2))] = m.group(3)
                    continue
                m = re.match(r"fixed:\s+property=(\S+)\s+(\S+)\s+(.*)", line)
                if m:
                    self.fixed.append(m.groups())


class Ctx:
    def __init__(self, prop, tier, seed, replay=None):
        self.prop = prop
        self.tier = tier
        self.seed = seed
        self.replay = replay
        self.rng = random.Random("%s/%s/%d" % (prop, tier, seed))
        self.t0 = time.time()
        self.known = Known()
        self.impl_viol = []       # (class|None, desc, replay_obj)
        self.tie_breaks = []      # (kind, name, detail)
        self.log_lines = []
        self.cov = {"evaluations": 0, "distinct_nontrivial": 0, "rule": "", "samples": [],
                    "traces_validated_against_impl": 0, "obligations": 0, "discharged": 0,
                    "checker_cmd": "", "trusted_base": [], "exhaustive": False,
                    "distribution": {}, "theorems": {}, "consts_digest": ""}
        self.assumptions = []
        self._nontrivial = set()
        self.level = "proof"
        os.makedirs(OUT, exist_ok=True)
        os.makedirs(os.path.join(COQ, "cases"), exist_ok=True)

    # ------------------------------------------------------------------ logging
    def log(self, *a):
        msg = " ".join(str(x) for x in a)
        self.log_lines.append(msg)
        print("[%s %6.1fs] %s" % (self.prop, time.time() - self.t0, msg), flush=True)

    # ------------------------------------------------------------------ constants translator
    def regen_consts(self):
        """Re-extract constants/tables from /repo's source text into coq/gen/Consts.v."""
        p = subprocess.run([sys.executable, os.path.join(VERIF, "tools", "extract_consts.py"), REPO],
                           stdout=subprocess.PIPE, stderr=subprocess.DEVNULL, text=True, timeout=120)
        rc, out = p.returncode, p.stdout
        if rc != 0:
            self.tie_break("translator", "extract_consts",
                           "constant extraction from the source crashed:\n" + out[-3000:])
            return False
        for m in re.findall(r"\(\* EXTRACTION FAILED: (.*?) \*\)", out):
            self.log("translator: " + m + "  (the constant is left undefined; dependent proofs will not check)")
        path = os.path.join(COQ, "gen", "Consts.v")
        with Lock("coq"):
            old = open(path).read() if os.path.exists(path) else None
            if old != out:
                with open(path, "w") as f:
                    f.write(out)
                self.log("Consts.v regenerated (changed)")
        self.cov["consts_digest"] = hashlib.sha256(out.encode()).hexdigest()[:16]
        return True

    # ------------------------------------------------------------------ Coq build
    def _coq_files(self):
        fs = []
        for d in ("lib", "gen", "model", "proofs", "props"):
            fs += sorted(glob.glob(os.path.join(COQ, d, "*.v")))
        return [os.path.relpath(f, COQ) for f in fs]

    def coq_prepare(self):
        files = self._coq_files()
        proj = "-Q . V\n-arg -w -arg -notation-overridden,-deprecated-hint-without-locality," \
               "-deprecated-instance-without-locality,-ambiguous-paths\n" + "\n".join(files) + "\n"
        pp = os.path.join(COQ, "_CoqProject")
        if not os.path.exists(pp) or open(pp).read() != proj or \
                not os.path.exists(os.path.join(COQ, "Makefile")):
            with open(pp, "w") as f:
                f.write(proj)
            rc, out = sh("coq_makefile -f _CoqProject -o Makefile", cwd=COQ, timeout=120)
            if rc != 0:
                raise RuntimeError("coq_makefile failed: " + out)

    def coq_make(self, targets, timeout=1500):
        """Full .vo build of the given targets (paths relative to coq/). Returns (ok, log)."""
        with Lock("coq"):
            self.coq_prepare()
            tg = " ".join(t if t.endswith(".vo") else t + "o" for t in targets)
            rc, out = sh("timeout %d make -j%d %s 2>&1" % (timeout, NCPU, tg), cwd=COQ,
                         timeout=timeout + 30)
        return rc == 0, out

    def cone(self, target_v):
        """Transitive set of project .v files `target_v` depends on (via coqdep)."""
        rc, out = sh("coqdep -Q . V " + " ".join(self._coq_files()), cwd=COQ, timeout=120)
        deps = {}
        for line in out.splitlines():
            m = re.match(r"(\S+)\.vo\s.*?:\s+(.*)", line)
            if not m:
                continue
            src = m.group(1) + ".v"
            ds = [d[:-1] for d in m.group(2).split() if d.endswith(".vo")]
            deps[src] = [d for d in ds if d != src]
        seen, todo = set(), [target_v]
        while todo:
            f = todo.pop()
            if f in seen:
                continue
            seen.add(f)
            todo += deps.get(f, [])
        return sorted(seen)

    def hygiene(self, files):
        bad = []
        for f in files:
            txt = open(os.path.join(COQ, f)).read()
            txt = re.sub(r"\(\*.*?\*\)", " ", txt, flags=re.S)
            for m in FORBIDDEN.finditer(txt):
                bad.append("%s: %s" % (f, m.group(0)))
        return bad

    def prove(self, target_v, theorems, timeout=1500, extra_trusted=()):
        """Build props/Cxx.v's cone, audit hygiene and `Print Assumptions` of each pinned theorem.

        `theorems` are names defined in the target module. Records obligations/discharged.
        Returns True iff every obligation was discharged."""
        self._prove_target = target_v
        ok, log = self.coq_make([target_v], timeout)
        cone = self.cone(target_v)
        n_obl = 0
        for f in cone:
            txt = open(os.path.join(COQ, f)).read()
            txt = re.sub(r"\(\*.*?\*\)", " ", txt, flags=re.S)
            n_obl += len(re.findall(
                r"^\s*(?:Local\s+|Global\s+|#\[[^\]]*\]\s*)?(?:Theorem|Lemma|Example|Corollary|Fact|Remark|Proposition)\s",
                txt, flags=re.M))
        self.cov["obligations"] = n_obl
        self.cov["cone_files"] = cone
        self.cov["checker_cmd"] = "cd /verif/coq && coq_makefile -f _CoqProject -o Makefile && " \
                                  "make %so   (coqc 8.16.1, full .vo build)" % target_v
        if not ok:
            m = re.search(r'File "([^"]+)", line (\d+).*?\n(Error:.*?)(?:\n\n|\Z)', log, flags=re.S)
            where = ("%s:%s %s" % (m.group(1), m.group(2), m.group(3)[:1500])) if m else log[-2500:]
            self.cov["discharged"] = 0
            self.tie_break("proof", target_v, "coqc rejected the development: " + where)
            return False
        bad = self.hygiene(cone)
        if bad:
            self.cov["discharged"] = 0
            self.tie_break("proof", target_v, "forbidden construct in the development: " + "; ".join(bad))
            return False
        # axiom audit
        mod = "V." + target_v[:-2].replace("/", ".")
        src = "Require Import %s.\n" % mod + "".join(
            'Print Assumptions %s.\n' % t for t in theorems)
        name = "%s_assump_%d" % (self.prop, os.getpid())
        vf = os.path.join(COQ, "cases", name + ".v")
        with open(vf, "w") as f:
            f.write(src)
        rc, out = sh("timeout 300 coqc -noglob -Q . V cases/%s.v" % name, cwd=COQ, timeout=330)
        for ext in (".v", ".vo", ".vok", ".vos", ".glob"):
            try:
                os.remove(os.path.join(COQ, "cases", name + ext))
            except OSError:
                pass
        if rc != 0:
            self.cov["discharged"] = 0
            self.tie_break("proof", target_v, "pinned theorem missing or axiom audit failed: " + out[-2000:])
            return False
        # parse: blocks separated per Print Assumptions
        blocks = re.split(r"(?=Closed under the global context|Axioms:)", out)
        blocks = [b for b in blocks if b.strip()]
        okall = True
        used_axioms = set()
        if len(blocks) != len(theorems):
            okall = False
            self.tie_break("proof", target_v, "axiom audit output not understood: " + out[-1500:])
        else:
            for t, b in zip(theorems, blocks):
                if b.startswith("Closed under the global context"):
                    self.cov["theorems"][t] = "Closed under the global context"
                else:
                    names = re.findall(r"^([A-Za-z_][\w.']*)\s*:", b, flags=re.M)
                    self.cov["theorems"][t] = "Axioms: " + ", ".join(names)
                    for n in names:
                        used_axioms.add(n)
                        if n not in AXIOM_ALLOW and n.split(".")[-1] not in AXIOM_ALLOW:
                            okall = False
                            self.tie_break("proof", t, "depends on a non-allow-listed axiom or an "
                                           "unproved section hypothesis: " + n)
        if okall and self.tier == "thorough" and not self.replay:
            # independent re-check of the compiled cone (and everything it depends on) with coqchk
            rc, out = sh("timeout 1500 coqchk -o -silent -Q . V %s" % mod, cwd=COQ, timeout=1530)
            m = re.search(r"\* Axioms:(.*?)\n\s*\n\* Constants/Inductives relying on type-in-type:(.*?)\n", out, flags=re.S)
            summary = re.sub(r"\s+", " ", out[out.find("CONTEXT SUMMARY"):])[:1500] if "CONTEXT SUMMARY" in out else out[-800:]
            self.cov["coqchk"] = summary
            if rc != 0 or "CONTEXT SUMMARY" not in out:
                okall = False
                self.tie_break("proof", "coqchk " + mod, "coqchk did not accept the compiled development: " + out[-1500:])
            else:
                for sect in ("type-in-type", "unsafe (co)fixpoints", "positivity is assumed"):
                    mm = re.search(re.escape(sect) + r":\s*(.*?)\n", out)
                    if mm and "<none>" not in mm.group(1):
                        okall = False
                        self.tie_break("proof", "coqchk " + mod, "coqchk reports %s: %s" % (sect, mm.group(1)))
                ax = re.search(r"\* Axioms:\s*(.*?)\n\s*\n\*", out, flags=re.S)
                if ax and "<none>" not in ax.group(1):
                    for name in re.findall(r"([\w.']+)", ax.group(1)):
                        if name.split(".")[-1] not in AXIOM_ALLOW and name not in AXIOM_ALLOW:
                            okall = False
                            self.tie_break("proof", "coqchk " + mod, "coqchk lists a non-allow-listed axiom: " + name)
        self.cov["discharged"] = n_obl if okall else 0
        tb = ["Coq 8.16.1 kernel (coqc, vm_compute used for closed computations; no native_compute)",
              "Print Assumptions per pinned theorem: " + "; ".join(
                  "%s: %s" % kv for kv in sorted(self.cov["theorems"].items()))]
        if self.cov.get("coqchk"):
            tb.append("coqchk -o (independent checker) on the property's compiled cone: " + self.cov["coqchk"][:400])
        tb += list(extra_trusted)
        self.cov["trusted_base"] = tb
        return okall

    # ------------------------------------------------------------------ harness
    def cargo_build(self, crate, timeout=3000):
        """Build harness crate `crate` against /repo's current working tree with the hook cfg on."""
        lock_src = os.path.join(REPO, "Cargo.lock")
        lock_dst = os.path.join(HARNESS, "Cargo.lock")
        env = dict(os.environ)
        env["CARGO_NET_OFFLINE"] = "true"
        env["CARGO_TARGET_DIR"] = TARGET
        env["RUSTFLAGS"] = "--cfg %s -Awarnings" % GUARD
        env.setdefault("CARGO_INCREMENTAL", "0")
        with Lock("cargo"):
            # always start from /repo's full lock file: cargo prunes harness/Cargo.lock to the current
            # members, and re-resolving a newly added dependency offline can pick a yanked version
            shutil.copy(lock_src, lock_dst)
            rc, out = sh("timeout %d cargo build --offline -p %s 2>&1" % (timeout, crate),
                         cwd=HARNESS, env=env, timeout=timeout + 30)
        if rc != 0:
            self.tie_break("harness-build", crate,
                           "the harness no longer builds against /repo (an API the model is tied to "
                           "changed, or /repo does not compile):\n" + out[-4000:])
            return None
        return os.path.join(TARGET, "debug", crate)

    def run_harness(self, binary, cases, timeout=1800, args=(), env_extra=None):
        """Feed one JSON object per line, read one JSON object per line."""
        inp = "".join(json.dumps(c) + "\n" for c in cases)
        env = dict(os.environ)
        env["RUST_BACKTRACE"] = "0"
        # harness scratch directories live in a private temp dir: some of the repository's own tests use
        # the system temp dir itself as a record store and delete hex-named files they cannot decrypt
        tmpd = os.path.join(CACHE, "tmp")
        os.makedirs(tmpd, exist_ok=True)
        env["TMPDIR"] = tmpd
        if env_extra:
            env.update(env_extra)
        try:
            p = subprocess.run([binary] + list(args), input=inp, stdout=subprocess.PIPE,
                               stderr=subprocess.PIPE, timeout=timeout, text=True, errors="replace",
                               env=env)
        except subprocess.TimeoutExpired:
            self.tie_break("harness-run", os.path.basename(binary), "harness timed out")
            return None
        outs = []
        for line in p.stdout.splitlines():
            line = line.strip()
            if line.startswith("{") or line.startswith("["):
                try:
                    outs.append(json.loads(line))
                except ValueError:
                    pass
        if p.returncode != 0 or len(outs) != len(cases):
            self.tie_break("harness-run", os.path.basename(binary),
                           "harness exited %s after %d/%d cases; stderr tail: %s"
                           % (p.returncode, len(outs), len(cases), p.stderr[-2000:]))
            # still return what we have, padded, so that oracles can look at completed cases
            outs += [None] * (len(cases) - len(outs))
        return outs

    # ------------------------------------------------------------------ model evaluation
    def coq_eval_bools(self, imports, terms, tag="cases", shard_size=250, timeout=900):
        """Evaluate each term; if another check rebuilt a shared .vo meanwhile (coqc then reports
        inconsistent assumptions), rebuild this property's cone and evaluate again."""
        for attempt in range(3):
            n_before = len(self.tie_breaks)
            r = self._coq_eval_bools_once(imports, terms, tag, shard_size, timeout)
            if r is not None:
                return r
            last = self.tie_breaks[-1][2] if len(self.tie_breaks) > n_before else ""
            if attempt < 2 and isinstance(last, str) and ("inconsistent assumptions" in last or "bad version number" in last or "Cannot find a physical path" in last):
                del self.tie_breaks[n_before:]
                self.log("model evaluation raced with another build; rebuilding the cone and retrying")
                if getattr(self, "_prove_target", None):
                    self.coq_make([self._prove_target])
                continue
            return None
        return None

    def _coq_eval_bools_once(self, imports, terms, tag="cases", shard_size=250, timeout=900):
        """Evaluate each Gallina term (of type bool) with vm_compute inside coqc.
        Returns the list of indices whose value is not `true`, or None if evaluation failed."""
        if not terms:
            return []
        shards = [list(range(i, min(i + shard_size, len(terms)))) for i in range(0, len(terms), shard_size)]
        procs = []
        base = "%s_%s_%d" % (self.prop, tag, os.getpid())
        for si, idxs in enumerate(shards):
            name = "%s_%d" % (base, si)
            with open(os.path.join(COQ, "cases", name + ".v"), "w") as f:
                f.write("Require Import Coq.Lists.List Coq.NArith.NArith Coq.ZArith.ZArith Coq.Strings.String Coq.Bool.Bool.\n")
                f.write("Require Import V.lib.Strs V.lib.Harness.\n" + imports + "\n")
                f.write("Import ListNotations.\nOpen Scope bool_scope.\nOpen Scope N_scope.\nSet Printing Width 1000000.\nSet Printing Depth 10000000.\n")
                f.write("Definition cs : list bool := [\n" + ";\n".join(
                    "  (%s)" % terms[i] for i in idxs) + "\n].\n")
                f.write("Eval vm_compute in (bad_indices cs).\n")
            procs.append((name, idxs))
        bad = []
        failed = None
        # run up to NCPU coqc at a time
        running = []
        pending = list(procs)

        def reap(block):
            nonlocal failed
            for ent in list(running):
                name, idxs, p, t_start = ent
                if p.poll() is None:
                    if time.time() - t_start > timeout:
                        p.kill()
                        failed = "coqc timed out on " + name
                        running.remove(ent)
                    continue
                # (coqc writes to a file, not a pipe: an ill-typed shard makes it print far more than a
                #  pipe buffer holds, and it would then block for ever instead of exiting with the error)
                with open(os.path.join(COQ, "cases", name + ".out"), errors="replace") as fo:
                    out = fo.read()
                running.remove(ent)
                if p.returncode != 0:
                    failed = "coqc failed on %s: %s" % (name, (out[:1500] + " ... " + out[-1500:]) if len(out) > 3000 else out)
                    continue
                m = re.search(r"=\s*\[(.*?)\]\s*:\s*list N", out, flags=re.S)
                if not m:
                    failed = "unparsable coqc output on %s: %s" % (name, out[-1000:])
                    continue
                for k in re.findall(r"(\d+)%N", m.group(1)) or re.findall(r"\d+", m.group(1)):
                    bad.append(idxs[int(k)])

        while pending or running:
            while pending and len(running) < NCPU:
                name, idxs = pending.pop(0)
                p = subprocess.Popen("exec coqc -noglob -Q . V cases/%s.v > cases/%s.out 2>&1" % (name, name),
                                     shell=True, cwd=COQ)
                running.append((name, idxs, p, time.time()))
            reap(False)
            time.sleep(0.02)
        for name, _ in procs:
            for ext in (".v", ".vo", ".vok", ".vos", ".glob", ".out"):
                try:
                    os.remove(os.path.join(COQ, "cases", name + ext))
                except OSError:
                    pass
        if failed:
            self.tie_break("model-eval", tag, failed)
            return None
        return sorted(bad)

    def coq_show(self, imports, term, timeout=120):
        """Evaluate one term and return Coq's printed value (diagnostics for replay files)."""
        name = "%s_show_%d" % (self.prop, os.getpid())
        with open(os.path.join(COQ, "cases", name + ".v"), "w") as f:
            f.write("Require Import Coq.Lists.List Coq.NArith.NArith Coq.ZArith.ZArith Coq.Strings.String Coq.Bool.Bool.\n")
            f.write("Require Import V.lib.Strs V.lib.Harness.\n" + imports + "\n")
            f.write("Import ListNotations.\nOpen Scope bool_scope.\nOpen Scope N_scope.\nSet Printing Width 200.\n")
            f.write("Eval vm_compute in (%s).\n" % term)
        rc, out = sh("timeout %d coqc -noglob -Q . V cases/%s.v" % (timeout, name), cwd=COQ, timeout=timeout + 10)
        for ext in (".v", ".vo", ".vok", ".vos", ".glob"):
            try:
                os.remove(os.path.join(COQ, "cases", name + ext))
            except OSError:
                pass
        return out.strip()[-4000:]

    # ------------------------------------------------------------------ standard pipeline
    def pipeline(self, cases, binary, oracle, model_term, imports, nontrivial=None, show=None,
                 relation="impl(x) == model(x)", harness_args=(), shard_size=250, env_extra=None):
        """corpus + generated cases -> implementation -> oracle + model agreement."""
        if binary is None or not cases:
            return
        outs = self.run_harness(binary, cases, args=harness_args, env_extra=env_extra)
        if outs is None:
            return
        self.cov["evaluations"] += len(cases)
        terms, tidx = [], []
        for i, (c, o) in enumerate(zip(cases, outs)):
            if o is None:
                continue
            kind = c.get("kind", c.get("op", "?"))
            self.cov["distribution"][kind] = self.cov["distribution"].get(kind, 0) + 1
            for cls, desc in (oracle(c, o) or []):
                self.impl_violation(cls, desc, {"case": c, "impl": o})
            if nontrivial:
                k = nontrivial(c, o)
                if k is not None:
                    self._nontrivial.add(k)
            t = model_term(c, o)
            if t is not None:
                terms.append(t)
                tidx.append(i)
        self.log("implementation ran %d cases; %d oracle violation(s) so far; evaluating the model on %d"
                 % (len(cases), len(self.impl_viol), len(terms)))
        bad = self.coq_eval_bools(imports, terms, shard_size=shard_size)
        if bad is None:
            return
        self.cov["traces_validated_against_impl"] += len(terms) - len(bad)
        for b in bad[:4]:
            i = tidx[b]
            detail = {"case": cases[i], "impl": outs[i], "agreement_term": terms[b]}
            if show:
                try:
                    detail["model"] = self.coq_show(imports, show(cases[i], outs[i]))
                except Exception as e:   # diagnostics only
                    detail["model"] = "show failed: %r" % e
            self.tie_break("correspondence", relation, detail)
        if len(bad) > 4:
            self.log("... and %d more disagreements" % (len(bad) - 4))
        if len(self.cov["samples"]) < 6:
            for i in range(0, len(cases), max(1, len(cases) // 3)):
                if outs[i] is not None and len(self.cov["samples"]) < 6:
                    self.cov["samples"].append({"case": cases[i], "impl": outs[i]})

    def corpus(self):
        """Minimised failing cases and refuted-witness replays kept under corpus/Cxx/ (run first)."""
        if self.replay:
            obj = json.load(open(self.replay))
            cs = obj.get("cases") or ([obj["case"]] if "case" in obj else [])
            return cs
        cs = []
        for f in sorted(glob.glob(os.path.join(VERIF, "corpus", self.prop, "*.json"))):
            obj = json.load(open(f))
            cs += obj["cases"] if isinstance(obj, dict) else obj
        return cs

    # ------------------------------------------------------------------ verdict
    def impl_violation(self, cls, desc, replay_obj):
        self.impl_viol.append((cls, desc, replay_obj))

    def tie_break(self, kind, name, detail):
        self.tie_breaks.append((kind, name, detail))
        self.log("TIE BROKEN [%s] %s: %s" % (kind, name, (json.dumps(detail) if not isinstance(detail, str) else detail)[:1500]))

    def note_nontrivial(self, key):
        self._nontrivial.add(key)

    def finish(self, rule="", assumptions=()):
        self.cov["distinct_nontrivial"] = len(self._nontrivial)
        self.cov["rule"] = rule
        known_hit = {}
        unknown = []
        for cls, desc, rep in self.impl_viol:
            if cls is not None and (self.prop, cls) in self.known.known:
                known_hit.setdefault(cls, []).append((desc, rep))
            else:
                unknown.append((cls, desc, rep))
        for cls, items in sorted(known_hit.items()):
            print("KNOWN-FINDING: property=%s class=%s %s (reproduced on %d case(s) this run; e.g. %s)"
                  % (self.prop, cls, self.known.known[(self.prop, cls)], len(items), items[0][0][:300]), flush=True)
        rc = 0
        rdir = os.path.join(OUT, "replays")
        os.makedirs(rdir, exist_ok=True)
        nviol = 0
        if unknown:
            rc = 1
            seen = set()
            for cls, desc, rep in unknown:
                key = cls or desc[:60]
                if key in seen:
                    continue
                seen.add(key)
                nviol += 1
                path = os.path.join(rdir, "%s-%s-%d-%d.json" % (self.prop, self.tier, self.seed, nviol))
                with open(path, "w") as f:
                    json.dump({"property": self.prop, "class": cls, "what": desc,
                               "cases": [rep["case"]] if isinstance(rep, dict) and "case" in rep else [],
                               "observed": rep,
                               "broken_obligations": [[k, n, d] for k, n, d in self.tie_breaks][:10]}, f, indent=1, default=str)
                print("VIOLATION property=%s replay=%s" % (self.prop, path), flush=True)
                if nviol >= 5:
                    break
        elif self.tie_breaks:
            rc = 1
            nviol = 1
            path = os.path.join(rdir, "%s-%s-%d-tie.json" % (self.prop, self.tier, self.seed))
            with open(path, "w") as f:
                json.dump({"property": self.prop,
                           "what": "the property is no longer shown to hold: the obligations below no "
                                   "longer check; the search over the corpus, the refuted witnesses and "
                                   "this run's generated cases found no execution of the implementation "
                                   "that violates the property's own oracle",
                           "broken_obligations": [{"kind": k, "name": n, "detail": d} for k, n, d in self.tie_breaks][:40]},
                          f, indent=1, default=str)
            print("VIOLATION property=%s replay=%s no-failing-input-found" % (self.prop, path), flush=True)
        ev = {"property_id": self.prop, "tier": self.tier, "seed": self.seed, "level": self.level,
              "coverage": self.cov, "assumptions": list(assumptions) + self.assumptions,
              "wall_s": round(time.time() - self.t0, 2), "violations": nviol,
              "known_findings_reproduced": sorted(known_hit.keys())}
        if self.cov["discharged"] == 0:
            # obligations not discharged: the proof-level keys would not validate (minimum 1), so
            # the generic keys carry the counts and the failure is spelled out
            self.cov["obligations_not_discharged"] = self.cov.pop("obligations")
            self.cov.pop("discharged")
        if not self.cov["samples"]:
            self.cov["samples"] = ["(no case executed)"]
        os.makedirs(os.path.join(VERIF, "evidence"), exist_ok=True)
        if not self.replay:
            with open(os.path.join(VERIF, "evidence", self.prop + ".json"), "w") as f:
                json.dump(ev, f, indent=1, default=str)
        self.log("done rc=%d evaluations=%d validated=%d obligations=%s/%s known=%s" % (
            rc, self.cov["evaluations"], self.cov["traces_validated_against_impl"],
            self.cov.get("discharged", 0), self.cov.get("obligations", self.cov.get("obligations_not_discharged")),
            sorted(known_hit.keys())))
        return rc
