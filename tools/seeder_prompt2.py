#!/usr/bin/env python3
"""Round-2 seeder prompt: same brief, plus the list of changes already tried (so new ones differ)."""
import glob, json, os, subprocess, sys
pid, n = sys.argv[1], sys.argv[2]
base = subprocess.run([sys.executable, "/verif/tools/seeder_prompt.py", pid, n], capture_output=True, text=True).stdout
base = base.replace("/tmp/seed_%s" % pid.lower(), "/tmp/seed7_%s" % pid.lower())
tried = []
for f in sorted(glob.glob("/verif/seeded/%s-*/meta.json" % pid)):
    m = json.load(open(f))
    tried.append("  - " + str(m.get("what_it_breaks", ""))[:400].replace("\n", " "))
extra = ("\n\nIMPORTANT — these changes were ALREADY tried by someone else; do NOT repeat them or close variants of them. "
         "Pick different functions, different clauses of the property, different mechanisms (prefer ones that need a multi-step "
         "sequence, a boundary value, a specific interleaving/crash point, or two cooperating sites):\n" + "\n".join(tried) + "\n")
print(base + extra)
