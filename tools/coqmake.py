#!/usr/bin/env python3
"""Regenerate constants/_CoqProject/Makefile and build Coq targets: tools/coqmake.py [targets...] (default: all)."""
import os, sys
sys.path.insert(0, os.path.dirname(os.path.abspath(__file__)))
from vpc import core
c = core.Ctx("setup", "quick", 0)
c.regen_consts()
targets = sys.argv[1:] or c._coq_files()
ok, log = c.coq_make(targets, timeout=3000)
print(log[-6000:])
sys.exit(0 if ok else 1)
