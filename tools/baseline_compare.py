#!/usr/bin/env python3
"""Compare the last nextest junit report in /repo/target/nextest/pb/junit.xml with BASELINE.json's stable_pass."""
import json, sys, xml.etree.ElementTree as ET
base = json.load(open("/root/.vp/BASELINE.json"))
stable = set(base["stable_pass"])
t = ET.parse("/repo/target/nextest/pb/junit.xml")
passed, failed = set(), set()
for ts in t.getroot().iter("testsuite"):
    suite = ts.get("name")
    for tc in ts.iter("testcase"):
        name = tc.get("name")
        # nextest names: suite "crate" or "crate::bin/x" / "crate::testfile"; testcase name is the path
        full = "%s::%s" % (suite, name)
        bad = any(c.tag in ("failure", "error") for c in tc)
        (failed if bad else passed).add(full)
missing = sorted(s for s in stable if s not in passed)
print("passed=%d failed=%d stable=%d stable-not-passing=%d" % (len(passed), len(failed), len(stable), len(missing)))
for m in missing:
    print("  NOT PASSING:", m)
sys.exit(1 if missing else 0)
