#!/usr/bin/env python3
"""(SEEDSLOT=<n> in the environment is passed through to tools/seedtest.sh.)
Re-run every seeded change against its property's check (isolated worktree, tools/seedtest.sh) and record
the outcome in seeded/<name>/meta.json under "final_check_result". Usage: tools/seed_rerun.py [name ...]"""
import glob, json, os, re, subprocess, sys
root = os.path.dirname(os.path.dirname(os.path.abspath(__file__)))
names = sys.argv[1:] or sorted(os.path.basename(os.path.dirname(p)) for p in glob.glob(os.path.join(root, "seeded", "*", "meta.json")))
commit = subprocess.run(["git", "-C", root, "rev-parse", "--short", "HEAD"], capture_output=True, text=True).stdout.strip()
for name in names:
    d = os.path.join(root, "seeded", name)
    m = json.load(open(os.path.join(d, "meta.json")))
    prop = m.get("breaks_property") or m.get("property")
    out = subprocess.run([os.path.join(root, "tools", "seedtest.sh"), os.path.join(d, "patch.diff"), prop],
                         capture_output=True, text=True).stdout
    viol = re.findall(r"VIOLATION property=\S+ replay=\S+( no-failing-input-found)?", out)
    done = re.search(r"done rc=(\d)", out)
    if "patch does not apply" in out:
        res = "PATCH NO LONGER APPLIES to /repo HEAD"
    elif viol and any(v == "" for v in viol):
        res = "caught: VIOLATION with a failing input"
    elif viol:
        res = "caught: VIOLATION ... no-failing-input-found (broken obligation only)"
    elif done and done.group(1) == "0":
        res = "MISSED (check exits 0)"
    else:
        res = "inconclusive: " + out[-300:]
    m["final_check_result"] = "%s  [/verif %s]" % (res, commit)
    json.dump(m, open(os.path.join(d, "meta.json"), "w"), indent=1)
    print(name, "->", res, flush=True)
