#!/usr/bin/env python3
import argparse
import importlib
import os
import sys
import traceback

sys.path.insert(0, os.path.dirname(os.path.abspath(__file__)))
from vpc import core  # noqa: E402


def main():
    ap = argparse.ArgumentParser()
    ap.add_argument("prop")
    ap.add_argument("--tier", default=os.environ.get("VERIF_TIER") or "quick", choices=["quick", "thorough"])
    ap.add_argument("--replay")
    a = ap.parse_args()
    seed = int(os.environ.get("VERIF_SEED") or "1")
    ctx = core.Ctx(a.prop, a.tier, seed, a.replay)
    try:
        mod = importlib.import_module("props." + a.prop)
        mod.run(ctx)
        rule = getattr(mod, "RULE", "")
        assumptions = getattr(mod, "ASSUMPTIONS", [])
    except Exception:
        ctx.tie_break("driver", a.prop, "check driver crashed:\n" + traceback.format_exc())
        rule, assumptions = "", []
    sys.exit(ctx.finish(rule, assumptions))


if __name__ == "__main__":
    main()
