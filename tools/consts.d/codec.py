# constants and tables for C12 (record/message encodings) and C13 (payment quotes)
const("quote_expiration_secs", "ant-evm/src/data_payments.rs",
      r"pub const QUOTE_EXPIRATION_SECS: u64 = ([\d_]+);")
const("live_time_margin", "ant-evm/src/data_payments.rs",
      r"const LIVE_TIME_MARGIN: u64 = ([\d_]+);")
const("record_header_size", "ant-protocol/src/storage/header.rs",
      r"pub const SIZE: usize = ([\d_]+);")


def _kind_tags(src, which):
    """RecordKind <-> u32 table from the hand-written Serialize / Deserialize impls of header.rs."""
    import re as _re
    if which == "ser":
        body = _re.search(r"impl Serialize for RecordKind \{(.*?)\n\}\n", src, _re.S).group(1)
        pairs = _re.findall(r"Self::(\w+)\s*=>\s*serializer\.serialize_u32\((\d+)\)", body)
        n_arms = len(_re.findall(r"=>", body))
    else:
        body = _re.search(r"impl<'de> Deserialize<'de> for RecordKind \{(.*?)\n\}\n", src, _re.S).group(1)
        pairs = [(b, a) for a, b in _re.findall(r"(\d+)\s*=>\s*Ok\(Self::(\w+)\)", body)]
        n_arms = len(_re.findall(r"=>\s*Ok\(", body))
    if not pairs or len(pairs) != n_arms:
        raise ValueError("RecordKind %s table not understood (%d pairs, %d arms)" % (which, len(pairs), n_arms))
    # order of the match arms is irrelevant: the table is reported sorted by number
    return sorted([(k, int(v)) for k, v in pairs], key=lambda kv: (kv[1], kv[0]))


def _kind_names(src):
    import re as _re
    body = _re.search(r"pub enum RecordKind \{(.*?)\}", src, _re.S).group(1)
    return sorted(x.strip() for x in body.split(",") if x.strip())   # declaration order is irrelevant


const("kind_tags_ser", "ant-protocol/src/storage/header.rs", lambda src: _kind_tags(src, "ser"), ty="list (string * N)")
const("kind_tags_de", "ant-protocol/src/storage/header.rs", lambda src: _kind_tags(src, "de"), ty="list (string * N)")
const("kind_names", "ant-protocol/src/storage/header.rs", _kind_names, ty="list string")


# ---- names that are on the wire of the CBOR request/response codec (C12): enum variant names and the
# field names of structs / struct-like variants, in declaration order
def _rust_item_body(src, kind, name):
    import re as _re
    m = _re.search(r"\bpub\s+%s\s+%s\b[^{;]*\{" % (kind, _re.escape(name)), src)
    if not m:
        raise ValueError("%s %s not found" % (kind, name))
    i, depth = m.end(), 1
    start = i
    while depth:
        c = src[i]
        depth += (c == "{") - (c == "}")
        i += 1
    body = src[start:i - 1]
    body = _re.sub(r"/\*.*?\*/", "", body, flags=_re.S)
    body = _re.sub(r"#\[[^\]]*\]", "", body)
    return body


def _split_top(body):
    out, depth, cur = [], 0, ""
    for c in body:
        if c in "{(<[":
            depth += 1
        elif c in "})>]":
            depth -= 1
        if c == "," and depth == 0:
            out.append(cur)
            cur = ""
        else:
            cur += c
    out.append(cur)
    return [x.strip() for x in out if x.strip()]


def _enum_variants(file_enum):
    def f(src):
        import re as _re
        vs = [_re.match(r"(\w+)", v).group(1) for v in _split_top(_rust_item_body(src, "enum", file_enum))]
        if not vs:
            raise ValueError("no variants")
        return vs
    return f


def _enum_fields(file_enum):
    def f(src):
        import re as _re
        out = []
        for v in _split_top(_rust_item_body(src, "enum", file_enum)):
            m = _re.match(r"(\w+)\s*\{(.*)\}\s*$", v, _re.S)
            if m:
                for fld in _split_top(m.group(2)):
                    out.append("%s.%s" % (m.group(1), _re.match(r"(?:pub(?:\([^)]*\))?\s+)?(\w+)\s*:", fld).group(1)))
        return out
    return f


def _struct_fields(name):
    def f(src):
        import re as _re
        return [_re.match(r"(?:pub(?:\([^)]*\))?\s+)?(\w+)\s*:", fld).group(1)
                for fld in _split_top(_rust_item_body(src, "struct", name))]
    return f


for _n, _file, _enum in [("request", "ant-protocol/src/messages.rs", "Request"),
                         ("response", "ant-protocol/src/messages.rs", "Response"),
                         ("cmd", "ant-protocol/src/messages/cmd.rs", "Cmd"),
                         ("query", "ant-protocol/src/messages/query.rs", "Query"),
                         ("cmd_response", "ant-protocol/src/messages/response.rs", "CmdResponse"),
                         ("query_response", "ant-protocol/src/messages/response.rs", "QueryResponse"),
                         ("network_address", "ant-protocol/src/lib.rs", "NetworkAddress"),
                         ("record_type", "ant-protocol/src/storage/header.rs", "RecordType"),
                         ("error", "ant-protocol/src/error.rs", "Error")]:
    const("msg_variants_" + _n, _file, _enum_variants(_enum), ty="list string")
for _n, _file, _enum in [("cmd", "ant-protocol/src/messages/cmd.rs", "Cmd"),
                         ("query", "ant-protocol/src/messages/query.rs", "Query"),
                         ("query_response", "ant-protocol/src/messages/response.rs", "QueryResponse"),
                         ("error", "ant-protocol/src/error.rs", "Error")]:
    const("msg_fields_" + _n, _file, _enum_fields(_enum), ty="list string")
for _n, _file, _st in [("register_address", "ant-registers/src/address.rs", "RegisterAddress"),
                       ("scratchpad_address", "ant-protocol/src/storage/address/scratchpad.rs", "ScratchpadAddress"),
                       ("payment_quote", "ant-evm/src/data_payments.rs", "PaymentQuote"),
                       ("quoting_metrics", "evmlib/src/quoting_metrics.rs", "QuotingMetrics")]:
    const("msg_fields_" + _n, _file, _struct_fields(_st), ty="list string")

# ---- ant-node/src/quote.rs (C13): the window within which other nodes' quotes are compared with ours
const("quote_time_gap_secs", "ant-node/src/quote.rs", r"let time_gap = Duration::from_secs\((\d+)\);")

# ---- ant-networking/src/cmd.rs record_node_issue (C13): retention, list cap, rate limit, strikes
const("issue_retention_secs", "ant-networking/src/cmd.rs", r"issue_vec\.retain\(\|\(_, timestamp\)\| timestamp\.elapsed\(\)\.as_secs\(\) < (\d+)\);")
const("issue_list_cap", "ant-networking/src/cmd.rs", r"if issue_vec\.len\(\) == (\d+) \{")
const("issue_rate_limit_secs", "ant-networking/src/cmd.rs", r"timestamp\.elapsed\(\)\.as_secs\(\) > (\d+)\n")
const("issue_strikes", "ant-networking/src/cmd.rs", r"if issue_counts >= (\d+) \{")
