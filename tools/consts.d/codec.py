# constants and tables for C12 (record/message encodings) and C13 (payment quotes)
const("quote_expiration_secs", "ant-evm/src/data_payments.rs",
      r"pub const QUOTE_EXPIRATION_SECS: u64 = ([\d_]+);")
const("live_time_margin", "ant-evm/src/data_payments.rs",
      r"const LIVE_TIME_MARGIN: u64 = ([\d_]+);")
const("record_header_size", "ant-protocol/src/storage/header.rs",
      r"pub const SIZE: usize = ([\d_]+);")


def _kind_tags(src, which):
    """RecordKind <-> u32 table from the hand-written Serialize / Deserialize impls of header.rs."""
    import re as _re
    if which == "ser":
        body = _re.search(r"impl Serialize for RecordKind \{(.*?)\n\}\n", src, _re.S).group(1)
        pairs = _re.findall(r"Self::(\w+)\s*=>\s*serializer\.serialize_u32\((\d+)\)", body)
        n_arms = len(_re.findall(r"=>", body))
    else:
        body = _re.search(r"impl<'de> Deserialize<'de> for RecordKind \{(.*?)\n\}\n", src, _re.S).group(1)
        pairs = [(b, a) for a, b in _re.findall(r"(\d+)\s*=>\s*Ok\(Self::(\w+)\)", body)]
        n_arms = len(_re.findall(r"=>\s*Ok\(", body))
    if not pairs or len(pairs) != n_arms:
        raise ValueError("RecordKind %s table not understood (%d pairs, %d arms)" % (which, len(pairs), n_arms))
    # order of the match arms is irrelevant: the table is reported sorted by number
    return sorted([(k, int(v)) for k, v in pairs], key=lambda kv: (kv[1], kv[0]))


def _kind_names(src):
    import re as _re
    body = _re.search(r"pub enum RecordKind \{(.*?)\}", src, _re.S).group(1)
    return sorted(x.strip() for x in body.split(",") if x.strip())   # declaration order is irrelevant


const("kind_tags_ser", "ant-protocol/src/storage/header.rs", lambda src: _kind_tags(src, "ser"), ty="list (string * N)")
const("kind_tags_de", "ant-protocol/src/storage/header.rs", lambda src: _kind_tags(src, "de"), ty="list (string * N)")
const("kind_names", "ant-protocol/src/storage/header.rs", _kind_names, ty="list string")
