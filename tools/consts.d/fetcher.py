# ---- ant-networking/src/replication_fetcher.rs (C08): scheduling cap and the two timeouts.
# MAX_PARALLEL_FETCH is defined as `K_VALUE.get()`; K_VALUE is read from the libp2p-kad source of the
# version pinned in /repo/Cargo.lock (vendored registry).  Timeouts are stored in milliseconds.
def _fetcher_max_parallel(src):
    import glob as _glob
    m = re.findall(r"const MAX_PARALLEL_FETCH: usize = ([^;]+);", src)
    if len(m) != 1:
        raise ValueError("MAX_PARALLEL_FETCH definition matched %d times" % len(m))
    e = m[0].strip()
    if e != "K_VALUE.get()":
        return arith(e)
    if not re.search(r"kad::\{[^}]*\bK_VALUE\b[^}]*\}", src):
        raise ValueError("K_VALUE is no longer imported from libp2p::kad")
    lock = rd("Cargo.lock")
    v = re.findall(r'name = "libp2p-kad"\nversion = "([^"]+)"', lock)
    if len(v) != 1:
        raise ValueError("libp2p-kad version not unique in Cargo.lock")
    cands = sorted(_glob.glob(os.path.expanduser("~/.cargo/registry/src/*/libp2p-kad-%s/src/lib.rs" % v[0])))
    if not cands:
        raise ValueError("libp2p-kad-%s source not found in the vendored registry" % v[0])
    ks = re.findall(r"pub const K_VALUE: NonZeroUsize = unsafe \{ NonZeroUsize::new_unchecked\((\d+)\) \};",
                    open(cands[0], encoding="utf-8").read())
    if len(ks) != 1:
        raise ValueError("K_VALUE definition matched %d times in %s" % (len(ks), cands[0]))
    return int(ks[0])


const("fetcher_max_parallel", "ant-networking/src/replication_fetcher.rs", _fetcher_max_parallel)
const("fetcher_fetch_timeout_ms", "ant-networking/src/replication_fetcher.rs",
      r"const FETCH_TIMEOUT: Duration = Duration::from_secs\(([\d_]+)\);", conv=lambda t: num(t) * 1000)
const("fetcher_pending_timeout_ms", "ant-networking/src/replication_fetcher.rs",
      r"const PENDING_TIMEOUT: Duration = Duration::from_secs\(([\d_]+)\);", conv=lambda t: num(t) * 1000)


# ---- ant-networking/src/cmd.rs (C08): which fetcher methods the driver glue calls, and in which order.
# Fails closed: an arm that can no longer be delimited, or a FetchCompleted arm that does not call exactly
# one fetcher method, leaves the constant undefined.
def _fetcher_arm(src, start, stop):
    h = src.find("fn handle_local_cmd(&mut self")
    if h < 0 or src.find("fn handle_local_cmd(&mut self", h + 1) >= 0:
        raise ValueError("SwarmDriver::handle_local_cmd not found exactly once")
    e = src.find("pub mod verif", h)
    src = src[h:e if e > 0 else len(src)]
    i = src.find(start)
    if i < 0 or src.find(start, i + 1) >= 0:
        raise ValueError("arm %r not found exactly once" % start)
    j = src.find(stop, i + len(start))
    if j < 0:
        raise ValueError("end marker %r of the arm not found" % stop)
    return re.findall(r"\.\s*replication_fetcher\s*\.\s*(\w+)\s*\(", src[i:j])


def _fetcher_arm_fetch_completed(src):
    calls = _fetcher_arm(src, "LocalSwarmCmd::FetchCompleted((key, record_type)) => {", "LocalSwarmCmd::")
    if len(calls) != 1:
        raise ValueError("FetchCompleted arm calls %r on the fetcher" % (calls,))
    return calls[0]


def _fetcher_arm_put(src):
    calls = _fetcher_arm(src, "LocalSwarmCmd::PutLocalRecord { record } => {", "LocalSwarmCmd::AddLocalRecordAsStored")
    if not calls:
        raise ValueError("PutLocalRecord arm does not touch the fetcher")
    return calls


const("fetcher_arm_fetch_completed", "ant-networking/src/cmd.rs", _fetcher_arm_fetch_completed, ty="string")
const("fetcher_arm_put_calls", "ant-networking/src/cmd.rs", _fetcher_arm_put, ty="list string")
