# C17 / C18 -- constants of the parsers and of the bootstrap cache (exec'd by tools/extract_consts.py)
const("enc_salt_length", "ant-cli/src/wallet/encryption.rs", r"const SALT_LENGTH: usize = ([\d_]+);")
const("enc_nonce_length", "ant-cli/src/wallet/encryption.rs", r"const NONCE_LENGTH: usize = ([\d_]+);")
const("c17_header_size", "ant-protocol/src/storage/header.rs", r"pub const SIZE: usize = ([\d_]+);")
const("boot_addr_expiry_secs", "ant-bootstrap/src/config.rs",
      r"const ADDR_EXPIRY_DURATION: Duration = Duration::from_secs\(([^)]*)\);", conv=arith)
const("boot_max_peers", "ant-bootstrap/src/config.rs", r"const MAX_PEERS: usize = ([\d_]+);")
const("boot_max_addrs_per_peer", "ant-bootstrap/src/config.rs", r"const MAX_ADDRS_PER_PEER: usize = ([\d_]+);")


def _write_is_atomic_only(src):
    """BootstrapCacheStore::write: every path to the disk goes through AtomicWriteFile (open ... commit); no direct
    File::create / fs::write / OpenOptions in its body and no early `return` that skips the write"""
    m = re.search(r"pub fn write\(&self\) -> Result<\(\)> \{(.*?)\n    \}\n", src, re.S)
    if not m:
        raise ValueError("BootstrapCacheStore::write not found")
    body = m.group(1)
    direct = any(t in body for t in ("File::create", "fs::write", "OpenOptions", "fs::copy", "fs::rename"))
    return ("AtomicWriteFile::options()" in body and ".commit()" in body and not direct and not re.search(r"\breturn\b", body))


const("boot_write_atomic_only", "ant-bootstrap/src/cache_store.rs", _write_is_atomic_only, ty="bool")
