# C17 / C18 -- constants of the parsers and of the bootstrap cache (exec'd by tools/extract_consts.py)
const("enc_salt_length", "ant-cli/src/wallet/encryption.rs", r"const SALT_LENGTH: usize = ([\d_]+);")
const("enc_nonce_length", "ant-cli/src/wallet/encryption.rs", r"const NONCE_LENGTH: usize = ([\d_]+);")
const("c17_header_size", "ant-protocol/src/storage/header.rs", r"pub const SIZE: usize = ([\d_]+);")
const("boot_addr_expiry_secs", "ant-bootstrap/src/config.rs",
      r"const ADDR_EXPIRY_DURATION: Duration = Duration::from_secs\(([^)]*)\);", conv=arith)
const("boot_max_peers", "ant-bootstrap/src/config.rs", r"const MAX_PEERS: usize = ([\d_]+);")
const("boot_max_addrs_per_peer", "ant-bootstrap/src/config.rs", r"const MAX_ADDRS_PER_PEER: usize = ([\d_]+);")


def _write_is_atomic_only(src):
    """BootstrapCacheStore::write: every path to the disk goes through AtomicWriteFile (open ... commit); no direct
    File::create / fs::write / OpenOptions in its body and no early `return` that skips the write"""
    m = re.search(r"pub fn write\(&self\) -> Result<\(\)> \{(.*?)\n    \}\n", src, re.S)
    if not m:
        raise ValueError("BootstrapCacheStore::write not found")
    body = m.group(1)
    direct = any(t in body for t in ("File::create", "fs::write", "OpenOptions", "fs::copy", "fs::rename"))
    return ("AtomicWriteFile::options()" in body and ".commit()" in body and not direct and not re.search(r"\breturn\b", body))


const("boot_write_atomic_only", "ant-bootstrap/src/cache_store.rs", _write_is_atomic_only, ty="bool")


def _load_has_no_read_bound(src):
    """load_cache_data reads the whole file: read_to_string on the opened file, no take(..) / fixed-size buffer / size
    constant in its body (the only limits are the configured peer and address counts, applied by the clean-up)"""
    m = re.search(r"pub fn load_cache_data\(cfg: &BootstrapCacheConfig\) -> Result<CacheData> \{(.*?)\n    \}\n", src, re.S)
    if not m:
        raise ValueError("BootstrapCacheStore::load_cache_data not found")
    body = m.group(1)
    bounded = re.search(r"\.take\(|read_exact|\[0u8;|with_capacity|MAX_[A-Z_]*SIZE|\.truncate\(|\.len\(\)\s*[<>]", body)
    return "read_to_string" in body and not bounded


const("boot_load_unbounded_read", "ant-bootstrap/src/cache_store.rs", _load_has_no_read_bound, ty="bool")
