# ---- ant-registers (C06)
const("max_reg_entry_size", "ant-registers/src/register.rs",
      r"const MAX_REG_ENTRY_SIZE: usize = ([\d_]+);")
const("max_reg_num_entries", "ant-registers/src/register.rs",
      r"const MAX_REG_NUM_ENTRIES: u16 = ([\d_]+);")
