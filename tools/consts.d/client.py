# ---- C14 / C15: client reads and self-encryption (autonomi, ant-protocol, pinned self_encryption crate)
# record-kind wire tags the client read paths depend on (header.rs, impl Serialize for RecordKind)
const("client_kind_chunk", "ant-protocol/src/storage/header.rs",
      r"Self::Chunk => serializer\.serialize_u32\((\d+)\)")
const("client_kind_scratchpad", "ant-protocol/src/storage/header.rs",
      r"Self::Scratchpad => serializer\.serialize_u32\((\d+)\)")
const("client_record_header_size", "ant-protocol/src/storage/header.rs",
      r"pub const SIZE: usize = (\d+);")


def _se_lib():
    """source of the self_encryption version pinned in /repo/Cargo.lock, from the vendored registry"""
    import glob as _glob
    lock = rd("Cargo.lock")
    m = re.search(r'name = "self_encryption"\nversion = "([^"]+)"', lock)
    if not m:
        raise ValueError("self_encryption not in Cargo.lock")
    home = os.environ.get("CARGO_HOME") or os.path.join(os.path.expanduser("~"), ".cargo")
    hits = sorted(_glob.glob(os.path.join(home, "registry", "src", "*", "self_encryption-" + m.group(1), "src", "lib.rs")))
    if not hits:
        raise ValueError("self_encryption-%s sources not found in the cargo registry" % m.group(1))
    return hits[0]


try:
    _SE = _se_lib()
except Exception as _e:       # fail closed per entry: the constants below stay undefined
    _SE = "/nonexistent/self_encryption/lib.rs"

# MAX_CHUNK_SIZE: option_env!("MAX_CHUNK_SIZE").unwrap_or("<default>") (the harness reports the
# value the built crate really uses; the driver compares it with this one)
const("se_max_chunk_size", _SE, r'option_env!\("MAX_CHUNK_SIZE"\)\s*\.unwrap_or\("(\d+)"\)')
const("se_default_max_chunk_size", _SE, r"const DEFAULT_MAX_CHUNK_SIZE: usize = ([\d\s*]+);", conv=arith)
const("se_min_chunk_size", _SE, r"pub const MIN_CHUNK_SIZE: usize = (\d+);")
const("se_min_encryptable_factor", _SE, r"pub const MIN_ENCRYPTABLE_BYTES: usize = (\d+) \* MIN_CHUNK_SIZE;")
