# ---- node record store (C01, C10, C02): ant-networking/src/record_store.rs, ant-protocol header.rs,
# ---- ant-node/Cargo.toml.  Names are prefixed rs_.
const("rs_max_records_count", "ant-networking/src/record_store.rs",
      r"const MAX_RECORDS_COUNT: usize = ([\d_ *]+);", conv=arith)
const("rs_max_records_cache_size", "ant-networking/src/record_store.rs",
      r"const MAX_RECORDS_CACHE_SIZE: usize = ([\d_ *]+);", conv=arith)
# the divisor in cleanup_irrelevant_records: `accumulated_records < MAX_RECORDS_COUNT / 10`
const("rs_cleanup_divisor", "ant-networking/src/record_store.rs",
      r"if accumulated_records < MAX_RECORDS_COUNT / (\d+) \{")
const("rs_usize_max", "ant-networking/src/record_store.rs",
      lambda src: 2 ** 64 - 1 if "received_payment_count: usize" in src else (_ for _ in ()).throw(ValueError("payment counter is no longer usize")))
const("rs_header_size", "ant-protocol/src/storage/header.rs",
      r"pub const SIZE: usize = (\d+);")


def _kind(name):
    return r"Self::%s => serializer\.serialize_u32\((\d+)\)" % name


const("rs_kind_chunk", "ant-protocol/src/storage/header.rs", _kind("Chunk"))
const("rs_kind_scratchpad", "ant-protocol/src/storage/header.rs", _kind("Scratchpad"))
const("rs_kind_transaction", "ant-protocol/src/storage/header.rs", _kind("Transaction"))
const("rs_kind_register", "ant-protocol/src/storage/header.rs", _kind("Register"))
const("rs_kind_count", "ant-protocol/src/storage/header.rs",
      lambda src: len(re.findall(r"Self::\w+ => serializer\.serialize_u32\(\d+\)", src)))


def _shipped_encrypts(src):
    """`encrypt-records` is in ant-node's default feature list AND switches on ant-networking's feature."""
    m = re.search(r"^default\s*=\s*\[(.*?)\]", src, re.M | re.S)
    if not m:
        raise ValueError("no default feature list in ant-node/Cargo.toml")
    defaults = re.findall(r'"([^"]+)"', m.group(1))
    m2 = re.search(r"^encrypt-records\s*=\s*\[(.*?)\]", src, re.M | re.S)
    forwards = bool(m2) and "ant-networking/encrypt-records" in re.findall(r'"([^"]+)"', m2.group(1))
    return ("encrypt-records" in defaults) and forwards


const("rs_encrypt_records_shipped", "ant-node/Cargo.toml", _shipped_encrypts, ty="bool")
# the two places that consult the feature in record_store.rs
const("rs_encrypt_cfg_sites", "ant-networking/src/record_store.rs",
      lambda src: len(re.findall(r'if !cfg!\(feature = "encrypt-records"\)', src)))


def _version_written_only_on_mismatch(src):
    """Structural fact about driver.rs check_and_wipe_storage_dir_if_necessary: every statement that
    modifies the version file after it has been read (open with truncate, write_all) and the wipe of the
    record store sit INSIDE the `if cur_version_str != prev_version_str { ... }` block."""
    m = re.search(r"fn check_and_wipe_storage_dir_if_necessary\s*\(", src)
    if not m:
        raise ValueError("check_and_wipe_storage_dir_if_necessary not found")

    def block(start):
        i = src.index("{", start)
        depth, j = 0, i
        while True:
            if src[j] == "{":
                depth += 1
            elif src[j] == "}":
                depth -= 1
                if depth == 0:
                    return i, j
            j += 1
    b0, b1 = block(src.index(")", m.end()))
    body = src[b0:b1 + 1]
    ms = list(re.finditer(r"if\s+cur_version_str\s*!=\s*prev_version_str\s*\{", body))
    if len(ms) != 1:
        raise ValueError("mismatch branch not found exactly once")
    i0 = ms[0].end() - 1
    depth, j = 0, i0
    while True:
        if body[j] == "{":
            depth += 1
        elif body[j] == "}":
            depth -= 1
            if depth == 0:
                break
        j += 1
    inside = (i0, j)
    writes = [w.start() for w in re.finditer(r"truncate\(true\)|write_all\(|remove_dir_all\(|fs::write\(|remove_file\(", body)]
    if not writes:
        raise ValueError("no write to the version file found")
    return all(inside[0] < w < inside[1] for w in writes)


const("rs_version_written_only_on_mismatch", "ant-networking/src/driver.rs", _version_written_only_on_mismatch, ty="bool")


def _seed_from_identity(src):
    """driver.rs build_node: the store's encryption seed is exactly the first 16 bytes of the serialised peer id
    (a function of the node's identity only: no randomness, no per-start state)."""
    m = re.search(r"let\s+encryption_seed\s*:\s*\[u8;\s*16\]\s*=\s*peer_id\s*\.to_bytes\(\)\s*\.get\(\.\.16\)\s*"
                  r"\.expect\([^)]*\)\s*\.try_into\(\)\s*\.expect\([^)]*\)\s*;", src)
    decls = re.findall(r"let\s+(mut\s+)?encryption_seed\b", src)
    n = 1 if (len(decls) == 1 and not decls[0] and not re.search(r"encryption_seed\s*\[", src)) else 0
    peer = re.search(r"let\s+peer_id\s*=\s*PeerId::from\(self\.keypair\.public\(\)\)\s*;", src)
    return bool(m) and bool(peer) and n == 1


const("rs_seed_from_identity", "ant-networking/src/driver.rs", _seed_from_identity, ty="bool")
