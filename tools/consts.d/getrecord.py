# C05 (quorum reads): the close-group size that Quorum::All / Quorum::Majority resolve to
const("gr_close_group_size", "ant-protocol/src/lib.rs", r"pub const CLOSE_GROUP_SIZE: usize = ([\d_]+);")
# lib.rs close_group_majority() must still be CLOSE_GROUP_SIZE / 2 + 1 (divisor and addend re-read)
const("gr_majority_div", "ant-networking/src/lib.rs",
      r"pub const fn close_group_majority\(\) -> usize \{\s*CLOSE_GROUP_SIZE / (\d+) \+ \d+\s*\}")
const("gr_majority_add", "ant-networking/src/lib.rs",
      r"pub const fn close_group_majority\(\) -> usize \{\s*CLOSE_GROUP_SIZE / \d+ \+ (\d+)\s*\}")
