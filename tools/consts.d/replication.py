# ---- replication (C09): the size of the "closest K" set a replication list's holder must belong to.
# SwarmDriver::get_closest_k_value_local_peers (ant-networking/src/driver.rs) limits its answer with
# `K_VALUE.get()`; K_VALUE is libp2p-kad's constant, read from the source of the version pinned in
# /repo/Cargo.lock (vendored registry).  Only the NUMBER is taken from the source: where the limit is
# applied (self included or not) is what C09's model, theorem and oracle pin down independently.
def _repl_k_value(src):
    import glob as _glob
    m = re.search(r"fn get_closest_k_value_local_peers\b.*?\n    \}\n", src, re.S)
    if not m:
        raise ValueError("get_closest_k_value_local_peers not found")
    body = m.group(0)
    if "K_VALUE" not in body:
        raise ValueError("get_closest_k_value_local_peers no longer refers to K_VALUE")
    if not re.search(r"kad::\{[^}]*\bK_VALUE\b[^}]*\}", src):
        raise ValueError("K_VALUE is no longer imported from libp2p::kad")
    lock = rd("Cargo.lock")
    v = re.findall(r'name = "libp2p-kad"\nversion = "([^"]+)"', lock)
    if len(v) != 1:
        raise ValueError("libp2p-kad version not unique in Cargo.lock")
    cands = sorted(_glob.glob(os.path.expanduser("~/.cargo/registry/src/*/libp2p-kad-%s/src/lib.rs" % v[0])))
    if not cands:
        raise ValueError("libp2p-kad-%s source not found in the vendored registry" % v[0])
    ks = re.findall(r"pub const K_VALUE: NonZeroUsize = unsafe \{ NonZeroUsize::new_unchecked\((\d+)\) \};",
                    open(cands[0], encoding="utf-8").read())
    if len(ks) != 1:
        raise ValueError("K_VALUE definition matched %d times in %s" % (len(ks), cands[0]))
    return int(ks[0])


const("repl_k_value", "ant-networking/src/driver.rs", _repl_k_value)

# get_replicate_candidates (ant-networking/src/cmd.rs) falls back to the CLOSE_GROUP_SIZE nearest peers
const("repl_close_group_size", "ant-protocol/src/lib.rs",
      r"pub const CLOSE_GROUP_SIZE: usize = ([\d_]+);")
