# ---- C03 / C04 / C07: put validation (ant-node/src/put_validation.rs and what it relies on)
const("pv_quote_expiration_secs", "ant-evm/src/data_payments.rs",
      r"pub const QUOTE_EXPIRATION_SECS: u64 = ([\d_]+);")
const("pv_max_reg_entry_size", "ant-registers/src/register.rs",
      r"const MAX_REG_ENTRY_SIZE: usize = ([\d_]+);")
const("pv_max_reg_num_entries", "ant-registers/src/register.rs",
      r"const MAX_REG_NUM_ENTRIES: u16 = ([\d_]+);")
# wire tags of RecordKind (the Serialize impl in header.rs)
for _coq, _rust in (("pv_tag_chunk_with_payment", "ChunkWithPayment"), ("pv_tag_chunk", "Chunk"),
                    ("pv_tag_transaction", "Transaction"), ("pv_tag_register", "Register"),
                    ("pv_tag_register_with_payment", "RegisterWithPayment"),
                    ("pv_tag_scratchpad", "Scratchpad"),
                    ("pv_tag_scratchpad_with_payment", "ScratchpadWithPayment"),
                    ("pv_tag_transaction_with_payment", "TransactionWithPayment")):
    const(_coq, "ant-protocol/src/storage/header.rs",
          r"Self::%s => serializer\.serialize_u32\((\d+)\)" % _rust)


def _unpaid_register_checks_record_key(src):
    """does the unpaid `RecordKind::Register` branch of validate_and_store_record compare the
    record's own key with the key derived from the register? (F8 repair)"""
    body = src.split("pub(crate) async fn validate_and_store_record", 1)[1]
    body = body.split("pub(crate) async fn store_replicated_in_record", 1)[0]
    branch = body.split("RecordKind::Register => {", 1)[1].split("RecordKind::RegisterWithPayment => {", 1)[0]
    head = branch.split("validate_key_and_existence", 1)[0]      # the check must precede the existence test
    return bool(re.search(r"if\s+record\.key\s*!=\s*key\s*\{.*?return\s+Err\(Error::RecordKeyMismatch\)", head, re.S))


def _payment_checks_quote_content(src):
    """does payment_for_us_exists_and_is_still_valid reject a proof whose quotes issued by this node
    are for another address? (F9 repair)"""
    body = src.split("async fn payment_for_us_exists_and_is_still_valid", 1)[1]
    body = body.split("async fn register_validation", 1)[0]
    m = re.search(r"quotes_by_peer\(&self_peer_id\)\s*\.iter\(\)\s*\.any\(\|quote\|\s*quote\.content\s*!=\s*quoted_content\)", body)
    if not m:
        return False
    # the check must sit before the on-chain verification and must return an error
    tail = body[m.end():]
    return "return Err(" in tail.split("verify_data_payment", 1)[0] and \
        "address.as_xorname().unwrap_or_default()" in body[:m.start()]


const("pv_unpaid_register_checks_record_key", "ant-node/src/put_validation.rs",
      _unpaid_register_checks_record_key, ty="bool")
const("pv_payment_checks_quote_content", "ant-node/src/put_validation.rs",
      _payment_checks_quote_content, ty="bool")


# ---- which fields Transaction::bytes_to_sign covers (ant-protocol/src/storage/transaction.rs), C07
def _tx_sign_body(src):
    body = src.split("pub fn bytes_to_sign(", 1)[1]
    body = body.split("pub fn address(", 1)[0]
    # the function must still be a plain sequence of extend_from_slice calls separated by the three literals
    lits = re.findall(r'bytes\.extend_from_slice\("(\w+)"\.as_bytes\(\)\)', body)
    if lits != ["parent", "content", "outputs"]:
        raise ValueError("bytes_to_sign: separator literals changed: %r" % (lits,))
    if len(re.findall(r"bytes\.extend_from_slice\(", body)) != 7:
        raise ValueError("bytes_to_sign: unexpected number of appended pieces")
    return body


def _tx_signs(which):
    def f(src):
        body = _tx_sign_body(src)
        head, rest = body.split('"parent"', 1)
        parents, rest = rest.split('"content"', 1)
        content, outputs = rest.split('"outputs"', 1)
        if which == "owner":
            return bool(re.search(r"bytes\.extend_from_slice\(&owner\.to_bytes\(\)\)", head))
        if which == "parents":
            return bool(re.search(r"&parents\s*\.iter\(\)\s*\.map\(\|p\| p\.to_bytes\(\)\)\s*\.collect::<Vec<_>>\(\)\s*\.concat\(\)", parents))
        if which == "content":
            return bool(re.search(r"bytes\.extend_from_slice\(content\)", content))
        both = re.search(r"&outputs\s*\.iter\(\)\s*\.flat_map\(\|\(p, c\)\| \[&p\.to_bytes\(\), c\.as_slice\(\)\]\.concat\(\)\)\s*\.collect::<Vec<_>>\(\)", outputs)
        keys_only = re.search(r"&outputs\s*\.iter\(\)\s*\.map\(\|\(p, _\)\| p\.to_bytes\(\)\)", outputs)
        conts_only = re.search(r"&outputs\s*\.iter\(\)\s*\.(?:flat_)?map\(\|\(_, c\)\|", outputs)
        if not (both or keys_only or conts_only):
            if re.search(r"outputs", outputs.split("bytes\n", 1)[0]) and "iter()" in outputs:
                raise ValueError("bytes_to_sign: the way outputs are serialised is not recognised")
            return False
        if which == "output_keys":
            return bool(both or keys_only)
        return bool(both or conts_only)
    return f


for _w in ("owner", "parents", "content", "output_keys", "output_contents"):
    const("pv_tx_signs_" + _w, "ant-protocol/src/storage/transaction.rs", _tx_signs(_w), ty="bool")



# ---- which block the verifyPayment eth_call is evaluated against (evmlib handler.rs), C03
def _verify_payment_at_latest(src):
    body = src.split("pub async fn verify_payment<", 1)[1]
    call = re.search(r"\.verifyPayment\(payment_verifications\)(.*?)\.call\(\)", body, re.S)
    if not call:
        raise ValueError("verify_payment: the verifyPayment(..).call() chain is not recognised")
    between = call.group(1).strip()
    if between == "":
        return True                      # alloy's default block for eth_call: latest
    if re.fullmatch(r"\.block\(BlockId::latest\(\)\)", between):
        return True
    if re.fullmatch(r"\.block\(BlockId::pending\(\)\)", between):
        return False
    raise ValueError("verify_payment: unrecognised call modifier %r" % between)


const("pv_verify_payment_at_latest", "evmlib/src/contract/payment_vault/handler.rs", _verify_payment_at_latest, ty="bool")
