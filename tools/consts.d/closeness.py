# ---- closeness (C11)
const("c11_close_group_size", "ant-protocol/src/lib.rs",
      r"pub const CLOSE_GROUP_SIZE: usize = ([\d_]+);")
