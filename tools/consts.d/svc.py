# ---- service lifecycle (C19) and service arguments (C20): ant-node-manager, ant-service-management, antnode


def _svc_status_names(src):
    m = re.search(r"pub enum ServiceStatus \{(.*?)\n\}", src, re.S)
    return re.findall(r"^\s*([A-Z]\w*),", m.group(1), re.M)


const("svc_status_names", "ant-service-management/src/lib.rs", _svc_status_names, ty="list string")
const("svc_name_prefix", "ant-node-manager/src/add_services/mod.rs",
      r'let service_name = format!\("(\w+)\{node_number\}"\);', conv=str, ty="string")


def _cmds_refresh_first(src):
    """every antctl node command that drives a ServiceManager refreshes the registry first
    (partial refresh: full_refresh = false, is_local_network = false)"""
    ok = True
    for fn, call in (("start", ".start().await"), ("stop", ".stop().await"), ("remove", ".remove("),
                     ("upgrade", ".upgrade(")):
        m = re.search(r"pub async fn %s\((.*?)\n\}\n" % fn, src, re.S)
        body = m.group(1)
        r = re.search(r"refresh_node_registry\(\s*&mut node_registry,\s*&ServiceController \{\},[^;]*?,\s*false,\s*false,\s*\)\s*\.await\?;", body, re.S)
        ok = ok and r is not None and body.index(call) > r.end()
    return ok


const("antctl_cmds_refresh_first", "ant-node-manager/src/cmd/node.rs", _cmds_refresh_first, ty="bool")
