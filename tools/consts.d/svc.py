# ---- service lifecycle (C19) and service arguments (C20): ant-node-manager, ant-service-management, antnode


def _svc_status_names(src):
    m = re.search(r"pub enum ServiceStatus \{(.*?)\n\}", src, re.S)
    return re.findall(r"^\s*([A-Z]\w*),", m.group(1), re.M)


const("svc_status_names", "ant-service-management/src/lib.rs", _svc_status_names, ty="list string")
const("svc_name_prefix", "ant-node-manager/src/add_services/mod.rs",
      r'let service_name = format!\("(\w+)\{node_number\}"\);', conv=str, ty="string")


def _cmds_refresh_first(src):
    """every antctl node command that drives a ServiceManager refreshes the registry first
    (partial refresh: full_refresh = false, is_local_network = false)"""
    ok = True
    for fn, call in (("start", ".start().await"), ("stop", ".stop().await"), ("remove", ".remove("),
                     ("upgrade", ".upgrade(")):
        m = re.search(r"pub async fn %s\((.*?)\n\}\n" % fn, src, re.S)
        body = m.group(1)
        r = re.search(r"refresh_node_registry\(\s*&mut node_registry,\s*&ServiceController \{\},[^;]*?,\s*false,\s*false,\s*\)\s*\.await\?;", body, re.S)
        ok = ok and r is not None and body.index(call) > r.end()
    return ok


const("antctl_cmds_refresh_first", "ant-node-manager/src/cmd/node.rs", _cmds_refresh_first, ty="bool")

# ---------------------------------------------------------------- C20: flag tables


def _fn_body(src, header):
    i = src.index(header)
    j = src.index("{", i)
    depth, k = 0, j
    while True:
        ch = src[k]
        if ch == "{":
            depth += 1
        elif ch == "}":
            depth -= 1
            if depth == 0:
                return src[j:k + 1]
        k += 1


def _pushed(body):
    """flags pushed by a builder, in source order; '@peers' / '@evm' mark the shared peers block and
    the EVM network sub-command"""
    out = []
    for m in re.finditer(r'OsString::from\(\s*"(--[a-z-]+)"\s*\)|(push_arguments_from_peers_args)\(|'
                         r'OsString::from\(\s*self\s*\.(?:service_data\s*\.)?evm_network\.to_string\(\)\s*\)', body):
        out.append(m.group(1) or ("@peers" if m.group(2) else "@evm"))
    return out


const("svc_install_flags", "ant-node-manager/src/add_services/config.rs",
      lambda src: _pushed(_fn_body(src[src.index("impl InstallNodeServiceCtxBuilder"):], "pub fn build(self)")),
      ty="list string")
const("svc_upgrade_flags", "ant-service-management/src/node.rs",
      lambda src: _pushed(_fn_body(src, "fn build_upgrade_install_context(")), ty="list string")
const("svc_peers_flags", "ant-service-management/src/node.rs",
      lambda src: _pushed(_fn_body(src, "pub fn push_arguments_from_peers_args(")), ty="list string")


def _clap_fields(struct_body, enabled_features):
    """(long flag, takes a value) for every `#[clap(long ...)]` / `#[arg(long ...)]` field that is compiled
    in with the given feature set"""
    out = []
    # split into fields: attributes + `name: Type,`
    for m in re.finditer(r"((?:\s*#\[[^\]]*\]\s*)+)\s*(?:pub\s+)?(\w+)\s*:\s*([^,\n]+),", struct_body, re.S):
        attrs, name, ty = m.group(1), m.group(2), m.group(3).strip()
        skip = False
        for c in re.finditer(r'#\[cfg\((not\()?feature\s*=\s*"([\w-]+)"\)?\)\]', attrs):
            has = c.group(2) in enabled_features
            if (c.group(1) and has) or (not c.group(1) and not has):
                skip = True
        a = re.search(r"#\[(?:clap|arg)\((.*?)\)\]", attrs, re.S)
        if skip or not a or not re.search(r"\blong\b", a.group(1)):
            continue
        inner = a.group(1)
        lm = re.search(r'\blong\s*=\s*"([\w-]+)"', inner)
        nm = re.search(r'\bname\s*=\s*"([\w-]+)"', inner)
        flag = "--" + (lm.group(1) if lm else nm.group(1) if nm else name.replace("_", "-"))
        out.append((flag, 0 if ty == "bool" else 1))
    return out


def _antnode_features():
    m = re.search(r'^default\s*=\s*\[(.*?)\]', strip_comments(rd("ant-node/Cargo.toml")), re.M | re.S)
    return set(re.findall(r'"([\w-]+)"', m.group(1)))


def _antnode_flag_table(src):
    src = re.sub(r"///[^\n]*", "", rd("ant-node/src/bin/antnode/main.rs"))
    body = _fn_body(src, "struct Opt")
    t = _clap_fields(body, _antnode_features())
    peers = re.sub(r"///[^\n]*", "", rd("ant-bootstrap/src/initial_peers.rs"))
    t += _clap_fields(_fn_body(peers, "pub struct PeersArgs"), set())
    return t


const("antnode_flag_table", "ant-node/src/bin/antnode/main.rs", _antnode_flag_table, ty="list (string * N)")


def _kebab(v):
    return re.sub(r"(?<!^)([A-Z])", r"-\1", v).lower()


def _evm_subcommands(src):
    src = re.sub(r"///[^\n]*", "", rd("ant-node/src/bin/antnode/subcommands.rs"))
    body = _fn_body(src, "enum EvmNetworkCommand")
    return [_kebab(v) for v in re.findall(r"^\s{4}([A-Z]\w+)\s*[,{]", body, re.M)]


const("antnode_evm_subcommands", "ant-node/src/bin/antnode/subcommands.rs", _evm_subcommands, ty="list string")


def _evm_custom_flags(src):
    src = re.sub(r"///[^\n]*", "", rd("ant-node/src/bin/antnode/subcommands.rs"))
    body = _fn_body(src[src.index("EvmCustom"):], "EvmCustom")
    return _clap_fields(body, set())


const("antnode_evm_custom_flags", "ant-node/src/bin/antnode/subcommands.rs", _evm_custom_flags, ty="list (string * N)")
const("antctl_upgrade_autostart_literal", "ant-node-manager/src/cmd/node.rs",
      r"let options = UpgradeOptions \{\s*auto_restart: (true|false),", conv=lambda t: t == "true", ty="bool")


def _antnode_conflicts(src):
    """declared `conflicts_with` pairs of PeersArgs as a flat list [flag, conflicting flag, ...]"""
    peers = re.sub(r"///[^\n]*", "", rd("ant-bootstrap/src/initial_peers.rs"))
    body = _fn_body(peers, "pub struct PeersArgs")
    ids, out = {}, []
    fields = list(re.finditer(r"((?:\s*#\[[^\]]*\]\s*)+)\s*(?:pub\s+)?(\w+)\s*:\s*([^,\n]+),", body, re.S))
    for m in fields:
        a = re.search(r"#\[(?:clap|arg)\((.*?)\)\]", m.group(1), re.S).group(1)
        lm = re.search(r'\blong\s*=\s*"([\w-]+)"', a)
        nm = re.search(r'\bname\s*=\s*"([\w-]+)"', a)
        ids[nm.group(1) if nm else m.group(2)] = "--" + (lm.group(1) if lm else nm.group(1) if nm else m.group(2).replace("_", "-"))
    for m in fields:
        a = re.search(r"#\[(?:clap|arg)\((.*?)\)\]", m.group(1), re.S).group(1)
        nm = re.search(r'\bname\s*=\s*"([\w-]+)"', a)
        me = ids[nm.group(1) if nm else m.group(2)]
        for c in re.findall(r'conflicts_with\s*=\s*"(\w+)"', a):
            out += [me, ids[c]]
    return out


const("antnode_conflicts", "ant-bootstrap/src/initial_peers.rs", _antnode_conflicts, ty="list string")


# ---- network id -> protocol strings (ant-protocol/src/version.rs), the run-time meaning of --network-id
def _proto_decl(src):
    return re.findall(r'pub static ref (\w+): RwLock<String> =\s*RwLock::new\(format!\(\s*"([^"]+)"', src)


const("protocol_str_names", "ant-protocol/src/version.rs", lambda src: [n for n, _ in _proto_decl(src)], ty="list string")
const("protocol_str_formats", "ant-protocol/src/version.rs", lambda src: [f for _, f in _proto_decl(src)], ty="list string")
const("default_network_id", "ant-protocol/src/version.rs", r"pub static ref NETWORK_ID: RwLock<u8> = RwLock::new\((\d+)\);")
const("ant_protocol_version_truncated", "ant-protocol/Cargo.toml", r'\nversion = "(\d+\.\d+)\.[^"]*"', conv=str, ty="string")


# ---- the custom (de)serialisers on NodeServiceData (C19: the registry file round trip)
def _custom_serde(src):
    body = _fn_body(src, "pub struct NodeServiceData")
    out = []
    for m in re.finditer(r'#\[serde\(\s*serialize_with = "(\w+)",\s*deserialize_with = "(\w+)"\s*\)\]\s*pub (\w+):', body):
        out += [m.group(3), m.group(1), m.group(2)]
    # any other serde attribute that changes how a field value is written would have to be modelled too
    other = re.findall(r"#\[serde\(([^)]*)\)\]", body)
    if any(not (o.strip() == "default" or o.strip().startswith("default =") or "serialize_with" in o) for o in other):
        raise ValueError("unmodelled serde attribute on NodeServiceData: %r" % other)
    return out


const("registry_custom_serde", "ant-service-management/src/node.rs", _custom_serde, ty="list string")


def _conn_serde_shape(src):
    """serialize_connected_peers / deserialize_connected_peers map None <-> null and Some(list) <-> the list,
    element by element (so Some([]) is written as [] and read back as Some([]))"""
    ser = re.sub(r"\s+", " ", _fn_body(src, "fn serialize_connected_peers"))
    de = re.sub(r"\s+", " ", _fn_body(src, "fn deserialize_connected_peers"))
    ok_ser = re.search(r"match connected_peers \{ Some\(peers\) => \{ let peer_strs: Vec<String> = peers\.iter\(\)\.map\(\|p\| p\.to_string\(\)\)\.collect\(\); "
                       r"serializer\.serialize_some\(&peer_strs\) \} None => serializer\.serialize_none\(\), \}", ser)
    ok_de = re.search(r"let vec: Option<Vec<String>> = Option::deserialize\(deserializer\)\?; match vec \{ Some\(peer_strs\) => \{.*?"
                      r"\.map\(\|s\| PeerId::from_str\(&s\)\.map_err\(DeError::custom\)\) \.collect\(\); peers\.map\(Some\) \} None => Ok\(None\), \}", de)
    return bool(ok_ser) and bool(ok_de)


const("connected_peers_serde_is_elementwise", "ant-service-management/src/node.rs", _conn_serde_shape, ty="bool")


# ---- ant-logging: how --max-log-files / --max-archived-log-files become the appender's limits
const("log_default_uncompressed", "ant-logging/src/layers.rs", r"const MAX_UNCOMPRESSED_LOG_FILES: usize = (\d+);")
const("log_default_total", "ant-logging/src/layers.rs", r"const MAX_LOG_FILES: usize = (\d+);")
