#!/usr/bin/env python3
"""MANIFEST.json is generated from meta/Cxx.json (one file per claimed property) and meta/_global.json."""
import glob, json, os
root = os.path.dirname(os.path.dirname(os.path.abspath(__file__)))
g = json.load(open(os.path.join(root, "meta", "_global.json")))
props = [json.loads(l)["id"] for l in open(os.path.join(root, "properties.jsonl"))]
checks, claimed = [], set()
for f in sorted(glob.glob(os.path.join(root, "meta", "C*.json"))):
    m = json.load(open(f))
    pid = m["property_id"]
    claimed.add(pid)
    checks.append({
        "property_id": pid,
        "quick_cmd": "./check %s --tier quick" % pid,
        "thorough_cmd": "./check %s --tier thorough" % pid,
        "evidence_file": "/verif/evidence/%s.json" % pid,
        "replay_cmd_template": "./check %s --replay {path}" % pid,
        "engine": "coq-proof+correspondence",
        "level_claimed": {"category": m.get("category", "proof"), "text": m["text"], "design_ref": m.get("design_ref", "DESIGN.md §4 " + pid)},
        "level_note": m["level_note"],
        "technique": m["technique"],
    })
na = [{"property_id": p, "reason": g["not_yet"].get(p, "check not built yet in this round; see DESIGN.md §4")} for p in props if p not in claimed]
man = {"version": 1, "setup_cmd": "./setup.sh", "hooks": g["hooks"], "engines": g["engines"], "checks": checks,
       "notes": g["notes"], "not_applicable": na}
json.dump(man, open(os.path.join(root, "MANIFEST.json"), "w"), indent=1)
print("MANIFEST.json: %d checks, %d not claimed" % (len(checks), len(na)))
