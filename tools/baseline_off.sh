#!/bin/bash
# Runs the repository's stable baseline with the hook guard OFF (no RUSTFLAGS cfg), offline.
cd /repo
unset RUSTFLAGS
export CARGO_NET_OFFLINE=true USER="${USER:-root}"
if [ -f /w/lib/nextest.toml ] && command -v cargo-nextest >/dev/null; then
  cargo nextest run --workspace --no-fail-fast --tool-config-file pb:/w/lib/nextest.toml --profile pb --test-threads 8 --offline
else
  cargo test --workspace --no-fail-fast --offline
fi
