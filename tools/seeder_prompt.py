#!/usr/bin/env python3
import json, sys
pid, n = sys.argv[1], sys.argv[2]
for l in open('/verif/properties.jsonl'):
    p = json.loads(l)
    if p['id'] == pid:
        t = open('/verif/notes/SEEDER_PROMPT.md').read()
        prop = '"%s. %s" (quantified %s)' % (p['title'], p['statement'], p['quantifier']['text'])
        print(t.replace('@ID@', pid.lower()).replace('@PID@', pid).replace('@N@', n).replace('@PROPERTY@', prop).replace('@ANCHORS@', ', '.join(p['anchors']['files'])))
