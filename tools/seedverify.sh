#!/bin/bash
# tools/seedverify.sh <seed-dir> <file-to-append-demo-to | tests:<crate>/tests/name.rs> <crate> <test-filter>
# Confirms a seeded change in the scratch worktree /tmp/seedwt: demo passes without the patch, fails with it,
# and the crate's existing lib tests give the same pass set with the patch as without.
D="$(realpath "$1")"; TARGETFILE="$2"; CRATE="$3"; FILTER="$4"
WT=/tmp/seedwt; export CARGO_TARGET_DIR=/tmp/seedtarget_repo CARGO_NET_OFFLINE=true USER=root
exec 9>/tmp/seedtest.lock; flock 9
[ -e "$WT/.git" ] || git -C /repo worktree add --detach "$WT" HEAD >/dev/null 2>&1
reset() { git -C $WT reset -q --hard "$(git -C /repo rev-parse HEAD)"; git -C $WT clean -qfd; }
putdemo() { case "$TARGETFILE" in tests:*) f="$WT/${TARGETFILE#tests:}"; mkdir -p "$(dirname "$f")"; cp "$D/demo.rs" "$f";; *) cat "$D/demo.rs" >> "$WT/$TARGETFILE";; esac; }
KIND="--lib"; case "$TARGETFILE" in tests:*) KIND="--test $(basename "${TARGETFILE%.rs}")";; esac
KIND="${KINDOVR:-$KIND}"
run() { (cd $WT && cargo test -p "$CRATE" --offline ${EXTRA:-} $KIND $FILTER 2>&1 | grep -E "^test result|error(\[|:)" | head -3); }
names() { (cd $WT && cargo test -p "$CRATE" --offline --lib 2>&1 | grep -E "^test .* \.\.\. ok" | sort | md5sum; ); }
reset; B=$(names); putdemo; echo "-- demo WITHOUT patch:"; run
reset; git -C $WT apply "$D/patch.diff" || { echo "PATCH DOES NOT APPLY"; exit 2; }
P=$(names); putdemo; echo "-- demo WITH patch:"; run
[ "$B" = "$P" ] && echo "-- existing lib tests: same pass set with and without the patch" || echo "-- existing lib tests: PASS SET DIFFERS"
reset
