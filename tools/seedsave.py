#!/usr/bin/env python3
"""tools/seedsave.py <src-dir> <seeded-name> <append-target> <crate> <filter> <check-result text>"""
import json, os, shutil, sys
src, name, target, crate, filt, result = sys.argv[1:7]
d = os.path.join("/verif/seeded", name)
os.makedirs(d, exist_ok=True)
for f in os.listdir(src):
    if f != "meta.json":
        shutil.copy(os.path.join(src, f), d)
m = json.load(open(os.path.join(src, "meta.json")))
m["breaks_property"] = m.get("property")
m["verified_by_me"] = ["tools/seedverify.sh seeded/%s %s %s %s : demo passes without the patch, fails with it; the crate's existing lib tests have the same pass set with and without the patch" % (name, target, crate, filt),
                       "tools/seedtest.sh seeded/%s/patch.diff %s  (equivalently: git -C /repo apply; ./check %s; git -C /repo checkout -- .)" % (name, m.get("property"), m.get("property"))]
m["check_result"] = result
json.dump(m, open(os.path.join(d, "meta.json"), "w"), indent=1)
