#!/bin/bash
# tools/seedtest.sh <patch.diff> <Cxx> [<Cyy> ...]
# Runs checks against a scratch worktree of /repo HEAD with <patch.diff> applied, WITHOUT touching /repo
# (used while other work is going on in /repo; the official way -- git -C /repo apply / run / checkout --
# gives the same result). One at a time: fixed scratch paths keep cargo fingerprints stable.
set -u
PATCH="$(realpath "$1")"; shift
# SEEDSLOT=<n> selects an independent set of scratch paths, so that several runs can go on side by side
S="${SEEDSLOT:-}"; WT=/tmp/seedwt$S; SV=/tmp/seedverif$S; TG=/tmp/seedtarget$S
exec 9>/tmp/seedtest$S.lock; flock 9
if [ ! -d "$WT/.git" ] && [ ! -f "$WT/.git" ]; then git -C /repo worktree add --detach "$WT" HEAD >/dev/null 2>&1; fi
git -C "$WT" checkout -q --detach "$(git -C /repo rev-parse HEAD)" 2>/dev/null
git -C "$WT" reset -q --hard "$(git -C /repo rev-parse HEAD)"; git -C "$WT" clean -qfd
git -C "$WT" apply "$PATCH" || { echo "patch does not apply"; exit 2; }
mkdir -p "$SV"
rsync -a --delete --exclude .cache --exclude out --exclude .git --exclude 'coq/cases' /verif/ "$SV"/
grep -rlE '"/repo|/repo/' "$SV/harness" "$SV/tools" 2>/dev/null | xargs -r sed -i "s#/repo/#$WT/#g; s#\"/repo\"#\"$WT\"#g"
rc_all=0
for P in "$@"; do
  echo "=== seedtest $P against $(basename "$(dirname "$PATCH")")/$(basename "$PATCH")"
  ( cd "$SV" && VERIF_REPO="$WT" VERIF_TARGET_DIR="$TG" ./check "$P" 2>&1 | grep -E "VIOLATION|KNOWN-FINDING|TIE BROKEN|done rc=" | cut -c1-400 )
done
