"""C14 -- self-encrypted data round-trips; chunks are bounded and content-addressed
(autonomi/src/self_encryption.rs, client/utils.rs, client/data/{mod,public}.rs; pinned self_encryption crate).

The harness (crate c15, shared with C15) runs the real `autonomi::self_encryption::encrypt`, stores the
produced chunks in memory and reads them back with the real `Client::data_get` / `data_get_public`
built around a harness-driven Network, completing concurrent chunk fetches in a shuffled order.
Two builds are driven: the shipped MAX_CHUNK_SIZE (1 MiB) and a build of the same sources with the
crate's compile-time override MAX_CHUNK_SIZE=1024, which is the only way to reach data maps of two
and three levels with inputs of a few hundred KiB."""
import hashlib
import os
import subprocess

from vpc import core
from vpc.core import cN, clist, cpair

IMPORTS = "Require Import V.gen.Consts V.model.ClientRead V.model.SelfEnc."
THEOREMS = ["se_constants", "partition_exact", "src_chunk_bound", "src_chunk_le_max",
            "src_chunk_le_max_at_boundary_refuted", "roundtrip", "roundtrip_any_store", "datamap_content_roundtrips",
            "tag_blind_unpacking_refuted", "pack_terminates", "pack_side_condition",
            "fetch_order_irrelevant", "deterministic", "content_addressed", "root_chunk_le_max",
            "produced_chunk_le_max_refuted", "produced_chunk_le_max_outside_known", "pack_accepted_by_size_acceptor", "too_small_rejected", "codec_laws_satisfiable"]
RULE = ("lengths 0-9 and every size-class boundary of the partition (3*MAX, k*MAX for k=4..6, each -1/0/+1, plus "
        "lengths inside each class) for the shipped MAX_CHUNK_SIZE; for the MAX_CHUNK_SIZE=1024 build additionally "
        "the lengths at which the data map starts to need a second and a third level (+-1 chunk); contents "
        "all-zero / text (compressible), arithmetic sequence, pseudo-random (incompressible); private and public "
        "reads; completion order of concurrent chunk fetches drawn from a per-case seed; self-referential contents "
        "(the stored bytes are the data-map chunk of an earlier upload, its rmp serialisation as a Chunk, First / "
        "Additional wrappers around its map, prefixes / suffixes / extensions of those, with the earlier upload's "
        "chunks still on the network).  A case is distinct/"
        "non-trivial by (build, length, content kind, read mode, number of levels)")
ASSUMPTIONS = ["brotli, AES-128-CBC, the XOR pad and rmp_serde are third-party: the model takes them as a record of "
               "functions with the law untr(tr x) = x / decode(encode v) = v (premises of the theorems, exercised by "
               "every round trip of this run, not proved)",
               "compression into a Vec and AES encryption cannot fail, so self_encryption::encrypt's "
               "Err(Error::Encryption) path is not modelled",
               "SHA3-256 is collision-free on the chunks of one upload (premise of roundtrip)",
               "rayon's internal batching is unobservable (chunks are compared as sets)"]

SMALL_MAX = 1024
SMALL_TARGET = os.path.join(core.CACHE, "target-c14small")


def sha3(b):
    return hashlib.sha3_256(bytes(b)).hexdigest()


def build_small(ctx):
    """the same harness crate built with self_encryption's compile-time override MAX_CHUNK_SIZE=1024
    (own target dir: the value is baked into the crate by option_env!)"""
    env = dict(os.environ)
    env.update({"CARGO_NET_OFFLINE": "true", "CARGO_TARGET_DIR": SMALL_TARGET, "MAX_CHUNK_SIZE": str(SMALL_MAX),
                "RUSTFLAGS": "--cfg %s -Awarnings" % core.GUARD})
    env.setdefault("CARGO_INCREMENTAL", "0")
    with core.Lock("cargo-c14small"):
        rc, out = core.sh("timeout 3000 cargo build --offline -p c15 2>&1", cwd=core.HARNESS, env=env, timeout=3030)
    if rc != 0:
        ctx.tie_break("harness-build", "c15 (MAX_CHUNK_SIZE=%d)" % SMALL_MAX,
                      "the harness no longer builds against /repo with the reduced MAX_CHUNK_SIZE:\n" + out[-4000:])
        return None
    return os.path.join(SMALL_TARGET, "debug", "c15")


# ------------------------------------------------------------------------------------------------
# generator

FILLS = ("zero", "text", "seq", "rand")


def mk(n, fill, rng, mode=None, build="default"):
    return {"op": "data", "kind": "data/%s/%s" % (build, fill), "len": n, "fill": fill, "seed": rng.randrange(1, 10 ** 9),
            "mode": mode or rng.choice(["private", "public"]), "order_seed": rng.randrange(0, 1000), "build": build}


SELFREF = ("map_value", "map_chunk_ser", "first_wrap", "additional_wrap", "first_wrap_ser", "additional_wrap_ser",
           "content_chunk_ser")


def gen_selfref(ctx, build, inner_lens):
    """contents that are themselves (derived from) the data map of an earlier upload U -- a backup copy of a
    private data map, a serialised data-map chunk, DataMapLevel wrappers around U's map, prefixes / suffixes /
    extensions of those; U's chunks stay on the in-memory network during the read.  The read must return the
    stored bytes, not U's plaintext: the level loop is driven by the First/Additional tag, not by what the
    decrypted bytes happen to parse as."""
    rng = ctx.rng
    cases = []
    for n in inner_lens:
        for kind in SELFREF:
            cuts = [None, {"prefix": rng.randrange(3, 300)}, {"suffix": rng.randrange(3, 300)}, {"append": "00"},
                    {"append": "c0ffee"}]
            for cut in (cuts if ctx.tier != "quick" else [None, rng.choice(cuts[1:])]):
                c = {"op": "data", "kind": "data/%s/selfref/%s" % (build, kind), "len": 0, "fill": "selfref", "selfref": kind,
                     "inner": {"len": n, "fill": rng.choice(["rand", "text"]), "seed": rng.randrange(1, 10 ** 9)},
                     "mode": rng.choice(["private", "public"]), "order_seed": rng.randrange(0, 1000), "build": build}
                if cut:
                    c["cut"] = cut
                cases.append(c)
    return cases


def gen_default(ctx, MAX):
    rng = ctx.rng
    cases = []
    for n in range(0, 10):
        for f in ("zero", "rand"):
            for mode in ("private", "public"):
                cases.append(mk(n, f, rng, mode))
    small = [10, 11, 12, 16, 47, 48, 49, 100, 255, 256, 257, 1000, 4095, 4096, 65535, 65536, 65537, 100000]
    for n in small:
        for f in FILLS:
            cases.append(mk(n, f, rng))
    ks = (3, 4, 5) if ctx.tier == "quick" else (3, 4, 5, 6, 7, 9)
    for k in ks:
        for dlt in (-1, 0, 1):
            for f in (("zero", "rand") if ctx.tier == "quick" and k > 3 else FILLS):
                cases.append(mk(k * MAX + dlt, f, rng))
    inside = [MAX - 1, MAX, MAX + 1, 2 * MAX, 2 * MAX + 1, 3 * MAX - 2, 3 * MAX + MAX // 2]
    if ctx.tier != "quick":
        inside += [rng.randrange(3, 8 * MAX) for _ in range(40)]
    for n in inside:
        cases.append(mk(n, rng.choice(FILLS), rng))
    return cases


def gen_small(ctx):
    rng = ctx.rng
    M = SMALL_MAX
    cases = []
    for n in (0, 1, 2, 3, 4, 5, 3 * M - 1, 3 * M, 3 * M + 1, 4 * M - 1, 4 * M, 4 * M + 1):
        for f in ("zero", "rand"):
            cases.append(mk(n, f, rng, build="small"))
    # a wrapped entry takes 77..141 bytes, so the map of 7..13 chunks is where a second level starts,
    # and ~ 80..130 chunks is where a third one does
    two = [k * M + d for k in range(5, 16) for d in (-1, 0, 1)]
    three = [k * M + d for k in (60, 75, 90, 100, 110, 125, 140, 160, 200) for d in (-1, 1)]
    if ctx.tier != "quick":
        two += [rng.randrange(5 * M, 20 * M) for _ in range(60)]
        three += [rng.randrange(60 * M, 400 * M) for _ in range(40)] + [1500 * M + 7]
    for n in two + three:
        for f in (("rand",) if ctx.tier == "quick" and n > 16 * M else ("text", "rand")):
            cases.append(mk(n, f, rng, build="small"))
    return cases


# ------------------------------------------------------------------------------------------------
# oracle

def oracle(c, o):
    if "panic" in o:
        return [("panic", "encrypt/read of %d bytes panicked: %s" % (c["len"], o["panic"]))]
    v = []
    n = o.get("data_len", c["len"])     # self-referential contents: only the harness knows the length
    if n < 3:
        if o.get("enc") == "ok":
            v.append(("too-small-accepted", "an input of %d bytes was self-encrypted instead of being rejected" % n))
        return v
    if o.get("enc") != "ok":
        return [("encrypt-failed", "encrypt failed on %d bytes: %s" % (n, o))]
    MAX = o["max_chunk_size"]
    g = o["get"]
    if g["res"] != "ok" or not g.get("eq") or g.get("len") != n:
        v.append(("roundtrip-failed", "%d bytes (%s, %d data-map level(s), MAX_CHUNK_SIZE=%d): %s read gave %s"
                  % (n, c["fill"], len(o["levels"]), MAX, c["mode"], g)))
    if not o["det"]:
        v.append(("nondeterministic", "two encryptions of the same %d bytes gave different data maps / chunk addresses" % n))
    src_of = {}
    for L in o["levels"]:
        if "infos" not in L:
            v.append(("datamap-unreadable", "level %s of the produced data map cannot be decoded" % L.get("variant")))
            continue
        idxs = [i[0] for i in L["infos"]]
        if idxs != list(range(len(idxs))) or any(i[1] <= 0 for i in L["infos"]):
            v.append(("partition-broken", "level %s: indices %s / empty source chunks" % (L["variant"], idxs[:8])))
        for i in L["infos"]:
            src_of[i[2]] = i[1]
            if not i[3]:
                v.append(("missing-chunk", "data map entry %d points to %s which was not produced" % (i[0], i[2][:12])))
    first = [L for L in o["levels"] if L.get("variant") == "First"]
    if first and sum(i[1] for i in first[0]["infos"]) != n:
        v.append(("partition-broken", "source chunk sizes %s do not sum to the input length %d"
                  % ([i[1] for i in first[0]["infos"]][:8], n)))
    if o["root_len"] > MAX:
        v.append(("root-exceeds-max", "the data map chunk has %d bytes > MAX_CHUNK_SIZE %d" % (o["root_len"], MAX)))
    for ch in o["chunks"]:
        if ch["sha3"] != ch["addr"] or ("hex" in ch and sha3(bytes.fromhex(ch["hex"])) != ch["addr"]):
            v.append(("chunk-address-not-content-hash", "chunk %s is not addressed by the hash of its content" % ch["addr"][:12]))
        if ch["len"] > MAX and ch["addr"] != o["root"]:
            src = src_of.get(ch["addr"])
            # F19: the transform adds cipher padding (and brotli framing) to a source chunk that did not
            # compress: the produced chunk is a few bytes larger than a (nearly) full-size source chunk
            if src is not None and src >= MAX - 32 and ch["len"] <= src + 32:
                v.append(("chunk-exceeds-max-incompressible", "produced chunk of %d bytes from a %d-byte incompressible source "
                          "chunk (MAX_CHUNK_SIZE %d)" % (ch["len"], src, MAX)))
            else:
                v.append(("chunk-exceeds-max", "produced chunk of %d bytes (source chunk %s bytes) > MAX_CHUNK_SIZE %d"
                          % (ch["len"], src, MAX)))
    want_requests = sum(len(L.get("infos", [])) for L in o["levels"]) + (1 if c["mode"] == "public" else 0)
    if g["res"] == "ok" and o["requests"] != want_requests:
        v.append(("fetch-count", "%d record fetches for %d chunks to read" % (o["requests"], want_requests)))
    return v


# ------------------------------------------------------------------------------------------------
# model agreement

def ser_len(n):
    return n + (2 if n < 256 else 3 if n < 65536 else 5)


def model_term(c, o):
    if "panic" in o:
        return "false"
    n = o.get("data_len", c["len"])
    if o.get("enc") != "ok":
        return "(%s <? MIN_ENCRYPTABLE)" % cN(n)
    MAX = o["max_chunk_size"]
    maxt = cN(MAX)
    terms = ["negb (%s <? MIN_ENCRYPTABLE)" % cN(n), "(%s =? %s)" % (cN(o["min_encryptable"]), "MIN_ENCRYPTABLE")]
    if c.get("build", "default") == "default":
        terms.append("(Consts.se_max_chunk_size =? %s)" % maxt)
    levels = o["levels"]
    if any("infos" not in L for L in levels):
        return "false"
    trace = clist([cpair(cN(L["wrapped_len"]), cN(len(L["infos"]))) for L in reversed(levels)])   # deepest level first
    terms.append("agree_pack %s %s" % (maxt, trace))
    # the deepest level partitions the input; every level above partitions the serialised chunk below it
    for li, L in enumerate(levels):
        size = n if li == len(levels) - 1 else ser_len(levels[li + 1]["wrapped_len"])
        terms.append("agree_partition %s %s %s" % (maxt, cN(size), clist([cN(i[1]) for i in L["infos"]])))
    return " && ".join(terms)


def show(c, o):
    c = dict(c, len=o.get("data_len", c["len"]))
    MAX = o.get("max_chunk_size", 1048576)
    return "(num_chunks %s %s, map (chunk_size %s %s) (nseq (N.min 8 (num_chunks %s %s))))" % (
        cN(MAX), cN(c["len"]), cN(MAX), cN(c["len"]), cN(MAX), cN(c["len"]))


def nontrivial(c, o):
    if "panic" in o:
        return None
    return (c.get("build"), o.get("data_len", c["len"]), c["fill"], c.get("selfref"), c["mode"], len(o.get("levels", [])), o.get("enc"))


def run(ctx):
    from props.C15 import pipeline_retry
    ctx.regen_consts()
    binary = ctx.cargo_build("c15")       # the long steps first: keeps Coq build and model evaluation close together
    small = build_small(ctx) if binary else None
    ctx.prove("props/C14.v", THEOREMS, extra_trusted=[
        "model coq/model/SelfEnc.v (hand-written) tied to self_encryption 0.30.0's partition arithmetic and to "
        "autonomi's encrypt / pack_data_map / fetch_from_data_map(_chunk) by this run's correspondence",
        "codec_ok / codec_sizes: inverse and size laws of brotli+AES+XOR pad and rmp_serde are premises (partial by design)",
        "translator tools/extract_consts.py: MAX_CHUNK_SIZE default, MIN_CHUNK_SIZE, MIN_ENCRYPTABLE_BYTES from the "
        "vendored self_encryption sources pinned by Cargo.lock",
        "harness/crates/c15 (Rust driver; in-memory record source with shuffled completion), tools/props/C14.py"])
    corpus = ctx.corpus()
    cases_d = [c for c in corpus if c.get("build", "default") == "default"]
    cases_s = [c for c in corpus if c.get("build") == "small"]
    if not ctx.replay:
        cases_d += gen_default(ctx, 1048576) + gen_selfref(ctx, "default", [3, 10000] if ctx.tier == "quick" else [3, 100, 10000, 300000])
        # with the reduced MAX_CHUNK_SIZE the earlier upload's own data map has one, two and three levels
        cases_s += gen_small(ctx) + gen_selfref(ctx, "small", [3000, 12000] if ctx.tier == "quick" else [3000, 12000, 40000, 200000])
    rel = "self_encryption partition + autonomi pack_data_map levels == SelfEnc.{num_chunks, chunk_size, start_end, pack acceptor}"
    pipeline_retry(ctx, "props/C14.v", cases_d, binary, oracle, model_term, IMPORTS, nontrivial=nontrivial, show=show, relation=rel)
    if small:
        pipeline_retry(ctx, "props/C14.v", cases_s, small, oracle, model_term, IMPORTS, nontrivial=nontrivial, show=show,
                     relation=rel + " [MAX_CHUNK_SIZE=1024 build]")
