"""C02 -- a restarted node never serves corrupted records and keeps completed writes
(ant-networking/src/record_store.rs update_records_from_an_existing_store / with_config /
prepare_record_bytes / get_record_from_bytes; ant-node/Cargo.toml default features).
Shares model, harness and history rendering with C01 (tools/props/C01.py).

The harness materialises a crash directory from the running store: it snapshots the directory at the
chosen moment, obtains the REAL bytes of the first pending write of every file to tear by letting
the pending tasks run one at a time over a sentinel, writes the chosen byte prefix of those bytes,
drops the runtime (pending tasks are lost), and opens a new store with the same identity."""
from props import C01 as base
from props.C01 import NF, Trace, dedupe, mk_case, gen_keys
from vpc.core import cstr, copt, cbool

IMPORTS = "Require Import V.model.RecordStore V.model.StoreStartup."


def model_term(c, o):
    if c.get("kind") == "node":
        return None
    if c.get("kind") == "startup":
        if o is None or "panic" in o or "error" in o:
            return "false"
        return "agree_startup %s %s %s %d %s %d" % (
            cstr(c["cur"]), cbool(c.get("kill", False)), copt(c.get("before"), cstr), c["files"],
            copt(o["after"], cstr), o["left"])
    return base.model_term(c, o)


def show(c, o):
    if c.get("kind") == "node":
        return "true"
    if c.get("kind") == "startup":
        return "startup %s %s (mkDisk %s (repeat (EmptyString, []) %d))" % (
            cstr(c["cur"]), "SAfterTruncate" if c.get("kill") else "SDone", copt(c.get("before"), cstr), c["files"])
    return base.show(c, o)


def nontrivial(c, o):
    if c.get("kind") == "node":
        return base.nontrivial(c, o)
    if c.get("kind") == "startup":
        return ("startup", c.get("before"), c["cur"], c.get("kill", False), c["files"] > 0)
    return base.nontrivial(c, o)

THEOREMS = ["shipped_build_encrypts_records", "restart_safe", "restart_durable", "completed_write_is_on_disk",
            "restart_removed_stay_removed", "completed_delete_is_on_disk", "restart_safe_unencrypted_refuted",
            "version_file_written_only_on_mismatch", "same_version_start_inert", "same_version_starts_inert",
            "restart_durable_incl_startup", "restart_safe_incl_startup", "version_change_wipes",
            "interrupted_version_change_converges", "rewrite_always_refuted", "store_seed_is_function_of_identity"]
RULE = ("histories of puts / overwrites / removes / evictions with the background tasks stopped at an arbitrary "
        "point (any number of single-task steps), followed by a crash that tears the pending write of 0-3 files at "
        "byte prefixes 0,1,2,3 (header boundary), 15-20 (tag boundary), ciphertext length -1/0/+1 and beyond "
        "(thorough: every prefix of every pending write), then re-open with the same identity and continue; several "
        "crashes per history.  Distinct/non-trivial = C01's rule plus (number of crashes, torn prefix class, whether "
        "a completed write / completed delete / unacknowledged completed write was present at the crash)")
ASSUMPTIONS = base.ASSUMPTIONS + [
    "process-crash model: completed write()/unlink() calls survive, a write in progress leaves a byte prefix of "
    "its data (fs::write = create+truncate then write_all); no power-loss / fsync reordering semantics",
    "AEAD authenticity: every strict prefix of a ciphertext is rejected (premise dec_prefix of the theorems; the "
    "run observes it on the real AES-256-GCM-SIV for the prefixes it generates)",
    "the harness builds ant-networking with the feature ant-node's default feature list switches on; that list is "
    "re-read from ant-node/Cargo.toml on every run and pinned by shipped_build_encrypts_records",
]


def header_ok(val):
    b = bytes.fromhex(val) if isinstance(val, str) else val
    if len(b) < 3:
        return False
    a, x, y = b[0], b[1], b[2]
    if a == 0x91:
        return x < 8 or (x in (0xcc, 0xd0) and y < 8)
    return (a == 0x81 and x == 0 and y < 8) or (a == 0xc4 and x == 1 and y < 8)


class Disk:
    """What must be on disk, judged from the recorded history alone (never from the model):
    * a write of k is known COMPLETED once its completion notification has been seen on the channel
      (the write task sends it after fs::write returned) or the store has been run to quiescence;
    * a removal of k (explicit, eviction, clean-up, failed write) is known COMPLETED once the store
      has been observed with no background task left after it was issued."""

    def __init__(self, nk):
        self.seq = 0
        self.writes = {k: [] for k in range(nk)}        # stored puts: {"v", "seq", "done"}
        self.removed_at = {k: None for k in range(nk)}  # seq of the last removal event
        self.quiet_at = -1                              # seq of the last step observed with no task alive

    def step(self, op, out, pre, post, evicted):
        self.seq += 1
        name = op["op"]
        if name in ("put", "put_local") and not (name == "put_local" and out["put_local"] == 2):
            ok = out["put"] if name == "put" else out["put_local"] == 0
            early = [op["k"], op["v"]] in pre["cache"]
            if ok and not early:
                self.writes[op["k"]].append({"v": op["v"], "seq": self.seq, "done": False})
        for k in evicted:
            self.removed_at[k] = self.seq
        # completion notifications that appeared on the channel during this step
        if name == "step" and len(post["chan"]) == len(pre["chan"]) + 1:
            code, k = post["chan"][-1]
            if code != NF and k in self.writes:
                for w in self.writes[k]:
                    if not w["done"]:
                        w["done"] = True
                        break
        if name == "settle":
            for ws in self.writes.values():
                for w in ws:
                    w["done"] = True
        if post["ntasks"] == 0:
            self.quiet_at = self.seq

    def expect(self, k, names):
        """('value', v) / ('absent',) / None (no claim) for key k at a crash"""
        ws = self.writes[k]
        r = self.removed_at[k]
        last = ws[-1] if ws else None
        unwritable = len(names[k]) > 255 or len(names[k]) == 0
        # within one put the eviction comes before the new write is spawned, hence <=
        if last is not None and (r is None or r <= last["seq"]):
            if last["done"] and not unwritable:
                return ("value", last["v"])
            return None
        if r is not None and self.quiet_at >= r:
            return ("absent",)
        return None

    def after_restart(self, post, nk):
        self.seq += 1
        for k in range(nk):
            g = post["gets"][k]
            self.writes[k] = [{"v": g, "seq": self.seq, "done": True}] if g < NF else []
            self.removed_at[k] = None


def validated(c, vi):
    """a value the node can have validated: parseable header, plaintext shorter than max_value_bytes"""
    mvb = c["cfg"].get("max_value_bytes")
    return header_ok(c["vals"][vi]) and (mvb is None or len(c["vals"][vi]) // 2 < mvb)


def oracle(c, o):
    """C02 stated on what the real store did across each crash + re-open."""
    if o is None:
        return []
    if "panic" in o:
        return [("panic", "the store panicked: %s" % o["panic"])]
    if c.get("kind") == "header":
        return []
    if c.get("kind") == "node":
        # the REAL start-up path: NetworkBuilder::build_node (version-file check, seed derived from the identity,
        # store open) over the same root directory with the same keypair
        return base.node_oracle(c, o, want_restart=True)
    if c.get("kind") == "startup":
        # a start-up under the version recorded in the version file must never wipe the store nor touch the file
        if c.get("before") == c["cur"]:
            if o["left"] != c["files"] or o["after"] != c["cur"] or not o["done"]:
                return [("same-version-start-wiped-or-rewrote", "start-up with version %r over a version file holding %r (killed at "
                         "first write: %s): %d of %d record files left, version file now %r, completed: %s"
                         % (c["cur"], c["before"], c.get("kill", False), o["left"], c["files"], o["after"], o["done"]))]
        return []
    v = []
    t = Trace(c, o)
    disk = Disk(t.nk)
    for i, op, out, pre, post in t.steps():
        pre_idx = {a for a, _ in pre["idx"]}
        post_idx = {a for a, _ in post["idx"]}
        evicted = set()
        if op["op"] in ("put", "put_local", "cleanup"):
            evicted = pre_idx - post_idx
        elif op["op"] == "remove":
            evicted = {op["k"]}
        elif op["op"] == "deliver" and op["j"] < len(pre["chan"]) and pre["chan"][op["j"]][0] == NF:
            evicted = {pre["chan"][op["j"]][1]}
        if op["op"] != "crash":
            disk.step(op, out, pre, post, evicted)
        # whatever happens, a read returns nothing or a value handed in for that key
        for k, g in enumerate(post["gets"]):
            if g != NF and g not in t.hist[k]:
                v.append(("serves-foreign-or-torn-value", "step %d (%s): get(key %d) returned %s, never validated for that key"
                          % (i, op["op"], k, "value %d" % g if g < NF else "bytes that are no validated value (truncated or mixed)")))
        if op["op"] != "crash":
            continue
        torn = {kk for kk, _ in op.get("tears", [])}
        listed = post_idx
        pre_files = {f[0]: (f[1], f[2]) for f in pre["files"]}
        for k in range(t.nk):
            if k in torn or k >= NF:
                continue
            # (1) from the history alone
            e = disk.expect(k, o["names"])
            if e is not None and e[0] == "value" and validated(c, e[1]):
                if post["gets"][k] != e[1] or k not in listed:
                    v.append(("restart-lost-completed-write", "step %d: the last write of key %d (value %d) had completed before the "
                              "crash and the key was not removed afterwards; after the restart get returns %s, listed: %s"
                              % (i, k, e[1], post["gets"][k], k in listed)))
            if e is not None and e[0] == "absent":
                if post["gets"][k] != NF or k in listed:
                    v.append(("removed-resurrected", "step %d: key %d was removed and every background task had run before the "
                              "crash; after the restart get returns %s, listed: %s" % (i, k, post["gets"][k], k in listed)))
            # (2) from the directory as it was at the crash
            if k in pre_files:
                val, ln = pre_files[k]
                if val != NF and validated(c, val):
                    if post["gets"][k] != val or k not in listed:
                        v.append(("restart-lost-completed-write", "step %d: the file of key %d held the completed write of value %d "
                                  "at the crash; after the restart get returns %s, listed: %s"
                                  % (i, k, val, post["gets"][k], k in listed)))
            else:
                if post["gets"][k] != NF or k in listed:
                    v.append(("removed-resurrected", "step %d: key %d had no file at the crash; after the "
                              "restart get returns %s, listed: %s" % (i, k, post["gets"][k], k in listed)))
        # a file that survives the re-open must decrypt (torn files are dropped)
        for f in post["files"]:
            if f[0] != NF and f[1] == NF:
                v.append(("undecryptable-file-kept", "step %d: after the restart the file of key %d is kept although it does not decrypt" % (i, f[0])))
        if not o["encrypt"]:
            v.append(("built-without-encryption", "the harness was built without encrypt-records"))
        if post.get("vfile") != "1":
            v.append(("version-file-damaged-by-same-version-start", "step %d: after %d killed and one completed same-version "
                      "start-up the version file holds %r" % (i, op.get("kills", 0), post.get("vfile"))))
        disk.after_restart(post, t.nk)
    return dedupe(v)


def gen(ctx):
    rng = ctx.rng
    quick = ctx.tier == "quick"
    cases = []
    for i in range(170 if quick else 4000):
        adv = i % 5 == 4
        cases.append(base.gen_history(rng, rng.choice([6, 12, 25, 40]), adversarial=adv,
                                      caps=(1, 2, 3, 8, 16384, 16384),
                                      weights=dict(put=34, put_local=8, remove=10, get=2, step=34, deliver=10,
                                                   settle=3, crash=9, pay=2, quote=1), tag="crash-mix"))
    # overwrites with shorter and longer values, completed, then crash / restart (and reads after the
    # 1-2 entry cache has been churned, without restart)
    for i in range(40 if quick else 600):
        keys = gen_keys(rng, rng.randrange(2, 5), False)
        lens = rng.sample([0, 1, 2, 7, 16, 17, 40, 90], 3)
        vals = [bytes([0x91, rng.choice([1, 5, 2, 3])]) + bytes(rng.getrandbits(8) for _ in range(n)) + b"\x00" for n in lens]
        ops = []
        order = [rng.randrange(3) for _ in range(rng.randrange(2, 6))]
        for j, vi in enumerate(order):
            ops.append({"op": "put", "k": 0, "v": vi, "t": base.type_for(rng, vals[vi], False)})
            ops += rng.choice([[{"op": "settle"}], [{"op": "step"}] * rng.randrange(0, 5), []])
            if rng.random() < 0.4:
                ops += [{"op": "put", "k": rng.randrange(1, len(keys)), "v": rng.randrange(3), "t": 2}, {"op": "settle"}, {"op": "get", "k": 0}]
        ops += rng.choice([[{"op": "settle"}], [{"op": "step"}] * rng.randrange(0, 8)])
        ops += [{"op": "crash", "tears": []}, {"op": "get", "k": 0}, {"op": "settle"}]
        cases.append(mk_case(rng, keys, vals, ops, 16384, rng.choice([1, 2, 25]), "overwrite-shorter-longer"))
    # removal inside the window put -> write task done -> (remove) -> notification handled, then restart;
    # and the failed-write clean-up path (file name too long)
    for i in range(40 if quick else 600):
        keys = gen_keys(rng, 2, False) + [bytes([rng.getrandbits(8)]) * 128]
        vals = [bytes([0x91, 1]) + b"abc", bytes([0x91, 5]) + b"defgh"]
        k = rng.choice([0, 0, 0, 2])
        ops = [{"op": "put", "k": 1, "v": 1, "t": 1}] if rng.random() < 0.5 else []
        ops.append({"op": "put", "k": k, "v": 0, "t": 0})
        ops += [{"op": "step"}] * rng.randrange(0, 6)            # 0: nothing ran ... 3+: write done, notification sent
        ops += rng.choice([[], [{"op": "deliver", "j": 0}]])
        ops.append({"op": "remove", "k": k})
        ops += rng.choice([[], [{"op": "deliver", "j": 0}], [{"op": "step"}, {"op": "deliver", "j": 0}]])
        ops += rng.choice([[{"op": "settle"}], [{"op": "step"}] * rng.randrange(0, 6)])
        ops += [{"op": "crash", "tears": []}, {"op": "get", "k": k}, {"op": "settle"}, {"op": "crash", "tears": []}]
        cases.append(mk_case(rng, keys, vals, ops, rng.choice([1, 16384]), 25, "remove-in-notification-window"))
    # values at the size limit: put() accepts a PLAINTEXT shorter than max_value_bytes, the file holds the
    # ciphertext (+16): lengths max-1, max-15, max-16, max-17 (and max, max+1 which a node never validates)
    for i in range(12 if quick else 120):
        mvb = rng.choice([64, 100, 256])
        keys = gen_keys(rng, 3, False)
        lens = [mvb - 1, mvb - 15, mvb - 16, mvb - 17, mvb - 2, mvb, mvb + 1, 10]
        rng.shuffle(lens)
        lens = lens[:4] + [mvb - 1]
        vals = [bytes([0x91, rng.choice([1, 5, 2])]) + bytes(rng.getrandbits(8) for _ in range(n - 2)) for n in lens]
        ops = []
        for j in range(rng.randrange(2, 6)):
            vi = rng.randrange(len(vals))
            ops.append({"op": "put", "k": rng.randrange(3), "v": vi, "t": base.type_for(rng, vals[vi], False)})
            ops += rng.choice([[{"op": "settle"}], [{"op": "step"}] * rng.randrange(0, 5)])
        ops += [{"op": "settle"}, {"op": "crash", "tears": []}, {"op": "get", "k": 0}, {"op": "settle"}, {"op": "crash", "tears": []}]
        cc = mk_case(rng, keys, vals, ops, 16384, rng.choice([1, 25]), "size-limit")
        cc["cfg"]["max_value_bytes"] = mvb
        cases.append(cc)
    # restarts through the real build_node with the same keypair and root directory (oracle only)
    cases += base.gen_node_cases(rng, 20 if quick else 300, restarts=2)
    # start-up attempts killed at their first write (a real child process under `ulimit -f 0`) between the crash
    # and the start that completes; and a second ordinary restart afterwards
    for i in range(30 if quick else 400):
        cc = base.gen_history(rng, rng.choice([6, 12, 20]), adversarial=False, caps=(2, 16384),
                              weights=dict(put=40, remove=6, get=1, step=30, deliver=12, settle=8, crash=0), tag="killed-startup")
        cc["ops"] += [{"op": "settle"}, {"op": "crash", "tears": [], "kills": rng.choice([1, 1, 2])}, {"op": "settle"},
                      {"op": "crash", "tears": [], "kills": rng.choice([0, 1])}, {"op": "get", "k": 0}]
        cases.append(cc)
    for c in cases:
        for op in c["ops"]:
            if op["op"] == "crash" and "kills" not in op and rng.random() < 0.25:
                op["kills"] = 1
    # the start-up check on its own: version file absent / same / other / empty / torn prefix / longer
    for before in (None, "1", "2", "", "12", "1\n", "10"):
        for cur in ("1", "12"):
            for kill in (False, True):
                for files in (0, 3):
                    sc = {"kind": "startup", "cur": cur, "kill": kill, "files": files}
                    if before is not None:
                        sc["before"] = before
                    cases.append(sc)
    # clean-up (needs >= MAX_RECORDS_COUNT/10 = 1638 records and a range) followed by a restart: the removals made
    # by clean-up are removals like any other -- once their deletes have run they must stay removed
    import os
    for n in ([1638] if quick else [1638, 1700]):
        if os.environ.get("VERIF_SKIP_BIG"):
            continue
        keys = gen_keys(rng, n, False)
        vals = [bytes([0x91, 1, 7]), bytes([0x91, 1, 8])]
        case_peer = bytes(rng.getrandbits(8) for _ in range(32))
        byd = sorted(range(n), key=lambda k: base.py_distance(case_peer, keys[k]))
        ops = [{"op": "put", "k": k, "v": 0, "t": 0, "nodump": True} for k in range(n)]
        ops += [{"op": "settle"}, {"op": "set_range_at", "k": byd[n // 2], "delta": 0, "nodump": True},
                {"op": "cleanup"}, {"op": "settle"}, {"op": "crash", "tears": []},
                {"op": "get", "k": byd[0], "nodump": True}, {"op": "get", "k": byd[-1], "nodump": True}]
        cc = mk_case(rng, keys, vals, ops, 16384, 25, "cleanup-then-restart-%d" % n)
        cc["cfg"]["peer"] = case_peer.hex()
        cases.append(cc)
    # LARGE records (300 KiB .. 1 MiB+) torn at block / segment aligned prefixes: every 2^k and 2^k+16 (k = 10..20),
    # multiples of 256 KiB and of 256 KiB + 16 (an AEAD that works in independent segments must still reject a
    # file cut at a segment boundary), and random points; thorough: every 4 KiB aligned prefix of one record.
    # Oracle only (no model term: million-element lists are too slow inside coqc).
    big_keys = gen_keys(rng, 2, False)
    for size in ([307200, 1048576 + 17] if quick else [307200, 614400, 1048576 + 17, 2 * 1048576 + 5]):
        big = bytes([0x91, 1]) + base.pat(rng.getrandbits(8), size - 2)
        small = bytes([0x91, 1]) + b"small"
        points = set()
        for kk in range(10, 21):
            points |= {2 ** kk, 2 ** kk + 16}
        for j in range(1, 9):
            points |= {j * 262144, j * (262144 + 16), j * (262144 + 16) - 16}
        points |= {rng.randrange(1, size + 16) for _ in range(4)}
        if not quick and size == 1048576 + 17:
            points |= set(range(4096, size + 16, 4096))
        for m in sorted(p_ for p_ in points if p_ < size + 16):
            pre_put = [{"op": "put", "k": 0, "v": 1, "t": 0}, {"op": "settle"}] if rng.random() < 0.3 else []
            ops = pre_put + [{"op": "put", "k": 0, "v": 0, "t": 0}, {"op": "crash", "tears": [[0, m]]},
                             {"op": "get", "k": 0}, {"op": "settle"}, {"op": "crash", "tears": []}]
            cc = mk_case(rng, big_keys, [big, small], ops, 16384, 25, "large-torn")
            cases.append(cc)
    # every byte prefix of one pending write (overwrite of a completed record), a second file complete
    for rep in range(1 if quick else 12):
        keys = gen_keys(rng, 3, False)
        body = bytes(rng.getrandbits(8) for _ in range(rng.choice([0, 5, 20])))
        vals = [bytes([0x91, 1]) + body, bytes([0x91, 5, 7]) + body[::-1], bytes([0x91, 2, 1, 2, 3])]
        n = len(vals[1]) + 16
        for m in range(0, n + 2):
            for steps in ((1, 2) if quick else (0, 1, 2, 3)):
                ops = [{"op": "put", "k": 0, "v": 0, "t": 0}, {"op": "put", "k": 1, "v": 2, "t": 2}, {"op": "settle"},
                       {"op": "put", "k": 0, "v": 1, "t": 1}, {"op": "remove", "k": 1}, {"op": "put", "k": 2, "v": 0, "t": 0}]
                ops += [{"op": "step"}] * steps
                ops += [{"op": "crash", "tears": [[0, m]]}, {"op": "get", "k": 0}, {"op": "settle"},
                        {"op": "put", "k": 0, "v": 2, "t": 2}, {"op": "settle"}, {"op": "crash", "tears": []}]
                cases.append(mk_case(rng, keys, vals, ops, 16384, 25, "every-prefix"))
    return cases


def shipped_flag():
    import os, re
    from vpc.core import COQ
    try:
        txt = open(os.path.join(COQ, "gen", "Consts.v")).read()
    except OSError:
        return None
    m = re.search(r"Definition rs_encrypt_records_shipped : bool := (true|false)\.", txt)
    return None if not m else m.group(1) == "true"


def search_without_feature(ctx):
    """The regenerated constant says the shipped build no longer encrypts record files: the pinned theorems
    reject it.  Find the concrete failing input: build the same harness without the feature and replay the
    torn-file witnesses (the `restart_safe_unencrypted_refuted` shape) on the real code."""
    ctx.log("encrypt-records is no longer in the shipped feature set: searching for a failing input on a build without it")
    plain = ctx.cargo_build("c02plain")
    if plain is None:
        return
    cases = ctx.corpus()
    outs = ctx.run_harness(plain, cases) or []
    for c, o in zip(cases, outs):
        for cls, desc in oracle(c, o) or []:
            if cls != "built-without-encryption":
                ctx.impl_violation(cls, "build without encrypt-records (as ant-node now ships): " + desc,
                                   {"case": c, "impl": o, "built_with": "ant-networking without encrypt-records"})


def run(ctx):
    ctx.regen_consts()
    if shipped_flag() is False:
        search_without_feature(ctx)
    ctx.prove("props/C02.v", THEOREMS, extra_trusted=[
        "model coq/model/RecordStore.v (crash / reopen = with_config + update_records_from_an_existing_store) tied "
        "to record_store.rs by this run's lock-step correspondence across real crash directories",
        "translator tools/consts.d/store.py: `encrypt-records` in ant-node's default features and forwarded to "
        "ant-networking; the two cfg!(feature) sites in record_store.rs",
        "harness/crates/c01 (built with ant-networking/encrypt-records), tools/props/C02.py + C01.py"])
    binary = ctx.cargo_build("c01")
    cases = ctx.corpus() + ([] if ctx.replay else gen(ctx))
    ctx.pipeline(cases, binary, oracle, model_term, IMPORTS, nontrivial=nontrivial, show=show,
                 relation=base.RELATION + " across crash + re-open", shard_size=16)
