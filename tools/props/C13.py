"""C13 -- payment quotes are bound to their signer and to every signed field
(ant-evm/src/data_payments.rs; the signing side is ant-node/src/quote.rs)."""
import copy
from vpc.core import cN, cZ, cbytes, clist, copt, cbool, cpair

IMPORTS = "Require Import V.lib.Serde V.lib.Msgpack V.lib.SymSig V.model.Quote."
THEOREMS = ["quote_constants", "signing_bytes_injective", "hash_covers_signed_fields", "check_signed_iff",
            "any_field_mutation_fails", "claimed_identity_mutation_fails", "signature_mutation_fails",
            "timestamp_mutation_refuted", "timestamp_mutation_fails_outside_known_class",
            "verify_for_iff", "payees_are_parsed_ids", "expired_iff", "expired_true_iff",
            "historical_flags_regression", "historical_verify_iff",
            "history_invariant", "regression_flagged", "regression_between_refuted",
            "issue_constants", "skip_only_if_bad", "not_bad_regression_flagged", "bad_needs_three_strikes",
            "pre_epoch_never_accepted", "check_signed_z_nonneg", "signing_z_injective",
            "quote_gap_constant", "storecost_ok_iff", "forwarded_quotes_verify", "forged_quote_not_forwarded"]
RULE = ("quotes built from real ed25519 keys: valid quotes; every single-field and random double-field "
        "mutation of the presented fields against the signed fields (content, timestamp at +-1 ns / same "
        "second / next second / +-1 h, and all pairs of {epoch, epoch + 1 ns, + 1 s, - 1 ns, - 1 s, - 1 s 1 ns, - 10^9 s} for the "
        "signed and the presented timestamp (a panic counts as not accepted), each metrics field incl. None<->Some and msgpack format boundaries "
        "127/128/255/256/65535/65536/2^32-1/2^32/2^64-1, rewards address); wrong signer, foreign but "
        "self-consistent quote, wrong claimed identity, undecodable / truncated / re-typed public keys, "
        "junk / truncated / bit-flipped / empty signatures; proofs of 1-5 quotes mixing valid, wrong-signer, "
        "undecodable-payee, payee/key mismatch and junk-signature entries with the verifier inside and "
        "outside the payee list; expiry at now-{0,1,3598..3602,7200,86400}s-0.5s and now+{2.5s,1h}; "
        "historical pairs around live_time_diff = time_diff + margin {-1,0,+1}, regressions of live_time / "
        "payment count, equal and future timestamps; delivery sequences (2-9 steps, 1-3 interleaved peers, in-order / "
        "shuffled / stale-then-newest / in-between / equal-timestamp, injected regressions) through the real "
        "SwarmDriver::handle_local_cmd(QuoteVerification); the same with nothing cleared in between -- quotes, unrelated "
        "issues (RecordNodeIssue of every kind) and time steps (0/1/9/10/11 s around the rate limit, 289/299/300/301 s around the "
        "retention) interleaved, up to three BadQuoting strikes and beyond; batches for ant_node quotes_verification (this node valid / expired / "
        "badly signed / absent among 1-4 other quoters: genuine, forged fields under a stale genuine signature, wrong claimed "
        "peer, other content, inside / outside the 10 s window, junk signature, undecodable key) and verify_quote_for_storecost "
        "cases (address match / mismatch / peer address, expiry boundary, signature).  A case is distinct/non-trivial by (op, family, outcome)")
ASSUMPTIONS = [
    "all harness runs happen under an always-on tracing subscriber (every level enabled, every event's fields formatted)",
    "ed25519 signatures are modelled symbolically (Sig key msg | Junk): EUF-CMA plus 'a signature string is valid "
    "for at most one (key, message)'; the harness knows which key signed which bytes and reports that symbol",
    "libp2p-identity (protobuf key decoding, PeerId derivation and parsing) is an oracle: its results are reported "
    "by the harness per case and the theorems quantify over every such key system",
    "SystemTime::now() is an explicit model argument; generated timestamps keep >= 0.2 s distance from every "
    "second boundary the code floors at, so real elapsed microseconds cannot flip a result",
    "create_quote_for_storecost is crate-private (needs a running Network): the harness signs exactly as it does "
    "(bytes_for_signing + node key); quotes_verification / verify_quote_for_storecost are driven through the guarded hook "
    "ant_node::verif_hooks_quote on a Network built over plain channels, the emitted LocalSwarmCmd is read from the channel",
    "verify_peer_quote is driven through a client-mode SwarmDriver and the guarded hook ant_networking::verif_hooks::cmd "
    "(handle_local_cmd pass-through, quotes_history / node_issues readers); the harness clears the peer's issue list "
    "around every delivery because record_node_issue records at most one issue per ten seconds; the `driver` sequences clear "
    "nothing and let time pass through the guarded hook age_node_issues (it shifts the recorded Instants back), so the model's "
    "whole-second clock is exact as long as a case runs in well under a second"]

NS = 10 ** 9
MASK = (1 << 64) - 1

# ------------------------------------------------------------------------------------------------
# independent reference implementations used by the oracle (not the Coq model)
# ------------------------------------------------------------------------------------------------
_RC = [0x0000000000000001, 0x0000000000008082, 0x800000000000808A, 0x8000000080008000, 0x000000000000808B,
       0x0000000080000001, 0x8000000080008081, 0x8000000000008009, 0x000000000000008A, 0x0000000000000088,
       0x0000000080008009, 0x000000008000000A, 0x000000008000808B, 0x800000000000008B, 0x8000000000008089,
       0x8000000000008003, 0x8000000000008002, 0x8000000000000080, 0x000000000000800A, 0x800000008000000A,
       0x8000000080008081, 0x8000000000008080, 0x0000000080000001, 0x8000000080008008]
_ROT = [[0, 36, 3, 41, 18], [1, 44, 10, 45, 2], [62, 6, 43, 15, 61], [28, 55, 25, 21, 56], [27, 20, 39, 8, 14]]


def _rol(x, n):
    n %= 64
    return ((x << n) | (x >> (64 - n))) & MASK if n else x


def _keccak_f(a):
    for rc in _RC:
        c = [a[x][0] ^ a[x][1] ^ a[x][2] ^ a[x][3] ^ a[x][4] for x in range(5)]
        d = [c[(x - 1) % 5] ^ _rol(c[(x + 1) % 5], 1) for x in range(5)]
        a = [[a[x][y] ^ d[x] for y in range(5)] for x in range(5)]
        b = [[0] * 5 for _ in range(5)]
        for x in range(5):
            for y in range(5):
                b[y][(2 * x + 3 * y) % 5] = _rol(a[x][y], _ROT[x][y])
        a = [[b[x][y] ^ ((~b[(x + 1) % 5][y]) & b[(x + 2) % 5][y]) for y in range(5)] for x in range(5)]
        a[0][0] ^= rc
    return a


def keccak256(data):
    rate = 136
    p = bytearray(data)
    p.append(0x01)
    while len(p) % rate:
        p.append(0)
    p[-1] |= 0x80
    a = [[0] * 5 for _ in range(5)]
    for off in range(0, len(p), rate):
        blk = p[off:off + rate]
        for i in range(rate // 8):
            a[i % 5][i // 5] ^= int.from_bytes(blk[8 * i:8 * i + 8], "little")
        a = _keccak_f(a)
    out = b""
    for i in range(4):
        out += a[i % 5][i // 5].to_bytes(8, "little")
    return out


assert keccak256(b"").hex() == "c5d2460186f7233c927e7db2dcc703c0e500b653ca82273b7bfad8045d85a470"


def mp_uint(n):
    if n < 128:
        return bytes([n])
    if n < 256:
        return bytes([0xcc, n])
    if n < 65536:
        return b"\xcd" + n.to_bytes(2, "big")
    if n < 2 ** 32:
        return b"\xce" + n.to_bytes(4, "big")
    return b"\xcf" + n.to_bytes(8, "big")


def mp_metrics(m):
    out = b"\x96" + mp_uint(m["crs"]) + mp_uint(m["mr"]) + mp_uint(m["rpc"]) + mp_uint(m["lt"])
    if m["nd"] is None:
        out += b"\xc0"
    else:
        out += b"\xdc\x00\x20" + b"".join(mp_uint(b) for b in bytes.fromhex(m["nd"]))
    out += b"\xc0" if m["ns"] is None else mp_uint(m["ns"])
    return out


def py_bfs(content_hex, ts_s, m, addr_hex):
    return bytes.fromhex(content_hex) + ts_s.to_bytes(8, "little") + mp_metrics(m) + bytes.fromhex(addr_hex)


# ------------------------------------------------------------------------------------------------
# generator
# ------------------------------------------------------------------------------------------------
EDGE = [0, 1, 127, 128, 255, 256, 65535, 65536, 2 ** 32 - 1, 2 ** 32, 2 ** 63, 2 ** 64 - 1]
NKEYS = 6


def rnd_u64(rng):
    r = rng.random()
    if r < 0.45:
        return rng.choice(EDGE)
    if r < 0.7:
        return rng.randrange(0, 70000)
    return rng.getrandbits(rng.choice([8, 16, 32, 40, 64]))


def rnd_metrics(rng):
    return {"crs": rnd_u64(rng), "mr": rnd_u64(rng), "rpc": rnd_u64(rng), "lt": rnd_u64(rng),
            "nd": None if rng.random() < 0.3 else bytes(rng.choice([0, 1, 127, 128, 255, rng.randrange(256)])
                                                         for _ in range(32)).hex(),
            "ns": None if rng.random() < 0.3 else rnd_u64(rng)}


def rnd_fields(rng):
    s = rng.choice([0, 1, 1700000000, 1790000000, 2 ** 32 - 1, 2 ** 32, 2 ** 40, rng.randrange(0, 2 ** 33)])
    return {"content": bytes(rng.randrange(256) for _ in range(32)).hex(),
            "ts": {"s": s, "n": rng.choice([0, 1, 250000000, 999999999, rng.randrange(NS)])},
            "m": rnd_metrics(rng),
            "addr": bytes(rng.randrange(256) for _ in range(20)).hex()}


def flip(hexs, rng):
    b = bytearray(bytes.fromhex(hexs))
    i = rng.randrange(len(b))
    b[i] ^= 1 << rng.randrange(8)
    return b.hex()


def shift_ts(ts, dns):
    t = ts["s"] * NS + ts["n"] + dns
    if t < 0:
        t = ts["s"] * NS + ts["n"] - dns
    return {"s": t // NS, "n": t % NS}


def mutate(f, what, rng):
    """returns a copy of the field set with one signed field altered"""
    g = copy.deepcopy(f)
    if what == "content":
        g["content"] = flip(f["content"], rng)
    elif what == "addr":
        g["addr"] = flip(f["addr"], rng)
    elif what == "ts+1ns":
        g["ts"] = shift_ts(f["ts"], 1)
    elif what == "ts-1ns":
        g["ts"] = shift_ts(f["ts"], -1)
    elif what == "ts-subsec":
        n = rng.randrange(NS)
        g["ts"] = {"s": f["ts"]["s"], "n": n if n != f["ts"]["n"] else (n + 1) % NS}
    elif what == "ts+1s":
        g["ts"] = shift_ts(f["ts"], NS)
    elif what == "ts-1s":
        g["ts"] = shift_ts(f["ts"], -NS)
    elif what == "ts+1h":
        g["ts"] = shift_ts(f["ts"], 3600 * NS)
    elif what == "ts-rand":
        g["ts"] = {"s": rng.randrange(0, 2 ** 33), "n": rng.randrange(NS)}
    elif what in ("crs", "mr", "rpc", "lt"):
        v = f["m"][what]
        g["m"][what] = rng.choice([x for x in (v + 1, v - 1, v ^ 128, v ^ (1 << 32), rnd_u64(rng))
                                   if 0 <= x < 2 ** 64 and x != v])
    elif what == "nd":
        if f["m"]["nd"] is None:
            g["m"]["nd"] = bytes(rng.randrange(256) for _ in range(32)).hex()
        else:
            g["m"]["nd"] = None if rng.random() < 0.3 else flip(f["m"]["nd"], rng)
    elif what == "ns":
        v = f["m"]["ns"]
        if v is None:
            g["m"]["ns"] = rnd_u64(rng)
        else:
            g["m"]["ns"] = None if rng.random() < 0.3 else (v + 1 if v < 2 ** 64 - 1 else v - 1)
    else:
        raise ValueError(what)
    return g


FIELDS = ["content", "addr", "ts+1ns", "ts-1ns", "ts-subsec", "ts+1s", "ts-1s", "ts+1h", "ts-rand",
          "crs", "mr", "rpc", "lt", "nd", "ns"]


def quote_spec(fields, pk, sig):
    q = copy.deepcopy(fields)
    q["pk"] = pk
    q["sig"] = sig
    return q


def valid_quote(fields, k):
    return quote_spec(fields, {"key": k}, {"key": k})


BAD_PKS = ["", "00", "0801", "08011220", "080112" + "20" + "00" * 31, "080112" + "21" + "11" * 33,
           "0802122102" + "11" * 32, "08031220" + "22" * 32, "ff" * 36]


def bad_pk(rng, k):
    if rng.random() < 0.5:
        return {"raw": rng.choice(BAD_PKS)}
    # ed25519 protobuf framing around random key material (may or may not be a curve point), and
    # the same with a trailing byte / a short body
    body = bytes(rng.randrange(256) for _ in range(32)).hex()
    return {"raw": rng.choice(["08011220" + body, "08011220" + body + "00", "0801121f" + body[:-2]])}


def gen_check(rng, n):
    cases = []

    def add(fam, q, claimed):
        cases.append({"op": "check", "family": fam, "nkeys": NKEYS, "q": q, "claimed": claimed})

    for i in range(n):
        f = rnd_fields(rng)
        k = rng.randrange(NKEYS)
        other = (k + 1 + rng.randrange(NKEYS - 1)) % NKEYS
        add("valid", valid_quote(f, k), {"key": k})
        # every single-field mutation: signed over f, presented as g
        for what in FIELDS:
            g = mutate(f, what, rng)
            add("mut:" + what, quote_spec(g, {"key": k}, {"key": k, "of": f}), {"key": k})
        # double-field mutations
        for _ in range(3):
            a, b = rng.sample(FIELDS, 2)
            g = mutate(mutate(f, a, rng), b, rng)
            add("mut2", quote_spec(g, {"key": k}, {"key": k, "of": f}), {"key": k})
        add("wrong-signer", quote_spec(f, {"key": k}, {"key": other}), {"key": k})
        add("foreign-consistent", valid_quote(f, other), {"key": k})
        add("wrong-claimed", valid_quote(f, k), {"key": other})
        add("key-swapped", quote_spec(f, {"key": other}, {"key": k}), {"key": k})
        add("bad-pk", quote_spec(f, bad_pk(rng, k), {"key": k}), {"key": k})
        add("sig-junk", quote_spec(f, {"key": k}, {"raw": bytes(rng.randrange(256) for _ in range(64)).hex()}), {"key": k})
        add("sig-empty", quote_spec(f, {"key": k}, {"raw": ""}), {"key": k})
        add("sig-truncated", quote_spec(f, {"key": k}, {"key": k, "truncate": rng.choice([0, 1, 32, 63])}), {"key": k})
        add("sig-flipped", quote_spec(f, {"key": k}, {"key": k, "flip": rng.randrange(64)}), {"key": k})
    return cases


def gen_proof(rng, n):
    cases = []
    for i in range(n):
        m = rng.choice([1, 1, 2, 3, 4, 5])
        quotes, keys = [], []
        all_valid = rng.random() < 0.45
        for j in range(m):
            f = rnd_fields(rng)
            k = rng.randrange(NKEYS)
            other = (k + 1 + rng.randrange(NKEYS - 1)) % NKEYS
            kind = "valid" if all_valid else rng.choice(
                ["valid", "valid", "valid", "wrong-signer", "bad-payee", "payee-mismatch", "sig-junk", "mut", "bad-pk", "subsec"])
            if kind == "valid":
                e, q = {"key": k}, valid_quote(f, k)
            elif kind == "wrong-signer":
                e, q = {"key": k}, quote_spec(f, {"key": k}, {"key": other})
            elif kind == "bad-payee":
                e, q = {"raw": rng.choice(["", "00", "0102", "0024", "1220" + "11" * 31])}, valid_quote(f, k)
            elif kind == "payee-mismatch":
                e, q = {"key": other}, valid_quote(f, k)
            elif kind == "sig-junk":
                e, q = {"key": k}, quote_spec(f, {"key": k}, {"raw": "ab" * rng.choice([0, 10, 64])})
            elif kind == "mut":
                e, q = {"key": k}, quote_spec(mutate(f, rng.choice([w for w in FIELDS if w not in ("ts+1ns", "ts-1ns", "ts-subsec")]), rng),
                                              {"key": k}, {"key": k, "of": f})
            elif kind == "subsec":
                e, q = {"key": k}, quote_spec(mutate(f, "ts-subsec", rng), {"key": k}, {"key": k, "of": f})
            else:
                e, q = {"key": k}, quote_spec(f, {"raw": rng.choice(BAD_PKS)}, {"key": k})
            # a few recent timestamps so that has_expired is not constantly true
            if rng.random() < 0.4:
                q["ts"] = {"rel_ns": -rng.choice([0, 1, 100, 3599, 3601, 9000]) * NS - NS // 2}
                if "of" in q["sig"]:
                    q["sig"]["of"]["ts"] = copy.deepcopy(q["ts"]) if kind != "subsec" else {"rel_ns": q["ts"]["rel_ns"] - 1}
            quotes.append({"e": e, "q": q})
            keys.append(k)
        me = rng.choice(keys) if rng.random() < 0.8 else rng.randrange(NKEYS)
        cases.append({"op": "proof", "family": "valid" if all_valid else "mixed", "nkeys": NKEYS,
                      "quotes": quotes, "me": {"key": me}})
    return cases


def gen_expiry(rng, n):
    cases = []
    deltas = [-(k * NS + NS // 2) for k in (0, 1, 60, 3598, 3599, 3600, 3601, 3602, 7200, 86400, 10 ** 7)]
    deltas += [-(3600 * NS + 200000000), -(3600 * NS + 800000000), -(3601 * NS + 200000000),
               2 * NS + NS // 2, 3600 * NS + NS // 2, 86400 * NS, 5 * NS]
    while len(deltas) < n:
        k = rng.choice([rng.randrange(0, 8000), rng.randrange(3590, 3610)])
        sign = -1 if rng.random() < 0.85 else 1
        deltas.append(sign * (k * NS + rng.randrange(200000000, 800000000)) + (3 * NS if sign > 0 else 0))
    for d in deltas:
        f = rnd_fields(rng)
        f["ts"] = {"rel_ns": d}
        cases.append({"op": "expiry", "family": "past" if d < 0 else "future", "nkeys": NKEYS, "rel": d,
                      "q": quote_spec(f, {"raw": ""}, {"raw": ""})})
    return cases


def gen_historical(rng, n):
    cases = []
    for i in range(n):
        fa, fb = rnd_fields(rng), rnd_fields(rng)
        # a is the earlier quote by default
        ea = rng.choice([10, 100, 3600, 7200, 100000]) + rng.randrange(0, 1000)    # seconds ago
        gap = rng.choice([0, 1, 5, 60, 3600, 50000])
        eb = max(ea - gap, 0)
        fa["ts"] = {"rel_ns": -(ea * NS + 500000000)}
        fb["ts"] = {"rel_ns": -(eb * NS + 500000000)}
        time_diff = ea - eb
        lt_a = rng.choice([0, 5, 1000, 2 ** 32, rng.randrange(0, 10 ** 6)])
        fam = rng.choice(["margin", "margin", "regress-lt", "regress-rpc", "regress-both", "consistent",
                          "equal-ts", "future", "subsec-order", "random"])
        rpc_a = rng.choice([0, 3, 1000, rng.randrange(0, 10 ** 6)])
        fa["m"]["lt"], fa["m"]["rpc"] = lt_a, rpc_a
        fb["m"]["lt"], fb["m"]["rpc"] = lt_a + max(time_diff // 3600, 0), rpc_a + rng.randrange(0, 4)
        if fam == "margin":
            fb["m"]["lt"] = lt_a + time_diff + 10 + rng.choice([-1, 0, 1, 2])
        elif fam == "regress-lt":
            fa["m"]["lt"] = lt_a + 1 + rng.randrange(0, 5)
            fb["m"]["lt"] = lt_a
        elif fam == "regress-rpc":
            fa["m"]["rpc"] = rpc_a + 1 + rng.randrange(0, 5)
            fb["m"]["rpc"] = rpc_a
        elif fam == "regress-both":
            fa["m"]["lt"], fb["m"]["lt"] = lt_a + 2, lt_a
            fa["m"]["rpc"], fb["m"]["rpc"] = rpc_a + 2, rpc_a
        elif fam == "equal-ts":
            fb["ts"] = copy.deepcopy(fa["ts"])
            fb["m"]["lt"] = lt_a + rng.choice([0, 10, 11])
            if rng.random() < 0.5:
                fa["m"]["lt"], fb["m"]["lt"] = fb["m"]["lt"], fa["m"]["lt"]
        elif fam == "future":
            which = rng.choice(["a", "b", "both"])
            if which in ("b", "both"):
                fb["ts"] = {"rel_ns": rng.choice([5, 3600]) * NS + 500000000}
            if which in ("a", "both"):
                fa["ts"] = {"rel_ns": 4 * NS + 500000000}
            fb["m"]["lt"] = lt_a + rng.choice([0, 10 ** 6])
        elif fam == "subsec-order":
            # same second, different nanoseconds: is_newer_than still orders them
            fb["ts"] = {"rel_ns": fa["ts"]["rel_ns"] + rng.choice([1, 1000, 100000000])}
            fb["m"]["lt"] = lt_a - 1 if lt_a > 0 and rng.random() < 0.5 else lt_a
        elif fam == "random":
            fa["m"]["lt"], fb["m"]["lt"] = rnd_u64(rng), rnd_u64(rng)
            fa["m"]["rpc"], fb["m"]["rpc"] = rng.randrange(0, 5), rng.randrange(0, 5)
        qa, qb = quote_spec(fa, {"raw": ""}, {"raw": ""}), quote_spec(fb, {"raw": ""}, {"raw": ""})
        if rng.random() < 0.5:
            qa, qb = qb, qa
        cases.append({"op": "historical", "family": fam, "nkeys": NKEYS, "a": qa, "b": qb})
    return cases


def hist_quote(rng, secs_ago, lt, rpc):
    f = rnd_fields(rng)
    f["ts"] = {"rel_ns": -(secs_ago * NS + 500000000)}
    f["m"]["lt"], f["m"]["rpc"] = lt, rpc
    return quote_spec(f, {"raw": ""}, {"raw": ""})


def gen_history(rng, n):
    """delivery sequences for SwarmDriver::verify_peer_quote: 1-3 peers, 2-9 deliveries, timestamps out of
    order; the metrics follow a per-peer 'true' monotone history with injected regressions"""
    cases = []
    for i in range(n):
        npeers = rng.choice([1, 1, 2, 3])
        steps = rng.choice([2, 3, 3, 4, 5, 6, 9])
        fam = rng.choice(["in-order", "shuffled", "stale-overwrite", "between", "equal-ts", "random", "later-first", "later-first"])
        ds = []
        for p in range(npeers):
            # an honest timeline: (seconds ago, live_time, payments), newest last
            ages = sorted(rng.sample(range(5, 5000), steps), reverse=True)
            lt0, rpc0 = rng.randrange(0, 50), rng.randrange(0, 50)
            timeline = []
            for j, age in enumerate(ages):
                lt0 += rng.choice([0, 0, 1])
                rpc0 += rng.choice([0, 1, 3])
                timeline.append([age, lt0, rpc0])
            if fam == "equal-ts" and len(timeline) > 1:
                timeline[1][0] = timeline[0][0]
            if fam != "in-order" or rng.random() < 0.3:
                # inject regressions: some entry reports less than an earlier one
                for _ in range(rng.choice([0, 1, 1, 2])):
                    j = rng.randrange(1, len(timeline))
                    k = rng.choice(["lt", "rpc"])
                    if k == "lt":
                        timeline[j][1] = max(timeline[rng.randrange(0, j)][1] - rng.choice([1, 2]), 0)
                    else:
                        timeline[j][2] = max(timeline[rng.randrange(0, j)][2] - rng.choice([1, 5]), 0)
            order = list(range(len(timeline)))
            if fam == "later-first":
                # the newest quote reports less than an earlier one and is delivered first
                k = rng.choice(["lt", "rpc"])
                j = rng.randrange(0, len(timeline) - 1)
                if k == "lt":
                    timeline[-1][1] = max(timeline[j][1] - rng.choice([1, 2]), 0)
                    timeline[j][1] += 1
                else:
                    timeline[-1][2] = max(timeline[j][2] - rng.choice([1, 5]), 0)
                    timeline[j][2] += 1
                order = [len(order) - 1, j] + [x for x in order if x not in (len(order) - 1, j)]
            if fam == "shuffled" or fam == "random":
                rng.shuffle(order)
            elif fam == "stale-overwrite" and len(order) >= 3:
                # newest-but-one first, then an old one, then the newest
                order = [len(order) - 2, 0, len(order) - 1] + order[1:-2]
            elif fam == "between" and len(order) >= 3:
                order = [0, len(order) - 1] + order[1:-1]
            for j in order:
                age, lt, rpc = timeline[j]
                ds.append({"peer": {"key": p}, "q": hist_quote(rng, age, lt, rpc)})
        if npeers > 1:
            # interleave the peers' deliveries, keeping each peer's own order
            per = {}
            for d in ds:
                per.setdefault(d["peer"]["key"], []).append(d)
            ds = []
            while any(per.values()):
                k = rng.choice([k for k, v in per.items() if v])
                ds.append(per[k].pop(0))
        cases.append({"op": "history", "family": fam, "nkeys": NKEYS, "deliveries": ds})
    return cases


def gen_driver(rng, n):
    """quotes, unrelated issues and the passing of time interleaved on one SwarmDriver (nothing cleared)"""
    cases = []
    for i in range(n):
        fam = rng.choice(["issue-then-regress", "issue-then-regress", "strikes", "ratelimit", "retention", "random"])
        steps = []
        peers = [0] if rng.random() < 0.7 else [0, 1]
        age_of = {p: 4000 for p in peers}       # seconds ago of the next (newer) quote of that peer
        lt = {p: rng.randrange(5, 50) for p in peers}
        rpc = {p: rng.randrange(5, 50) for p in peers}

        def quote(p, regress=False, stale=False):
            age_of[p] -= rng.randrange(5, 60)
            a = age_of[p] + (rng.randrange(100, 300) if stale else 0)
            l, r = lt[p], rpc[p]
            if regress:
                if rng.random() < 0.5:
                    l = max(l - rng.choice([1, 3]), 0)
                else:
                    r = max(r - rng.choice([1, 3]), 0)
            else:
                lt[p] += rng.choice([0, 0, 1])
                rpc[p] += rng.choice([0, 1, 2])
                l, r = lt[p], rpc[p]
            return {"quote": {"peer": {"key": p}, "q": hist_quote(rng, a, l, r)}}

        for p in peers:
            steps.append(quote(p))
        m = rng.choice([3, 5, 8, 12])
        for j in range(m):
            p = rng.choice(peers)
            if fam == "issue-then-regress":
                seq = [{"issue": {"peer": {"key": p}, "kind": rng.choice([0, 1, 3])}}, {"age": rng.choice([11, 11, 12, 60])},
                       quote(p, regress=True)]
            elif fam == "strikes":
                seq = [{"age": rng.choice([11, 11, 30])}, quote(p, regress=rng.random() < 0.8)]
            elif fam == "ratelimit":
                seq = [{"age": rng.choice([0, 1, 9, 10, 11])}, quote(p, regress=rng.random() < 0.7)]
            elif fam == "retention":
                seq = [{"issue": {"peer": {"key": p}, "kind": rng.choice([0, 1, 2, 3])}}, {"age": rng.choice([100, 150, 289, 299, 300, 301])},
                       quote(p, regress=rng.random() < 0.5)]
            else:
                seq = [rng.choice([{"age": rng.choice([0, 5, 10, 11, 100, 299, 300])},
                                   {"issue": {"peer": {"key": p}, "kind": rng.randrange(4)}},
                                   quote(p, regress=rng.random() < 0.5), quote(p, stale=True)])]
            steps += seq
        cases.append({"op": "driver", "family": fam, "nkeys": NKEYS, "steps": steps})
    return cases


NONTS = ["addr", "crs", "mr", "rpc", "lt", "nd", "ns"]


def gen_duty(rng, n):
    """batches for ant_node quotes_verification: this node (key `self`) among 1-5 quoters"""
    cases = []
    for i in range(n):
        me = rng.randrange(NKEYS)
        f0 = rnd_fields(rng)
        self_age = rng.choice([0, 5, 60, 3500])
        f0["ts"] = {"rel_ns": -(self_age * NS + NS // 2)}
        self_kind = rng.choice(["valid"] * 6 + ["expired", "badsig", "stale-fields", "absent", "foreign-key-field"])
        entries = []
        if self_kind != "absent":
            fs = copy.deepcopy(f0)
            if self_kind == "expired":
                fs["ts"] = {"rel_ns": -(3700 * NS + NS // 2)}
                self_age = 3700
            if self_kind == "badsig":
                q = quote_spec(fs, {"key": me}, {"key": (me + 1) % NKEYS})
            elif self_kind == "stale-fields":
                q = quote_spec(mutate(fs, rng.choice(NONTS), rng), {"key": me}, {"key": me, "of": fs})
            elif self_kind == "foreign-key-field":
                q = quote_spec(fs, {"key": (me + 2) % NKEYS}, {"key": me})    # Network::verify ignores pub_key
            else:
                q = valid_quote(fs, me)
            entries.append({"peer": {"key": me}, "q": q})
        for _ in range(rng.choice([1, 2, 3, 4])):
            k = (me + 1 + rng.randrange(NKEYS - 1)) % NKEYS
            other = (k + 1 + rng.randrange(NKEYS - 1)) % NKEYS
            f = rnd_fields(rng)
            f["content"] = f0["content"]
            kind = rng.choice(["genuine", "genuine", "forged", "forged", "wrong-claimed", "other-content", "gap-out", "gap-in",
                               "junk-sig", "bad-pk", "wrong-signer", "self-again"])
            gap = rng.choice([-9, -3, 0, 3, 9])
            if kind == "gap-out":
                gap = rng.choice([-11, 11, 60, -60])
            if kind == "gap-in":
                gap = rng.choice([-9, 9])
            f["ts"] = {"rel_ns": -((self_age - gap) * NS + NS // 2)} if self_age - gap >= 0 else {"rel_ns": (gap - self_age) * NS - NS // 2}
            peer = {"key": k}
            if kind in ("genuine", "gap-out", "gap-in"):
                q = valid_quote(f, k)
            elif kind == "forged":
                # the claimed peer's real key and a signature it really made -- over other field values
                q = quote_spec(mutate(f, rng.choice(NONTS), rng), {"key": k}, {"key": k, "of": f})
            elif kind == "wrong-claimed":
                q = valid_quote(f, other)
            elif kind == "other-content":
                f["content"] = rnd_hex_(rng, 32)
                q = valid_quote(f, k)
            elif kind == "junk-sig":
                q = quote_spec(f, {"key": k}, {"raw": rnd_hex_(rng, 64)})
            elif kind == "bad-pk":
                q = quote_spec(f, {"raw": rng.choice(BAD_PKS)}, {"key": k})
            elif kind == "wrong-signer":
                q = quote_spec(f, {"key": k}, {"key": other})
            else:
                peer, q = {"key": me}, valid_quote(f, me)
            entries.append({"peer": peer, "q": q})
        if rng.random() < 0.5:
            rng.shuffle(entries)
        cases.append({"op": "duty", "family": self_kind, "nkeys": NKEYS, "self": me, "quotes": entries})
    return cases


def rnd_hex_(rng, n):
    return bytes(rng.randrange(256) for _ in range(n)).hex()


def gen_storecost(rng, n):
    cases = []
    for i in range(n):
        me = rng.randrange(NKEYS)
        f = rnd_fields(rng)
        f["ts"] = {"rel_ns": -(rng.choice([0, 5, 3599, 3600, 3601, 7200]) * NS + NS // 2)}
        if rng.random() < 0.1:
            f["ts"] = {"rel_ns": 5 * NS + NS // 2}
        kind = rng.choice(["valid", "valid", "valid", "other-addr", "peer-addr", "badsig", "stale-fields", "junk"])
        addr = {"chunk": f["content"]}
        q = valid_quote(f, me)
        if kind == "other-addr":
            addr = {"chunk": rnd_hex_(rng, 32)}
        elif kind == "peer-addr":
            addr = {"peer": {"key": rng.randrange(NKEYS)}}
            if rng.random() < 0.5:
                f["content"] = "00" * 32          # as_xorname() of a peer address defaults to zeros
                q = valid_quote(f, me)
        elif kind == "badsig":
            q = quote_spec(f, {"key": me}, {"key": (me + 1) % NKEYS})
        elif kind == "stale-fields":
            q = quote_spec(mutate(f, rng.choice(NONTS), rng), {"key": me}, {"key": me, "of": f})
        elif kind == "junk":
            q = quote_spec(f, {"key": me}, {"raw": rnd_hex_(rng, rng.choice([0, 64]))})
        cases.append({"op": "storecost", "family": kind, "nkeys": NKEYS, "self": me, "q": q, "addr": addr})
    return cases


def gen(ctx):
    rng = ctx.rng
    quick = ctx.tier == "quick"
    cases = gen_check(rng, 22 if quick else 400)
    cases += gen_epoch(rng, 2 if quick else 30)
    cases += gen_proof(rng, 160 if quick else 3000)
    cases += gen_expiry(rng, 60 if quick else 600)
    cases += gen_historical(rng, 160 if quick else 3000)
    cases += gen_history(rng, 150 if quick else 2500)
    cases += gen_driver(rng, 150 if quick else 2500)
    cases += gen_duty(rng, 150 if quick else 2500)
    cases += gen_storecost(rng, 60 if quick else 1000)
    return cases


# ------------------------------------------------------------------------------------------------
# oracle: the property on what the implementation did
# ------------------------------------------------------------------------------------------------
def ts_ns(t):
    """nanoseconds since the epoch; negative for an instant before it (harness flag "neg" / spec "before_ns")"""
    if "before_ns" in t:
        return -t["before_ns"]
    v = t["s"] * NS + t["n"]
    return -v if t.get("neg") else v


def signed_ts_ns(qspec, qout):
    """realised timestamp (ns) of the field set the signature was made over"""
    of = qspec["sig"]["of"]
    if "rel_ns" in of["ts"]:
        return ts_ns(qout["ts"]) + (of["ts"]["rel_ns"] - qspec["ts"]["rel_ns"])
    return ts_ns(of["ts"])


EPOCH_TS = [{"s": 0, "n": 0}, {"s": 0, "n": 1}, {"s": 1, "n": 0}, {"before_ns": 1}, {"before_ns": NS},
            {"before_ns": NS + 1}, {"before_ns": 10 ** 18}]


def gen_epoch(rng, n):
    """timestamps at and around the unix epoch, for the signed quote and for the rewritten one"""
    cases = []
    for _ in range(n):
        f = rnd_fields(rng)
        k = rng.randrange(NKEYS)
        for signed in EPOCH_TS:
            for shown in EPOCH_TS:
                a, b = copy.deepcopy(f), copy.deepcopy(f)
                a["ts"], b["ts"] = signed, shown
                cases.append({"op": "check", "family": "epoch", "nkeys": NKEYS,
                              "q": quote_spec(b, {"key": k}, {"key": k, "of": a}), "claimed": {"key": k}})
        # pre-epoch quotes that fail earlier checks: no panic expected, just `false`
        b = copy.deepcopy(f)
        b["ts"] = {"before_ns": 5}
        cases.append({"op": "check", "family": "epoch", "nkeys": NKEYS, "q": quote_spec(b, {"raw": ""}, {"raw": ""}), "claimed": {"key": k}})
        cases.append({"op": "check", "family": "epoch", "nkeys": NKEYS, "q": quote_spec(b, {"key": k}, {"raw": "00"}),
                      "claimed": {"key": (k + 1) % NKEYS}})
    return cases


def quote_want(qspec, qout, claimed_hex):
    """(does the property require the quote to verify for `claimed`,
        is the only defect a timestamp change below one second)"""
    if claimed_hex is None or qout["pk_key"] is None or qout["pk_peer"] != claimed_hex:
        return False, False
    sig = qspec["sig"]
    if "key" not in sig or "truncate" in sig or "flip" in sig or sig["key"] != qout["pk_key"] or qout.get("sign_panic"):
        return False, False
    if ts_ns(qout["ts"]) < 0:
        return False, False           # no signed string exists for an instant before the epoch
    if "of" not in sig:
        return True, False
    of = sig["of"]
    others_equal = of["content"] == qspec["content"] and of["addr"] == qspec["addr"] and of["m"] == qspec["m"]
    t_signed, t_shown = signed_ts_ns(qspec, qout), ts_ns(qout["ts"])
    if others_equal and t_signed == t_shown:
        return True, False
    return False, (others_equal and t_signed // NS == t_shown // NS)


def check_bfs(qspec, qout, v):
    if qout["bfs"] is None:
        return      # bytes_for_sig panicked (timestamp before the epoch)
    t = qout["ts"]
    want = py_bfs(qspec["content"], t["s"], qspec["m"], qspec["addr"]).hex()
    if qout["bfs"] != want:
        v.append(("signing-bytes", "bytes_for_sig is %s, expected content ++ le64(secs) ++ msgpack(metrics) ++ address = %s"
                  % (qout["bfs"], want)))
    hw = keccak256(bytes.fromhex(qout["bfs"]) + bytes.fromhex(qout["pk"]) + bytes.fromhex(qout["sig"])).hex()
    if qout["hash"] != hw:
        v.append(("hash-preimage", "hash() = %s is not keccak256(signed bytes ++ pub_key ++ signature) = %s" % (qout["hash"], hw)))
    if qout["peer_id"] != qout["pk_peer"]:
        v.append(("peer-id", "peer_id() = %s but the key decodes to peer %s" % (qout["peer_id"], qout["pk_peer"])))


def expired_at(ts, now):
    return ts > now or (now - ts) // NS > 3600


def oracle(c, o):
    v = []
    if "panic" in o:
        return [("panic", "%s panicked: %s" % (c["op"], o["panic"]))]
    if "error" in o:
        return [("harness", o["error"])]
    if c["op"] == "check":
        check_bfs(c["q"], o["q"], v)
        want, sub = quote_want(c["q"], o["q"], o["claimed"])
        # a panic (r = None) is "not accepted"; what must never happen is ACCEPTING a quote whose fields differ from the signed ones
        if (o["r"] is True) != want:
            if o["r"] and sub is True:
                v.append(("subsecond-timestamp", "quote signed for timestamp %s verifies with timestamp %s (same second, "
                          "other nanoseconds): only whole seconds are signed" % (c["q"]["sig"]["of"]["ts"], c["q"]["ts"])))
            elif o["r"]:
                v.append(("check-accepts", "check_is_signed_by_claimed_peer accepted a quote [%s] that is not signed by the "
                          "claimed peer's key over exactly the presented fields" % c.get("family")))
            else:
                v.append(("check-rejects", "check_is_signed_by_claimed_peer rejected a correctly signed quote [%s]" % c.get("family")))
    elif c["op"] == "proof":
        wants, subs = [], []
        for item, qo in zip(c["quotes"], o["quotes"]):
            check_bfs(item["q"], qo, v)
            w, sub = quote_want(item["q"], qo, qo["e_peer"])
            wants.append(w)
            subs.append(sub is True)
        payees = [qo["e_peer"] for qo in o["quotes"] if qo["e_peer"] is not None]
        if o["payees"] != payees:
            v.append(("payees", "payees() = %s, decodable encoded ids are %s" % (o["payees"], payees)))
        want = (o["me"] in payees) and all(wants)
        if o["verify"] != want:
            if o["verify"] and (o["me"] in payees) and all(w or s for w, s in zip(wants, subs)):
                v.append(("subsecond-timestamp", "proof verifies although a quote's timestamp differs below one second from the signed one"))
            elif o["verify"]:
                v.append(("verify-for-accepts", "verify_for accepted: verifier in payees=%s, per-quote validity=%s" % (o["me"] in payees, wants)))
            else:
                v.append(("verify-for-rejects", "verify_for rejected a proof whose quotes all verify for their payees, verifier among them"))
        by_peer = [qo["bfs"] for qo in o["quotes"] if qo["peer_id"] == o["me"]]
        if o["by_peer"] != by_peer:
            v.append(("quotes-by-peer", "quotes_by_peer returned %d quotes, %d carry the peer's key" % (len(o["by_peer"]), len(by_peer))))
        e0 = any(expired_at(ts_ns(qo["ts"]), ts_ns(o["now"])) for qo in o["quotes"])
        e1 = any(expired_at(ts_ns(qo["ts"]), ts_ns(o["now_after"])) for qo in o["quotes"])
        if e0 == e1 and o["expired"] != e0:
            v.append(("proof-expiry", "ProofOfPayment::has_expired = %s, expected %s" % (o["expired"], e0)))
    elif c["op"] == "expiry":
        t = ts_ns(o["q"]["ts"])
        e0, e1 = expired_at(t, ts_ns(o["now"])), expired_at(t, ts_ns(o["now_after"]))
        if e0 == e1 and o["r"] != e0:
            v.append(("expiry", "has_expired = %s for a quote dated now%+.3f s (window %d s, future dates expire)"
                      % (o["r"], c["rel"] / NS, 3600)))
    elif c["op"] in ("duty", "storecost"):
        def self_signed(spec, out):
            """signed by this node's own key over exactly the presented fields (Network::verify ignores pub_key)"""
            sig = spec["sig"]
            if "key" not in sig or "truncate" in sig or "flip" in sig or sig["key"] != c["self"]:
                return False
            if "of" not in sig:
                return True
            of = sig["of"]
            return (of["content"] == spec["content"] and of["addr"] == spec["addr"] and of["m"] == spec["m"]
                    and signed_ts_ns(spec, out) == ts_ns(out["ts"]))
        if c["op"] == "storecost":
            t = ts_ns(o["q"]["ts"])
            e0, e1 = expired_at(t, ts_ns(o["now"])), expired_at(t, ts_ns(o["now_after"]))
            if e0 == e1:
                want = o["addr_xor"] == c["q"]["content"] and not e0 and self_signed(c["q"], o["q"])
                if (o["code"] == 0) != want:
                    v.append(("storecost-accepts" if o["code"] == 0 else "storecost-rejects",
                              "verify_quote_for_storecost returned %s for a quote [%s] that is %sabout the address, unexpired and "
                              "signed by this node over its fields" % ("Ok" if o["code"] == 0 else o.get("err"), c.get("family"),
                                                                        "" if want else "not ")))
        else:
            fw = o["forwarded"]
            if isinstance(fw, dict):
                v.append(("duty-cmd", "quotes_verification emitted %s" % fw))
            elif fw is not None:
                for i in fw:
                    if i is None:
                        v.append(("duty-forwards-unknown", "a pair that was not in the batch was handed to the swarm driver"))
                        continue
                    spec, out = c["quotes"][i]["q"], o["quotes"][i]
                    want, sub = quote_want(spec, out, out["peer"])
                    if not want:
                        v.append(("subsecond-timestamp" if sub else "duty-forwards-unverified",
                                  "quotes_verification handed entry %d to the swarm driver to be held against peer %s, but that "
                                  "quote does not verify for that peer (its key and a signature by it over exactly the presented "
                                  "fields) [self %s]" % (i, out["peer"][-12:], c.get("family"))))
                    if out["peer"] == o["self_peer"]:
                        v.append(("duty-forwards-self", "this node's own quote was handed down"))
                mine = [i for i, out in enumerate(o["quotes"]) if out["peer"] == o["self_peer"]]
                ok = False
                if mine:
                    t = ts_ns(o["quotes"][mine[0]]["ts"])
                    e0, e1 = expired_at(t, ts_ns(o["now"])), expired_at(t, ts_ns(o["now_after"]))
                    ok = (e0 != e1) or (not e0 and self_signed(c["quotes"][mine[0]]["q"], o["quotes"][mine[0]]))
                if not ok:
                    v.append(("duty-without-valid-self-quote", "quotes were handed down although this node is not a valid, "
                              "unexpired quoter of the batch [self %s]" % c.get("family")))
    elif c["op"] == "driver":
        bad, issues, since, delivered, stored = {}, {}, {}, {}, {}
        total_age = 0
        for i, (st, r) in enumerate(zip(c["steps"], o["steps"])):
            if "age" in st:
                total_age += st["age"]
                for p in since:
                    since[p] += st["age"]
                continue
            if not r["ok"]:
                v.append(("history-handler", "handle_local_cmd failed at step %d" % i))
            p = (st.get("quote") or st.get("issue"))["peer"]["key"]
            before = issues.get(p, [])
            if "quote" in st:
                q = st["quote"]["q"]
                t = ts_ns(r["ts"])
                delivered.setdefault(p, {})[t] = (q["m"]["lt"], q["m"]["rpc"])
                ref_t = stored.get(p)
                ref = delivered[p].get(ts_ns(ref_t)) if ref_t else None
                regress_fwd = ref is not None and ts_ns(ref_t) <= t and (q["m"]["lt"] < ref[0] or q["m"]["rpc"] < ref[1])
                # earlier quote arriving after a later reference that reports less than it
                regress_bwd = ref is not None and ts_ns(ref_t) > t and (ref[0] < q["m"]["lt"] or ref[1] < q["m"]["rpc"])
                if (not bad.get(p, False) and (regress_fwd or regress_bwd)
                        and (not before or since.get(p, 0) > 10) and total_age <= 250 and len(before) < 10):
                    if r["issues"] != before + [2]:
                        v.append(("history-regression-missed",
                                  "step %d: peer %d is not considered bad (issues on record: %s, last one %s s ago) and delivers a quote "
                                  "that is inconsistent with its reference (the later of the two reports less) (live_time %d -> %d, payments %d -> %d); no "
                                  "BadQuoting issue was recorded (issues afterwards: %s)"
                                  % (i, p, before, since.get(p), ref[0], q["m"]["lt"], ref[1], q["m"]["rpc"], r["issues"])))
            if r["is_bad"] and not bad.get(p, False):
                if max([r["issues"].count(k) for k in set(r["issues"])] or [0]) < 3:
                    v.append(("bad-without-three-strikes", "step %d: peer %d is considered bad with issues %s" % (i, p, r["issues"])))
            if r["issues"] != before:
                since[p] = 0
            issues[p] = r["issues"]
            bad[p] = r["is_bad"]
            stored[p] = r["stored_ts"]
    elif c["op"] == "history":
        acc = {}      # peer -> accepted (timestamp, live_time, payments)
        for i, (d, st) in enumerate(zip(c["deliveries"], o["steps"])):
            p = d["peer"]["key"]
            t, lt, rpc = ts_ns(st["ts"]), d["q"]["m"]["lt"], d["q"]["m"]["rpc"]
            if not st["ok"]:
                v.append(("history-handler", "handle_local_cmd(QuoteVerification) failed at step %d" % i))
            earlier = acc.get(p, [])
            worse_than = [a for a in earlier if a[0] < t and (lt < a[1] or rpc < a[2])]
            if worse_than and not st["flagged"]:
                a = worse_than[0]
                what = ("step %d: peer %d delivers a quote dated %+.1f s after an accepted one but reporting less "
                        "(live_time %d -> %d, payments %d -> %d) and is not flagged"
                        % (i, p, (t - a[0]) / NS, a[1], lt, a[2], rpc))
                if any(h[0] > t for h in earlier):
                    v.append(("regression-older-than-newest", what + "; a newer accepted quote exists, and only that one is kept as reference"))
                else:
                    v.append(("history-regression-missed", what))
            # the same pair in the other order of arrival: the quote now delivered is EARLIER than the peer's newest
            # accepted quote, and that later quote reports less than this one -- the later/earlier pair is inconsistent
            # and the code compares exactly these two (the reference is the newest accepted), so it must be flagged now
            if earlier and not st["flagged"]:
                h = max(earlier)
                if h[0] > t and (h[1] < lt or h[2] < rpc):
                    v.append(("history-regression-missed",
                              "step %d: peer %d delivers a quote dated %.1f s BEFORE its newest accepted quote, which reports less "
                              "(live_time %d -> %d, payments %d -> %d going forward in time); the pair is not flagged"
                              % (i, p, (h[0] - t) / NS, lt, h[1], rpc, h[2])))
            if st["flagged"] and not any(x == "BadQuoting" for x in st["issues"]):
                v.append(("history-issue-kind", "step %d recorded %s" % (i, st["issues"])))
            if not st["flagged"]:
                acc.setdefault(p, []).append((t, lt, rpc))
            # the reference kept for the peer is one of its accepted quotes, the newest of them
            if st["stored_ts"] is not None and acc.get(p):
                newest = max(a[0] for a in acc[p])
                if ts_ns(st["stored_ts"]) != newest:
                    v.append(("history-reference", "step %d: the reference kept for peer %d is dated %d, the newest accepted quote %d"
                              % (i, p, ts_ns(st["stored_ts"]), newest)))
    elif c["op"] == "historical":
        ta, tb = ts_ns(o["a"]["ts"]), ts_ns(o["b"]["ts"])
        ma, mb = c["a"]["m"], c["b"]["m"]
        if o["newer"] != (ta > tb):
            v.append(("is-newer", "is_newer_than = %s for timestamps %d vs %d" % (o["newer"], ta, tb)))
        if ta != tb:
            (mo, mn), (to, tn) = ((ma, mb), (ta, tb)) if ta < tb else ((mb, ma), (tb, ta))
            regress = mn["lt"] < mo["lt"] or mn["rpc"] < mo["rpc"]
            if regress and (o["r"] or o["r_swapped"]):
                v.append(("historical-regression-accepted", "later quote reports less uptime / fewer payments (%s -> %s) but "
                          "historical_verify = %s / %s" % ((mo["lt"], mo["rpc"]), (mn["lt"], mn["rpc"]), o["r"], o["r_swapped"])))
            if not regress:
                def full(now):
                    if now < to or now < tn:
                        return True
                    td = max((now - to) // NS - (now - tn) // NS, 0)
                    return not (mn["lt"] - mo["lt"] > td + 10)
                w0, w1 = full(ts_ns(o["now"])), full(ts_ns(o["now_after"]))
                if w0 == w1 and (o["r"] != w0 or o["r_swapped"] != w0):
                    v.append(("historical-consistency", "consistent pair judged %s / %s, expected %s (uptime may grow by elapsed "
                              "time + 10 s margin)" % (o["r"], o["r_swapped"], w0)))
    return v


# ------------------------------------------------------------------------------------------------
# model agreement
# ------------------------------------------------------------------------------------------------
def c_metrics(m):
    return ("{| close_records_stored := %s; max_records := %s; received_payment_count := %s; live_time := %s; "
            "network_density := %s; network_size := %s |}" % (
                cN(m["crs"]), cN(m["mr"]), cN(m["rpc"]), cN(m["lt"]),
                copt(m["nd"], cbytes), copt(m["ns"], cN)))


def c_quote(qspec, qout):
    return ("{| content := %s; timestamp := %s; qmetrics := %s; rewards_address := %s; pub_key := %s; signature := %s |}"
            % (cbytes(qspec["content"]), cN(ts_ns(qout["ts"])), c_metrics(qspec["m"]), cbytes(qspec["addr"]),
               cbytes(qout["pk"]), cbytes(qout["sig"])))


def c_keysys(qouts, encs=()):
    pks, peers, sigs, seen = [], [], [], set()
    for qo in qouts:
        if qo["pk_key"] is not None:
            pks.append(cpair(cbytes(qo["pk"]), cN(qo["pk_key"])))
            if qo["pk_key"] not in seen:
                seen.add(qo["pk_key"])
                peers.append(cpair(cN(qo["pk_key"]), cbytes(qo["pk_peer"])))
        if qo["sym"] is not None:
            sigs.append(cpair(cbytes(qo["sig"]), "(Sig %s %s)" % (cN(qo["sym"]["key"]), cbytes(qo["sym"]["msg"]))))
    es = [cpair(cbytes(e), cbytes(p)) for e, p in encs if p is not None]
    return "(mkK %s %s %s %s)" % (clist(pks), clist(peers), clist(es), clist(sigs))


def model_term(c, o):
    if "panic" in o or "error" in o:
        return "false"
    if c["op"] == "check" and (ts_ns(o["q"]["ts"]) < 0 or o["r"] is None):
        q = c_quote(c["q"], dict(o["q"], ts={"s": 0, "n": 0}))
        return "agree_check_z %s %s %s %s %s" % (c_keysys([o["q"]]), q, cZ(ts_ns(o["q"]["ts"])), cbytes(o["claimed"]),
                                                 copt(o["r"], cbool))
    if c["op"] == "check":
        q = c_quote(c["q"], o["q"])
        K = c_keysys([o["q"]])
        return "agree_signing %s %s && agree_check %s %s %s %s && agree_peer_id %s %s %s" % (
            q, cbytes(o["q"]["bfs"]), K, q, cbytes(o["claimed"]), cbool(o["r"]),
            K, q, copt(o["q"]["peer_id"], cbytes))
    if c["op"] == "proof":
        qs = [c_quote(item["q"], qo) for item, qo in zip(c["quotes"], o["quotes"])]
        K = c_keysys(o["quotes"], [(qo["e"], qo["e_peer"]) for qo in o["quotes"]])
        proof = clist([cpair(cbytes(qo["e"]), q) for qo, q in zip(o["quotes"], qs)])
        t = "agree_proof %s %s %s %s %s %s" % (K, proof, cbytes(o["me"]), cbool(o["verify"]),
                                               clist([cbytes(p) for p in o["payees"]]),
                                               clist([cbytes(b) for b in o["by_peer"]]))
        e0 = [expired_at(ts_ns(qo["ts"]), ts_ns(o["now"])) for qo in o["quotes"]]
        e1 = [expired_at(ts_ns(qo["ts"]), ts_ns(o["now_after"])) for qo in o["quotes"]]
        if e0 == e1:
            t += " && agree_proof_expired %s %s %s" % (cN(ts_ns(o["now"])), proof, cbool(o["expired"]))
        return t
    if c["op"] == "expiry":
        return "agree_signing %s %s && agree_expired %s %s %s" % (
            c_quote(c["q"], o["q"]), cbytes(o["q"]["bfs"]), cN(ts_ns(o["now"])), c_quote(c["q"], o["q"]), cbool(o["r"]))
    if c["op"] == "driver":
        steps = []
        for st, r in zip(c["steps"], o["steps"]):
            if "age" in st:
                steps.append("(DAge %s, None)" % cN(st["age"]))
                continue
            p = (st.get("quote") or st.get("issue"))["peer"]["key"]
            seen = "Some (%s, (%s, %s, %s))" % (cN(p), clist([cN(k) for k in r["issues"]]), cbool(r["is_bad"]),
                                                copt(r["stored_ts"], lambda t: cN(ts_ns(t))))
            if "quote" in st:
                q = c_quote(st["quote"]["q"], {"ts": r["ts"], "pk": "", "sig": ""})
                steps.append("(DQuote %s %s %s, %s)" % (cN(ts_ns(r["now"])), cN(p), q, seen))
            else:
                steps.append("(DIssue %s %s, %s)" % (cN(p), cN(st["issue"]["kind"]), seen))
        return "agree_driver driver_init %s" % clist(steps)
    if c["op"] == "storecost":
        t = ts_ns(o["q"]["ts"])
        if expired_at(t, ts_ns(o["now"])) != expired_at(t, ts_ns(o["now_after"])):
            return None
        return "agree_storecost %s %s %s %s %s %s" % (c_keysys([o["q"]]), cN(ts_ns(o["now"])), cN(c["self"]),
                                                      c_quote(c["q"], o["q"]), cbytes(o["addr_xor"]), cN(o["code"]))
    if c["op"] == "duty":
        fw = o["forwarded"]
        if isinstance(fw, dict) or (fw is not None and any(i is None for i in fw)):
            return "false"
        for out in o["quotes"]:
            t = ts_ns(out["ts"])
            if expired_at(t, ts_ns(o["now"])) != expired_at(t, ts_ns(o["now_after"])):
                return None
        batch = clist([cpair(cbytes(out["peer"]), c_quote(item["q"], out)) for item, out in zip(c["quotes"], o["quotes"])])
        return "agree_duty %s %s %s %s %s %s" % (c_keysys(o["quotes"]), cN(ts_ns(o["now"])), cbytes(o["self_peer"]), cN(c["self"]),
                                                 batch, copt(fw, lambda l: clist([cN(i) for i in l])))
    if c["op"] == "history":
        steps = []
        for d, st in zip(c["deliveries"], o["steps"]):
            q = c_quote(d["q"], {"ts": st["ts"], "pk": "", "sig": ""})
            steps.append("((%s, %s, %s), (%s, %s))" % (cN(ts_ns(st["now"])), cN(d["peer"]["key"]), q, cbool(st["flagged"]),
                                                      copt(st["stored_ts"], lambda t: cN(ts_ns(t)))))
        return "agree_history [] %s" % clist(steps)
    if c["op"] == "historical":
        a, b = c_quote(c["a"], o["a"]), c_quote(c["b"], o["b"])
        return "agree_historical %s %s %s %s %s && agree_historical %s %s %s %s %s" % (
            cN(ts_ns(o["now"])), a, b, cbool(o["newer"]), cbool(o["r"]),
            cN(ts_ns(o["now"])), b, a, cbool(ts_ns(o["b"]["ts"]) > ts_ns(o["a"]["ts"])), cbool(o["r_swapped"]))
    return "false"


def show(c, o):
    if c["op"] == "check" and ts_ns(o["q"]["ts"]) < 0:
        return "check_signed_z %s %s %s %s" % (c_keysys([o["q"]]), c_quote(c["q"], dict(o["q"], ts={"s": 0, "n": 0})),
                                               cZ(ts_ns(o["q"]["ts"])), cbytes(o["claimed"]))
    if c["op"] == "check":
        q = c_quote(c["q"], o["q"])
        return "(V.lib.Strs.tohex (bytes_for_signing %s), check_signed %s %s %s)" % (q, c_keysys([o["q"]]), q, cbytes(o["claimed"]))
    if c["op"] == "expiry":
        return "has_expired %s %s" % (cN(ts_ns(o["now"])), c_quote(c["q"], o["q"]))
    if c["op"] == "historical":
        return "historical_verify %s %s %s %s" % (cN(ts_ns(o["now"])), cN(ts_ns(o["now"])), c_quote(c["a"], o["a"]), c_quote(c["b"], o["b"]))
    if c["op"] == "duty":
        batch = clist([cpair(cbytes(out["peer"]), c_quote(item["q"], out)) for item, out in zip(c["quotes"], o["quotes"])])
        return "match quotes_verification %s %s %s %s %s with Some l => Some (map (fun pq => V.lib.Strs.tohex (fst pq)) l) | None => None end" % (
            c_keysys(o["quotes"]), cN(ts_ns(o["now"])), cbytes(o["self_peer"]), cN(c["self"]), batch)
    if c["op"] == "storecost":
        return "verify_quote_for_storecost %s %s %s %s %s" % (c_keysys([o["q"]]), cN(ts_ns(o["now"])), cN(c["self"]),
                                                             c_quote(c["q"], o["q"]), cbytes(o["addr_xor"]))
    if c["op"] == "history":
        ds = ["(%s, %s, %s)" % (cN(ts_ns(st["now"])), cN(d["peer"]["key"]), c_quote(d["q"], {"ts": st["ts"], "pk": "", "sig": ""}))
              for d, st in zip(c["deliveries"], o["steps"])]
        return "snd (run_deliveries [] %s)" % clist(ds)
    qs = [c_quote(item["q"], qo) for item, qo in zip(c["quotes"], o["quotes"])]
    K = c_keysys(o["quotes"], [(qo["e"], qo["e_peer"]) for qo in o["quotes"]])
    proof = clist([cpair(cbytes(qo["e"]), q) for qo, q in zip(o["quotes"], qs)])
    return "(verify_for %s %s %s, map V.lib.Strs.tohex (payees %s %s))" % (K, proof, cbytes(o["me"]), K, proof)


def nontrivial(c, o):
    if "panic" in o:
        return (c["op"], "panic")
    if c["op"] == "check":
        return (c["op"], c.get("family"), o["r"])
    if c["op"] == "proof":
        return (c["op"], len(c["quotes"]), o["verify"], len(o["payees"]), o["expired"])
    if c["op"] == "expiry":
        return (c["op"], c.get("family"), o["r"], min(abs(c["rel"]) // NS, 3700))
    if c["op"] == "history":
        return (c["op"], c.get("family"), len(c["deliveries"]), tuple(st["flagged"] for st in o["steps"]))
    if c["op"] == "duty":
        fw = o["forwarded"]
        return (c["op"], c.get("family"), len(c["quotes"]), None if fw is None else len(fw))
    if c["op"] == "driver":
        return (c["op"], c.get("family"), tuple((tuple(r.get("issues", ())), r.get("is_bad")) for r in o["steps"][-3:]))
    if c["op"] == "storecost":
        return (c["op"], c.get("family"), o["code"])
    return (c["op"], c.get("family"), o["r"], o["newer"])


def robust_pipeline(ctx, target, cases, *args, **kw):
    """ctx.pipeline, repeated (after rebuilding this property's cone) when another check rebuilt
    gen/Consts.vo between our proof build and our case evaluation (coqc then reports
    'inconsistent assumptions over library V.gen.Consts'; the shared driver has no guard for that)"""
    import copy as _copy
    for attempt in range(3):
        snap = (len(ctx.tie_breaks), len(ctx.impl_viol), _copy.deepcopy(ctx.cov), set(ctx._nontrivial))
        ctx.pipeline(cases, *args, **kw)
        new = ctx.tie_breaks[snap[0]:]
        if attempt < 2 and any(k == "model-eval" and "inconsistent assumptions" in str(d) for k, _n, d in new):
            del ctx.tie_breaks[snap[0]:]
            del ctx.impl_viol[snap[1]:]
            ctx.cov = snap[2]
            ctx._nontrivial = snap[3]
            ctx.log("gen/Consts.vo was rebuilt by another check meanwhile: rebuilding %s and repeating the run" % target)
            ctx.coq_make([target])
            continue
        return


def run(ctx):
    ctx.regen_consts()
    ctx.prove("props/C13.v", THEOREMS, extra_trusted=[
        "model coq/model/Quote.v (hand-written) tied to ant-evm/src/data_payments.rs by this run's correspondence",
        "coq/lib/Msgpack.v: model of rmp-serde's compact encoding (QuotingMetrics inside the signed bytes), "
        "checked byte-for-byte against rmp_serde::to_vec on every quote",
        "symbolic signatures (coq/lib/SymSig.v); libp2p-identity key decoding / peer ids reported by the harness",
        "translator tools/extract_consts.py: QUOTE_EXPIRATION_SECS, LIVE_TIME_MARGIN re-read from data_payments.rs",
        "harness/crates/c13 (Rust driver, real ed25519 keys), tools/props/C13.py (generator, oracle incl. an "
        "independent msgpack/keccak-256 implementation, canonicaliser)"])
    binary = ctx.cargo_build("c13")
    cases = ctx.corpus() + ([] if ctx.replay else gen(ctx))
    robust_pipeline(ctx, "props/C13.v", cases, binary, oracle, model_term, IMPORTS, nontrivial=nontrivial, show=show, shard_size=120,
                 relation="PaymentQuote::{bytes_for_sig,hash,peer_id,check_is_signed_by_claimed_peer,has_expired,"
                          "is_newer_than,historical_verify}, ProofOfPayment::{verify_for,payees,quotes_by_peer,has_expired}, "
                          "SwarmDriver::verify_peer_quote, ant_node::quote::{quotes_verification,verify_quote_for_storecost} == Quote.{bytes_for_signing,hash_preimage,quote_peer_id,check_signed,"
                          "has_expired,is_newer_than,historical_verify,verify_for,payees,quotes_by_peer,proof_has_expired,"
                          "verify_peer_quote,quotes_verification,verify_quote_for_storecost}")
