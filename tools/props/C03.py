"""C03 -- new data is stored from a client only with a valid payment for that exact data
(ant-node/src/put_validation.rs, ant-node/src/quote.rs, ant-evm/src/data_payments.rs)."""
import copy
import itertools
from props import putval as pv

IMPORTS = pv.IMPORTS
THEOREMS = ["payment_sees_latest_only", "stores_new_only_if_paid", "failed_payment_rejected", "unpaid_only_updates",
            "rejected_no_effect", "payment_ok_iff", "source_constants_c03"]
RULE = ("decision table: all 2^6 truth assignments of the six payment conditions (every quote signed by its "
        "claimed node, this node among the payees, payees known as close, no quote expired, contract confirms, "
        "own quote issued for the stored address) x 4 payable kinds (chunk, scratchpad, register, transaction) x "
        "{address absent, address held}, each with a rotating concrete way of breaking the condition; then random "
        "proofs (1-5 quotes, duplicated payees, undecodable peer ids, foreign public keys, re-signed fields, ages at "
        "both sides of the expiry and of 'now' outside a 2 s guard band, RPC error / garbage / partial validity), "
        "unpaid uploads of every kind against held and absent keys, malformed headers and bodies. A case is "
        "non-trivial/distinct by (record kind, held?, vector of the six conditions, outcome).")
ASSUMPTIONS = [
    "the payment contract is an oracle: a JSON-RPC stub answers eth_call(verifyPayment) with the configured "
    "3 x (quoteHash, amountPaid, isValid); 'confirmed' means the call succeeds and all three results are valid",
    "ed25519 signatures are modelled symbolically (who signed, over which fields); EUF-CMA is assumed",
    "XorName::from_content (SHA3-256) is modelled as an injective constructor: collision freedom is a reading",
    "a value of one record type does not msgpack-decode as another type -- validated on every generated combination; "
    "the one known coincidence (an empty Vec<Transaction> is byte-identical to an empty chunk) is excluded from generation",
    "wall-clock time: quote ages are generated outside a 2 s guard band around 'now' and around the 3600 s expiry",
    "the harness plays the swarm driver with its own key/value store (value readable after PutLocalRecord, key "
    "listed after the write acknowledgement); the real NodeRecordStore is exercised by C01/C04",
]

CONDS = ["signed", "payee", "close", "fresh", "onchain", "quoted-address"]
OTHER = {"chunk": {"d": 777}}


def body_for(kind, prior):
    if kind == "chunk":
        return {"t": "chunk", "c": {"d": 1}}
    if kind == "pad":
        return pv.pad(1, 9)
    if kind == "reg":
        return pv.reg(1, 1, ops=[pv.op(1, 1)])
    return pv.tx(1, 2)


def prior_for(kind):
    if kind == "chunk":
        return pv.held({"t": "chunk", "c": {"d": 1}})
    if kind == "pad":
        return pv.held(pv.pad(1, 3))
    if kind == "reg":
        return pv.held(pv.reg(1, 1))
    return pv.held({"t": "txs", "list": [pv.tx(1, 1)]})


def table_case(kind, present, vec, variant):
    """vec: tuple of 6 booleans (True = condition holds)"""
    body = body_for(kind, present)
    addr = pv.key_of_body(body)
    signed, payee, close, fresh, onchain, qaddr = vec
    qs = [pv.q_ok(0, addr), pv.q_ok(1, addr), pv.q_ok(2, addr)]
    if not payee:
        qs[0] = pv.q_ok(3, addr)
    if not close:
        qs[2] = pv.q_ok(5, addr)
    if not fresh:
        qs[1]["age"] = [3_700_000, -5_000, 3_604_000, 86_400_000][variant % 4]
    if not qaddr:
        own = [q for q in qs if q["pub"] == 0]
        for q in (own or qs):
            q["content"] = copy.deepcopy(OTHER)
    if not signed:
        q = qs[1]
        v = variant % 6
        if v == 0:
            q["sig"] = "junk"
        elif v == 1:
            q["sig"] = {"by": 2}
        elif v == 2:
            q["pub"] = 4                      # claimed 1, key of 4
        elif v == 3:
            q["sig"] = {"content": {"chunk": {"d": 555}}}     # fields re-written after signing
        elif v == 4:
            qs[0]["sig"] = "junk" if payee else qs[0]["sig"]
            if not payee:
                q["sig"] = "junk"
        else:
            q["pub"] = -1                     # undecodable public key
    chain = {"mode": "ok"}
    if not onchain:
        chain = [{"mode": "ok", "valid": [True, False, True]}, {"mode": "rpcerr"}, {"mode": "garbage"},
                 {"mode": "ok", "valid": [False, False, False]}][variant % 4]
    d = pv.delivery("client", body, paid=True, proof={"quotes": qs}, chain=chain)
    return pv.case("table", [d], store=[prior_for(kind)] if present else [])


def table():
    cs = []
    variant = 0
    for kind in ("chunk", "pad", "reg", "tx"):
        for present in (False, True):
            for vec in itertools.product((True, False), repeat=6):
                cs.append(table_case(kind, present, vec, variant))
                variant += 1
    return cs


def rand_age(rng):
    return rng.choice([0, 2_500, 60_000, 1_800_000, 3_597_000, 3_598_500, 3_604_000, 3_700_000, 10 ** 9,
                       -3_000, -60_000, rng.randrange(2_500, 3_598_000)])


def rand_quote(rng, addr):
    p = rng.choice([0, 0, 1, 2, 3, 5, 6])
    q = pv.q_ok(p, addr, rand_age(rng) if rng.random() < 0.25 else 60_000)
    r = rng.random()
    if r < 0.06:
        q["claimed"] = -1
    elif r < 0.12:
        q["pub"] = -1
    elif r < 0.18:
        q["pub"] = rng.choice([0, 1, 4])
    elif r < 0.24:
        q["sig"] = rng.choice(["junk", {"by": rng.choice([0, 1, 2])}, {"content": {"chunk": {"d": rng.choice([1, 2, 555])}}}])
    if rng.random() < 0.12:
        q["content"] = rng.choice([OTHER, {"owner": 1}, {"reg": [1, 1]}, {"raw": 3}, {"chunk": {"d": 1}}, {"chunk": {"pk": 1}}])
    return q


def rand_body(rng):
    k = rng.choice(["chunk", "chunk", "pad", "pad", "reg", "tx", "txs", "garbage", "pkchunk"])
    if k == "chunk":
        return {"t": "chunk", "c": {"d": rng.choice([1, 2, 3])}}
    if k == "pkchunk":
        return {"t": "chunk", "c": rng.choice([{"pk": 1}, {"regpre": [1, 1]}])}
    if k == "pad":
        return pv.pad(rng.choice([1, 2]), rng.choice([0, 1, 3, 4, 9]), sig=rng.choice(["ok", "ok", "ok", "junk", "none", "stale"]),
                      signer=rng.choice([None, None, 2]))
    if k == "reg":
        return pv.reg(rng.choice([1, 2]), 1, ops=[pv.op(i, rng.choice([1, 1, 2]), rng.choice(["ok", "ok", "junk"]))
                                                    for i in range(rng.randrange(0, 3))],
                      osig=rng.choice([None, None, None, "junk", {"by": 2}]))
    if k == "tx":
        return pv.tx(rng.choice([1, 2]), rng.choice([1, 2, 3]), sig=rng.choice(["ok", "ok", "junk", "stale"]))
    if k == "txs":
        return {"t": "txs", "list": [pv.tx(rng.choice([1, 2]), rng.choice([1, 2, 3])) for _ in range(rng.randrange(0, 3))]}
    return {"t": rng.choice(["garbage", "empty", "short"])}


def rand_store(rng):
    st = []
    seen = set()
    for _ in range(rng.randrange(0, 4)):
        o = rng.choice([{"t": "chunk", "c": {"d": rng.choice([1, 2])}}, {"t": "chunk", "c": {"pk": 1}},
                        pv.pad(rng.choice([1, 2]), rng.choice([2, 3, 5])), pv.reg(rng.choice([1, 2]), 1, ops=[pv.op(7, 1)]),
                        {"t": "txs", "list": [pv.tx(rng.choice([1, 2]), 1)]}])
        n = pv.name_of(pv.key_of_body(o))
        if n not in seen:
            seen.add(n)
            st.append(pv.held(o))
    return st


def rand_case(rng):
    ds = []
    for _ in range(rng.choice([1, 1, 1, 2, 3])):
        body = rand_body(rng)
        addr = pv.key_of_body(body)
        paid = rng.random() < 0.7
        proof = None
        if paid or rng.random() < 0.1:
            if rng.random() < 0.55:
                proof = pv.good_proof(addr, peers=rng.choice([(0, 1, 2), (0,), (1, 0), (0, 1, 2, 3, 1), (0, 0, 2)]))
                if rng.random() < 0.4:
                    i = rng.randrange(len(proof["quotes"]))
                    proof["quotes"][i] = rand_quote(rng, addr)
            else:
                proof = {"quotes": [rand_quote(rng, addr) for _ in range(rng.randrange(1, 6))]}
        hdr = None
        if rng.random() < 0.08:
            hdr = rng.choice([0, 1, 2, 3, 4, 5, 6, 7, 8, 9, 127, 200, -1])
        key = None
        if rng.random() < 0.1:
            key = rng.choice([{"raw": 1}, {"owner": 1}, {"chunk": {"d": 1}}, {"reg": [1, 1]}, {"owner": 2}])
        chain = rng.choice([{"mode": "ok"}] * 6 + [{"mode": "rpcerr"}, {"mode": "garbage"},
                                                    {"mode": "ok", "valid": [rng.random() < 0.7 for _ in range(3)]},
                                                    {"mode": "ok", "amounts": [rng.randrange(0, 1000) for _ in range(3)]}])
        d = pv.delivery(rng.choice(["client"] * 5 + ["repl"]), body, paid=paid, key=key, proof=proof, chain=chain, hdr=hdr)
        if not paid:
            d["proof"] = proof
        if body["t"] == "txs" and not body["list"] and d["hdr"] in (0, 1):
            # an empty transaction list is the same msgpack bytes as an empty chunk (0x90 decodes as an
            # empty byte sequence): the one place where "a value of one type does not decode as another"
            # fails; excluded from generation (see ASSUMPTIONS)
            body["list"].append(pv.tx(1, 1))
        ds.append(d)
    closest = rng.choice([[0, 1, 2, 3], [0, 1, 2, 3], [0, 1, 2], [1, 2, 3], [0], list(range(8))])
    return pv.case("random", ds, store=rand_store(rng), closest=closest)


def gen(ctx):
    cs = table() + pv.cross_kind_cases() + pv.back_to_back_cases() + pv.raw_chunk_cases() + pv.pad_boundary_cases() + pv.forged_update_cases() + pv.reencoded_pubkey_cases() + pv.pending_payment_cases()
    n = 600 if ctx.tier == "quick" else 12000
    cs += [rand_case(ctx.rng) for _ in range(n)]
    return cs


def first_failing(conds):
    for c in CONDS:
        if not conds[c]:
            return c
    return None


def oracle(case, out):
    """C03 stated directly on what the real node did."""
    if isinstance(out, dict) and "panic" in out:
        return [("panic", "the implementation panicked on this case: %s" % str(out["panic"])[:300])]
    if not isinstance(out, dict) or "results" not in out:
        return [("harness", "no result: %r" % (out,))]
    if not pv.is_serial(case):
        return []
    v = []
    for i, (d, r) in enumerate(zip(case["deliveries"], out["results"])):
        if d["path"] != "client":
            continue
        if r.get("store_at_start") is None:
            continue
        held_before = pv.listed_names(r["store_at_start"])
        stored = [p for p in r["puts"] if not p.get("refused_by_driver")]
        # (1) data at an address not held is persisted only with a fully valid payment for that address
        for p in stored:
            k = pv.name_of(p["key"])
            if k in held_before:
                continue
            conds = pv.payment_conditions(case, d, k)
            if conds is None:
                v.append(("stored-new-without-proof",
                          "delivery %d: %s persisted at an address the node did not hold, with no proof of payment" % (i, pv.dumps(p))))
                continue
            bad = first_failing(conds)
            if bad is not None:
                only = [c for c in CONDS if not conds[c]]
                cls = "stored-with-quote-for-other-address" if only == ["quoted-address"] else "stored-new-although-" + bad
                v.append((cls, "delivery %d: %s persisted at a new address although payment condition(s) %s fail (result %s)"
                          % (i, pv.dumps(p["key"]), only, r["res"])))
        # (2) any failing condition for an address not held => rejected, nothing stored
        if d.get("proof") and pv.body_matches_kind(d):
            names = pv.derived_names_of_body(d["body"])
            addr = names[0] if names else None
            if addr is not None and addr not in held_before and pv.name_of(d["key"]) == addr:
                conds = pv.payment_conditions(case, d, addr)
                bad = first_failing(conds)
                if bad is not None and (r["res"] == "Ok" or stored):
                    only = [c for c in CONDS if not conds[c]]
                    cls = "accepted-with-quote-for-other-address" if only == ["quoted-address"] else "accepted-although-" + bad
                    v.append((cls, "delivery %d: upload for new address %s accepted (result %s, %d record(s) stored) although %s fail"
                              % (i, addr, r["res"], len(stored), only)))
        # (3) uploads without payment are accepted only as updates to mutable records already held
        if not d.get("proof"):
            for p in stored:
                k = pv.name_of(p["key"])
                kind = p["val"].get("t")
                if k not in held_before or kind not in ("pad", "reg"):
                    v.append(("unpaid-accepted", "delivery %d: upload without payment stored %s (held before: %s)"
                              % (i, pv.dumps(p), k in held_before)))
                else:
                    prev = pv.dump_map(r["store_at_start"])[k]["val"].get("t")
                    if prev != kind:
                        v.append(("unpaid-replaced-other-kind", "delivery %d: upload without payment wrote a %s at %s, where the "
                                  "node held a %s -- not an update of a mutable record it already holds" % (i, kind, k, prev)))
            if r.get("store_after") is not None and r["store_after"] != r["store_at_start"] and not stored:
                v.append(("unpaid-changed-store", "delivery %d: upload without payment changed the store without a write command" % i))
    return v + pv.kind_change_violations(case, out) + pv.rejection_violations(case, out)


def nontrivial(case, out):
    if not isinstance(out, dict) or "results" not in out:
        return None
    ks = []
    for d, r in zip(case["deliveries"], out["results"]):
        names = pv.derived_names_of_body(d["body"])
        addr = names[0] if names else ("none",)
        conds = pv.payment_conditions(case, d, addr)
        held = addr in pv.listed_names(r.get("store_at_start") or [])
        ks.append((d["path"], d["hdr"], d["body"]["t"], held,
                   tuple(conds[c] for c in CONDS) if conds else None, r["res"], len(r["puts"])))
    return tuple(ks)


def show(case, out):
    return pv.show_term(case, out)


def run(ctx):
    ctx.regen_consts()
    extra = [
        "model coq/model/PutValidation.v (hand-written transcription of put_validation.rs / data_payments.rs) tied to "
        "the source by this run's correspondence and by the regenerated constants (RecordKind wire tags, "
        "QUOTE_EXPIRATION_SECS, register limits, presence of the quote-content and record-key checks)",
        "harness/crates/c03 (real Node around a harness-driven Network, JSON-RPC contract stub), tools/props/putval.py "
        "and C03.py (generator, oracle, canonicaliser)"]
    ctx.prove("props/C03.v", THEOREMS, extra_trusted=extra)
    binary = ctx.cargo_build("c03")
    cases = ctx.corpus() + ([] if ctx.replay else gen(ctx))
    ctx.cov["exhaustive"] = not ctx.replay
    pv.pipeline(ctx, "props/C03.v", THEOREMS, extra, cases, binary, oracle, pv.model_term, IMPORTS, nontrivial=nontrivial, show=show, shard_size=120,
                 relation="Node::validate_and_store_record / store_replicated_in_record (results, PutLocalRecord "
                          "commands, payment notifications, eth_calls, final store) == PutValidation.sched_run")
