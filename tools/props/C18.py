"""C18 -- the bootstrap cache stays bounded, well-formed and atomically persisted (ant-bootstrap).

Three kinds of cases, all on the real code:
  * "data" histories on CacheData values with constructed last_seen: insert / sync / perform_cleanup /
    try_remove_oldest_peers, compared step by step with model/BootCache.v (lock-step on the dumps);
  * "store" histories on BootstrapCacheStore with the real clock and a cache file that other "processes"
    overwrite (valid, foreign, corrupt): add_addr / update_addr_status / remove_addr / perform_cleanup /
    sync_and_flush_to_disk / load_cache_data;
  * concurrent flushes (threads and processes) to one path while a reader loads in a loop -- runtime
    evidence for the rename-atomicity premise of `atomic_replace`."""
import json
import os
import re
from vpc.core import cN, cstr, clist, copt, cbool
from props.C17 import peer_id, good_addr, rand_component, cproto, refresh_lock, pipeline_retry, ref_craft

IMPORTS = "Require Import V.model.Parsers V.model.BootCache."
THEOREMS = ["written_files_load", "write_is_atomic_replace", "cache_write_then_read", "cache_write_empty_wipes", "write_skip_empty_refuted", "sync_counters_bounded", "sync_wrapping_refuted", "log_head_slice_refuted", "ctor_paths_agree", "flush_then_load", "late_override_refuted", "constants_c18", "bounded_after_cleanup", "bounded_without_sync", "sync_breaks_bound_refuted",
            "load_bounded", "flush_with_cleanup_bounded", "craft_wellformed", "craft_fixpoint", "wellformed",
            "foreign_file_unvalidated_refuted", "keys_unique", "cleanup_postcondition", "cleanup_evicts_oldest",
            "cleanup_fixpoint", "sync_loses_nothing", "flush_merges", "save_load", "save_load_clean",
            "atomic_replace", "inplace_torn_refuted", "corrupt_ignored"]
RULE = ("data histories: 12-40 steps over 3 CacheData slots, 4-8 peers with 2-5 addresses each, limits "
        "max_peers in {1,2,3,5}, max_addrs in {1,2,3}, last_seen constructed around now / the expiry boundary / "
        "the future with ties, counters 0,1,2,2^31,2^32-2,2^32-1; store histories: 10-30 steps mixing additions "
        "(raw multiaddresses with extra protocols, relayed forms naming a second peer behind /p2p-circuit, unparsable text), status updates, removals, clean-ups, foreign / "
        "valid / corrupt cache files written underneath (incl. long ones, so that the next flush is a shrinking rewrite of the "
        "same path), flushes with and without clean-up, loads, sleeps; "
        "merge histories: a file entry with counters at 0, 1, 2, 2^15, 2^16, 2^31 and u32::MAX-{0,1,2} neighbours x the same peer "
        "and address known in memory (added, 0-2 status updates) with a later last_seen, flush (re-read + merge), load, second "
        "round; foreign files: valid UTF-8 non-cache texts with a 2-/3-/4-byte character across every byte offset 1..300 and "
        "around 1024 / 4096, after plain and JSON-looking filler, invalid UTF-8, dropped at the cache path before load / flush; "
        "constructors: BootstrapCacheStore::new and new_from_peers_args with every combination of config given / default, "
        "bootstrap_cache_dir, first, local (and both values of the two flags it ignores), a distinct cache file present at each "
        "candidate location, then add / flush / reload through an identically constructed store; "
        "stores at the shipped limits: 1499 peers x 3 (quick) / 1, 2, 3, 6 (thorough) long addresses, flushed (1.5-2.8 MB files), "
        "loaded, one more peer merged, loaded; "
        "first-flush races: the cache file ABSENT at the start, 2 threads + 1-2 processes each flushing 300-700 peers once while a "
        "reader spins on load and a raw parse, 6-60 fresh paths; "
        "concurrent: 4-8 threads + 2-3 processes x 15-40 flushes with a reader; a case is distinct/non-trivial by "
        "(kind, limits, multiset of step kinds, whether an eviction / expiry / merge / corrupt file occurred)")
ASSUMPTIONS = [
    "the harness binaries install a tracing subscriber at TRACE level that formats every event into a sink, as nodes and "
    "clients always do: log-argument evaluation is part of the behaviour under test",
    "rename(2) replaces the cache file atomically and AtomicWriteFile's temporary files are private to a writer "
    "(premise of atomic_replace, built into the step `Commit` of the file-system model); the concurrent runs are "
    "runtime evidence, not proof",
    "serde_json's encoding/decoding of CacheData is an oracle: save_load has `dec (enc c) = Some c` as its premise; "
    "Multiaddr/PeerId parsing and printing are third-party",
    "wall-clock time is read by the code once per address; generated last_seen values keep a 5 s guard band around "
    "`now` and the expiry boundary, and evictions among peers whose ages differ by less than 20 ms are accepted in "
    "either order (store histories only)",
    "HashMap iteration order is not modelled: dumps are compared as maps, eviction ties through the acceptor "
    "remove_oldest_ok",
]
U32 = 2 ** 32
TOL_NS = 20_000_000


# ---------------------------------------------------------------------------------------- generator
class Pool:
    def __init__(self, rng, npeers):
        self.rng = rng
        self.peers = [peer_id(rng) for _ in range(npeers)]
        self.addrs = {p[0]: [good_addr(rng, p) for _ in range(rng.choice([2, 3, 5]))] for p in self.peers}

    def pick(self):
        p = self.rng.choice(self.peers)
        return p, self.rng.choice(self.addrs[p[0]])


def offsets(rng, expiry):
    """distinct whole-second offsets: recent, expired, future"""
    recent = [-(5 + k) for k in range(0, 40)]
    if expiry > 60:
        recent += [-(expiry - 5 - k) for k in range(0, 6)]
    recent = [o for o in recent if -expiry + 5 <= o]
    expired = [-(expiry + 5 + k) for k in range(0, 8)]
    future = [5 + k for k in range(0, 6)]
    return recent, expired, future


def gen_data_history(rng, deep):
    cfg = {"max_peers": rng.choice([1, 2, 3, 5]), "max_addrs": rng.choice([1, 2, 3]),
           "expiry_secs": rng.choice([60, 3600, 86400])}
    pool = Pool(rng, rng.choice([4, 6, 8]))
    recent, expired, future = offsets(rng, cfg["expiry_secs"])
    counters = [0, 1, 1, 2, 3, 7, 2 ** 31, U32 - 2, U32 - 1]
    steps = []
    n = rng.choice([12, 20, 30]) if not deep else rng.choice([40, 60])
    tie = (rng.choice(recent), 0)
    while len(steps) < n:
        r = rng.random()
        if r < 0.62:
            p, (t, pr) = pool.pick()
            if rng.random() < 0.05:
                p = rng.choice(pool.peers)          # key differs from the address's /p2p
            s, f = rng.choice(counters), rng.choice(counters)
            if rng.random() < 0.65 and f > s:
                s, f = f, s
            q = rng.random()
            off = rng.choice(recent) if q < 0.7 else (rng.choice(expired) if q < 0.88 else rng.choice(future))
            nanos = rng.choice([0, 0, 1000000 * rng.randrange(1000)])
            if rng.random() < 0.2:
                off, nanos = tie
            steps.append({"k": "d_insert", "slot": rng.choice([0, 0, 1, 1, 2]), "peer": p[0], "peer_hex": p[1].hex(), "addr": t, "protos": pr,
                          "s": s, "f": f, "off": off, "nanos": nanos})
        elif r < 0.78:
            i, j = rng.choice([(0, 1), (1, 0), (0, 2), (2, 1), (1, 2), (0, 0)])
            steps.append({"k": "d_sync", "slot": i, "other": j})
        elif r < 0.92:
            steps.append({"k": "d_cleanup", "slot": rng.choice([0, 1, 2])})
        else:
            steps.append({"k": "d_remove_oldest", "slot": rng.choice([0, 1, 2])})
    steps += [{"k": "d_sync", "slot": 0, "other": 1}, {"k": "d_cleanup", "slot": 0}]
    return {"op": "history", "kind": "data", "cfg": cfg, "steps": steps}


def file_text(rng, pool, cfg, foreign=False, expired_bulk=False):
    """a cache file another process could have written: (text with @S..@ placeholders, data)"""
    recent, expired, future = offsets(rng, max(cfg["expiry_secs"], 1))
    rng.shuffle(recent)
    peers, data = {}, []
    extra = [peer_id(rng) for _ in range(rng.choice([0, 1, 2]) if not expired_bulk else 12)]   # bulk: a long file the clean-up empties
    for p in rng.sample(pool.peers, rng.randrange(0, len(pool.peers) + 1)) + extra:
        lst, dl = [], []
        cands = pool.addrs.get(p[0]) or [good_addr(rng, p) for _ in range(2)]
        for (t, pr) in rng.sample(cands, rng.randrange(1, len(cands) + 1)):
            if foreign and rng.random() < 0.5:
                comps = [rand_component(rng, p) for _ in range(rng.choice([1, 2, 3]))]
                t, pr = "".join(c[0] for c in comps), [c[1] for c in comps]
            s, f = rng.choice([1, 2, 5, 9]), rng.choice([0, 0, 1, 2, 7])
            q = rng.random()
            off = recent.pop() if (q < 0.8 and recent and not (expired_bulk and p in extra)) else (rng.choice(expired) if q < 0.9 else rng.choice(future))
            lst.append({"addr": t, "success_count": s, "failure_count": f,
                        "last_seen": {"secs_since_epoch": "@S%d@" % off, "nanos_since_epoch": 0}})
            dl.append({"protos": pr, "s": s, "f": f, "rel": off * 10 ** 9, "addr": t})
        peers[p[0]] = lst
        data.append({"peer": p[1].hex(), "addrs": dl})
    text = json.dumps({"peers": peers, "last_updated": {"secs_since_epoch": "@S-1@", "nanos_since_epoch": 0},
                       "network_version": "1_0.1"})
    return re.sub(r'"(@S-?\d+@)"', r"\1", text), data


def gen_store_history(rng, deep):
    cfg = {"max_peers": rng.choice([1, 2, 3, 1500]), "max_addrs": rng.choice([1, 2, 6]),
           "expiry_secs": rng.choice([0, 60, 86400, 86400])}
    pool = Pool(rng, rng.choice([3, 5, 7]))
    steps = []
    n = rng.choice([10, 16, 24]) if not deep else 45
    while len(steps) < n:
        r = rng.random()
        if r < 0.4:
            p, (t, pr) = pool.pick()
            q = rng.random()
            if q < 0.25:      # raw address with extra protocols around the crafted ones
                junk = [rand_component(rng, p)[0] for _ in range(rng.choice([1, 2]))]
                t = t + "".join(j for j in junk if not j.startswith(("/ip4", "/udp", "/tcp", "/p2p/", "/quic-v1", "/ws", "/x-parity-ws")))
            elif q < 0.45:      # relayed forms: the socket belongs to the first peer, a second one is named behind it
                other = rng.choice(pool.peers)[0] if rng.random() < 0.5 else peer_id(rng)[0]
                t = t + rng.choice(["/p2p-circuit/p2p/" + other, "/p2p-circuit", "/p2p/" + other])
            elif q < 0.5:
                t = rng.choice(["/ip4/1.2.3.4/udp/9", "/dns/foo.example/udp/1/p2p/" + p[0], "garbage", "", "/p2p/" + p[0],
                                "/ip4/1.2.3.4/p2p/" + p[0]])
            steps.append({"k": "add", "addr": t})
            if rng.random() < 0.3:
                steps.append({"k": "sleep", "ms": 30})
        elif r < 0.55:
            p, (t, pr) = pool.pick()
            for _ in range(rng.choice([1, 1, 2, 4])):
                steps.append({"k": "status", "addr": t, "ok": rng.random() < 0.45})
        elif r < 0.6:
            steps.append({"k": "remove", "addr": pool.pick()[1][0]})
        elif r < 0.68:
            steps.append({"k": "cleanup"})
        elif r < 0.8:
            q = rng.random()
            if q < 0.6:
                t, d = file_text(rng, pool, cfg, foreign=False, expired_bulk=(rng.random() < 0.3))
                steps.append({"k": "write_file", "text": t, "data": d, "fkind": "valid"})
                if rng.random() < 0.4:
                    steps += [{"k": "flush", "cleanup": True}, {"k": "load"}]   # rewrite of the same path, usually shorter
            elif q < 0.75:
                t, d = file_text(rng, pool, cfg, foreign=True)
                steps.append({"k": "write_file", "text": t, "data": d, "fkind": "foreign"})
            elif q < 0.9:
                # (the long ones make the next flush a SHRINKING rewrite of the same path: a write that does not replace
                # the whole content would leave their tail behind the new JSON)
                steps.append({"k": "write_file", "fkind": "corrupt",
                              "bytes": list(rng.choice([b"", b"{", b"\xff\xfe", b"[]", b'{"peers": 5}', b"null",
                                                        b'{"peers":{"x":[]}}', b'{"peers":{}}', b"x" * 6000,
                                                        b'{"peers": {' + b" " * 5000 + b"}", b"}" * 3000])) })
            else:
                steps.append({"k": "delete_file", "fkind": "absent"})
        elif r < 0.92:
            steps.append({"k": "flush", "cleanup": rng.random() < 0.7})
            if rng.random() < 0.5:
                steps.append({"k": "load"})
        else:
            steps.append({"k": "load"})
    steps += [{"k": "flush", "cleanup": True}, {"k": "load"}]
    return {"op": "history", "kind": "store", "cfg": cfg, "steps": steps}


COUNTER_EDGES = [0, 1, 2, 2 ** 15 - 1, 2 ** 15, 2 ** 16 - 1, 2 ** 16, 2 ** 31 - 1, 2 ** 31, U32 - 3, U32 - 2, U32 - 1]


def gen_merge_history(rng):
    """the merge path of the cache FILE: an entry with boundary counters in the file, the same peer + address known in memory
    with its own counters and a later last_seen, then sync_and_flush_to_disk re-reads the file and merges the two"""
    cfg = {"max_peers": rng.choice([2, 5, 1500]), "max_addrs": rng.choice([2, 6]), "expiry_secs": 86400}
    pool = Pool(rng, 2)
    peers, data, steps = {}, [], []
    targets = []
    for p in pool.peers:
        lst, dl = [], []
        for (t, pr) in pool.addrs[p[0]][:2]:
            s_, f_ = rng.choice(COUNTER_EDGES), rng.choice(COUNTER_EDGES)
            if f_ > s_ and rng.random() < 0.85:
                s_, f_ = f_, s_            # reliable entries survive the load's clean-up and reach the merge
            off = -rng.randrange(5, 3000)
            lst.append({"addr": t, "success_count": s_, "failure_count": f_,
                        "last_seen": {"secs_since_epoch": "@S%d@" % off, "nanos_since_epoch": 0}})
            dl.append({"protos": pr, "s": s_, "f": f_, "rel": off * 10 ** 9, "addr": t})
            targets.append(t)
        peers[p[0]] = lst
        data.append({"peer": p[1].hex(), "addrs": dl})
    text = json.dumps({"peers": peers, "last_updated": {"secs_since_epoch": "@S-1@", "nanos_since_epoch": 0}, "network_version": "1_0.1"})
    text = re.sub(r'"(@S-?\d+@)"', r"\1", text)
    wf = {"k": "write_file", "text": text, "data": data, "fkind": "valid"}
    mem = []
    for t in targets:
        if rng.random() < 0.8:
            mem.append({"k": "add", "addr": t})
            for _ in range(rng.choice([0, 0, 1, 2])):
                mem.append({"k": "status", "addr": t, "ok": rng.random() < 0.6})
    steps = ([wf] + mem) if rng.random() < 0.5 else (mem + [wf])
    steps += [{"k": "flush", "cleanup": True}, {"k": "load"}]
    if rng.random() < 0.5:        # a second round: the merged counters meet the memory again
        steps += [s for s in mem if s["k"] == "add"] + [{"k": "flush", "cleanup": rng.random() < 0.7}, {"k": "load"}]
    return {"op": "history", "kind": "store", "fam": "merge", "cfg": cfg, "steps": steps}


def straddle_texts(offsets, widths=(2, 3, 4)):
    """valid UTF-8 texts that are not cache files, with a 2-, 3- or 4-byte character covering byte offset o (it starts at
    o-1), after plain or JSON-looking filler: whatever byte offset a message / preview slices at is off a boundary"""
    chars = {2: "\u00e4", 3: "\u20ac", 4: "\U0001f511"}
    out = []
    for i, o in enumerate(offsets):
        for w in widths:
            pre = '{"peers":{"' if (o - 1 >= 11 and (i + w) % 2 == 0) else "#"
            body = pre + "a" * (o - 1 - len(pre)) if o - 1 >= len(pre) else "a" * (o - 1)
            t = body + chars[w] + "\u00e4\u00f6\u00fc" * 4 + "x" * 70
            assert len(body.encode()) == o - 1
            out.append(t.encode("utf-8"))
    return out


def gen_foreign_histories(rng, offsets, per_history=20):
    """files that are not cache files (valid UTF-8 with characters across every small byte offset, invalid UTF-8, JSON-looking
    prefixes) dropped at the cache path: load must refuse them and the next flush must overwrite them, without crashing"""
    files = straddle_texts(offsets)
    files += [b"\xff" * 70, b"a" * 63 + b"\xc3", b"a" * 63 + b"\xe2\x82", b'{"peers":{"' + b"\xf0\x9f" * 40, b"\xef\xbb\xbf{}" + b" " * 80,
              ('{"peers": {}, "last_updated": "' + "\u00fc" * 100 + '"}').encode(), ("[" * 63 + "\u00e4" + "]" * 70).encode(),
              b'{"peers":{}}' + b" " * 52 + "\u20ac".encode() * 10]
    pool = Pool(rng, 2)
    out = []
    for i in range(0, len(files), per_history):
        steps = [{"k": "add", "addr": pool.pick()[1][0]}]
        for j, b in enumerate(files[i:i + per_history]):
            steps += [{"k": "write_file", "fkind": "corrupt", "bytes": list(b)}, {"k": "load"}]
            if j % 7 == 6:
                steps += [{"k": "flush", "cleanup": True}, {"k": "load"}, {"k": "add", "addr": pool.pick()[1][0]}]
        steps += [{"k": "flush", "cleanup": True}, {"k": "load"}]
        out.append({"op": "history", "kind": "store", "fam": "foreign-text", "cfg": {"max_peers": 5, "max_addrs": 3, "expiry_secs": 86400},
                    "steps": steps})
    return out


def seed_file_text(rng, p):
    t, pr = good_addr(rng, p)
    text = json.dumps({"peers": {p[0]: [{"addr": t, "success_count": 2, "failure_count": 0,
                                          "last_seen": {"secs_since_epoch": "@S-10@", "nanos_since_epoch": 0}}]},
                       "last_updated": {"secs_since_epoch": "@S-1@", "nanos_since_epoch": 0}, "network_version": "1_0.1"})
    return re.sub(r'"(@S-?\d+@)"', r"\1", text), {"peer": p[1].hex(), "addrs": [{"protos": pr, "s": 2, "f": 0, "rel": -10 * 10 ** 9, "addr": t}]}


def gen_ctor_cases(rng):
    """every constructor of BootstrapCacheStore x every combination of the PeersArgs fields it reads (and two it does not),
    with a cache file holding one distinct recent peer already present at each of the three candidate locations"""
    out = []
    combos = [("new", cfg, False, False, False, False, False) for cfg in (True, False)]
    for cfg in (True, False):
        for custom in (True, False):
            for first in (True, False):
                for local in (True, False):
                    dm, ic = rng.random() < 0.5, rng.random() < 0.5
                    combos.append(("peers_args", cfg, custom, first, local, dm, ic))
                    combos.append(("peers_args", cfg, custom, first, local, not dm, not ic))
    for ctor, cfg, custom, first, local, dm, ic in combos:
        seeds = [peer_id(rng) for _ in range(3)]
        files = [seed_file_text(rng, p) for p in seeds]
        newp = [peer_id(rng) for _ in range(rng.choice([1, 2, 3]))]
        adds = [good_addr(rng, p) for p in newp]
        out.append({"op": "ctor", "kind": "ctor", "ctor": ctor, "config": cfg, "custom_dir": custom, "first": first, "local": local,
                    "disable_mainnet_contacts": dm, "ignore_cache": ic, "cleanup": True,
                    "seed_files": [f[0] for f in files], "seed_data": [f[1] for f in files],
                    "adds": [a[0] for a in adds], "add_protos": [a[1] for a in adds], "add_peers": [p[1].hex() for p in newp]})
    return out


def gen(ctx):
    rng = ctx.rng
    quick = ctx.tier == "quick"
    cases = []
    for i in range(70 if quick else 700):
        cases.append(gen_data_history(rng, deep=(i % 12 == 11)))
    for i in range(70 if quick else 700):
        cases.append(gen_store_history(rng, deep=(i % 12 == 11)))
    cases += gen_ctor_cases(rng)
    for i in range(40 if quick else 400):
        cases.append(gen_merge_history(rng))
    offs = list(range(1, 301)) + [o + d for o in (1024, 4096) for d in (-2, -1, 0, 1, 2)]
    cases += gen_foreign_histories(rng, offs if not quick else [o for o in offs if o <= 130 or o % 3 == 1 or o > 1000])
    conc = [{"threads": 4, "procs": 2, "rounds": 15, "per_round": 4, "max_peers": 1500},
            {"threads": 8, "procs": 3, "rounds": 20, "per_round": 3, "max_peers": 50}]
    if not quick:
        conc += [{"threads": 8, "procs": 3, "rounds": 40, "per_round": 5, "max_peers": 1500},
                 {"threads": 6, "procs": 2, "rounds": 40, "per_round": 2, "max_peers": 5},
                 {"threads": 4, "procs": 3, "rounds": 60, "per_round": 8, "max_peers": 200}]
    for c in conc:
        cases.append(dict(c, op="concurrent", kind="concurrent"))
    # stores AT the shipped limits (1500 peers; 1, 3, 6 long addresses each): save, load, merge one more peer, load
    for a in ([3] if quick else [1, 3, 6, 2]):
        cases.append({"op": "big_store", "kind": "big-store", "peers": 1499, "addrs": a})
    # the FIRST flush: the file is absent, writers flush large stores while a reader spins on load
    cases.append({"op": "first_flush_race", "kind": "first-flush", "trials": 12 if quick else 60, "peers": 300, "procs": 1})
    cases.append({"op": "first_flush_race", "kind": "first-flush", "trials": 6 if quick else 30, "peers": 700, "procs": 2})
    return cases


# ---------------------------------------------------------------------------------------- oracle
def wf_protos(pr):
    if pr is None:
        return False
    ks = [p[0] for p in pr]
    return ks in (["ip4", "udp", "p2p"], ["ip4", "udp", "quic-v1", "p2p"], ["ip4", "tcp", "p2p"], ["ip4", "tcp", "ws", "p2p"])


def recs(dump):
    """{(peer, addr): record} of a dump (list of {"peer","addrs"})"""
    return {(p["peer"], a["addr"]): a for p in dump for a in p["addrs"]}


def check_bound(cfg, dump, where, v):
    if len(dump) > cfg["max_peers"]:
        v.append(("bound", "%s: %d peers, max_peers %d" % (where, len(dump), cfg["max_peers"])))
    for p in dump:
        if len(p["addrs"]) > cfg["max_addrs"]:
            v.append(("bound", "%s: peer %s has %d addresses, max %d" % (where, p["peer"][:12], len(p["addrs"]), cfg["max_addrs"])))


def check_post(cfg, dump, now_rel, where, v):
    for p in dump:
        for a in p["addrs"]:
            rel = int(a["rel"])
            if a["f"] > a["s"]:
                v.append(("cleanup-post", "%s: %s kept with %d failures > %d successes" % (where, a["addr"], a["f"], a["s"])))
            if rel > now_rel + 3 * 10 ** 9 or now_rel - rel >= cfg["expiry_secs"] * 10 ** 9 + 3 * 10 ** 9:
                v.append(("cleanup-post", "%s: %s kept although last seen %+.1fs from now (expiry %ds)" % (
                    where, a["addr"], (rel - now_rel) / 1e9, cfg["expiry_secs"])))


def oracle(c, o):
    if "panic" in o:
        return [("panic", "%s case panicked: %s" % (c.get("kind"), o["panic"]))]
    v = []
    if c["op"] == "big_store":
        want = (c["peers"], c["peers"] * c["addrs"])
        if tuple(o["in_memory"]) != want:
            v.append(("big-store-setup", "the store holds %s peers/addresses after %s additions" % (o["in_memory"], want)))
        elif not o["flush1"] or o["load1"] is None or tuple(o["load1"]) != want:
            v.append(("save-load", "a store within the limits (%d peers x %d addresses) was flushed to a %d-byte file; loading it %s" % (
                c["peers"], c["addrs"], o["size1"],
                "fails: %s" % o["err1"] if o["load1"] is None else "returns %s peers/addresses" % (o["load1"],))))
        if not o["flush2"] or o["load2"] is None or o["load2"][0] != c["peers"] + 1 or o["load2"][1] != want[1] + 1:
            v.append(("sync-loses", "merging one more peer into the %d-byte on-disk cache of %d peers left %s peers/addresses on disk "
                      "(%d bytes)" % (o["size1"], c["peers"], o["load2"], o["size2"])))
        return v
    if c["op"] == "first_flush_race":
        if o["parse_failures"] or o["raw_bad"]:
            v.append(("torn-file", "first flush onto an absent file: %d of %d loads during the race failed to parse (%s), %d raw reads were "
                      "not a complete JSON document; 'not found' was reported %d times" % (
                          o["parse_failures"], o["loads"], o["first_failure"], o["raw_bad"], o["not_found"])))
        if o["flush_failed"] or o["final_bad"]:
            v.append(("flush-failed", "%d first flushes failed, %d files did not load afterwards" % (o["flush_failed"], o["final_bad"])))
        return v
    if c["op"] == "concurrent":
        r = o["reader"]
        if r["load_failures"] or r["raw_bad"]:
            v.append(("torn-file", "reader saw %d failed loads (%s) and %d unparsable raw reads out of %d while %d flushes ran" % (
                r["load_failures"], r["first_failure"], r["raw_bad"], r["loads"], o["flush_ok"] + o["flush_failed"])))
        if not o["final_ok"]:
            v.append(("torn-file", "the file does not load after all writers finished"))
        if o["flush_failed"]:
            v.append(("flush-failed", "%d flushes returned an error" % o["flush_failed"]))
        if r["over_bound"] or o["final_peers"] > c["max_peers"]:
            v.append(("bound", "a load returned more than max_peers peers"))
        if o["temp_leftovers"]:
            v.append(("temp-left", "%d temporary files left next to the cache file" % o["temp_leftovers"]))
        return v
    if c["op"] == "ctor":
        if "build_err" in o:
            return [("ctor-failed", "constructing the store failed: " + o["build_err"])]
        labels = ["config", "custom", "default"]
        want = ("config" if c["config"] else "default") if (c["ctor"] == "new" or not c["custom_dir"]) else "custom"
        pa = c["ctor"] == "peers_args"
        desc = "%s(config=%s, bootstrap_cache_dir=%s, first=%s, local=%s)" % (c["ctor"], c["config"], c["custom_dir"], c["first"], c["local"])
        if o["config_path"] != want:
            v.append(("wrong-file", "%s: config().cache_file_path is the %s location, expected the %s one" % (desc, o["config_path"], want)))
        disabled = pa and c["local"]
        if o["disabled"] != disabled:
            v.append(("ctor-flags", "%s: disable_cache_writing = %s" % (desc, o["disabled"])))
        wb = [want] if (pa and c["first"]) else []
        if sorted(o["changed_by_build"]) != wb:
            v.append(("wrong-file", "%s: construction changed the files %s, expected %s" % (desc, o["changed_by_build"], wb)))
        wf = [] if disabled else [want]
        if sorted(o["changed_by_flush"]) != wf:
            v.append(("wrong-file", "%s: the flush changed the files %s, expected only %s (written where it is later read, no other "
                      "file of the tree touched)" % (desc, o["changed_by_flush"], wf)))
        seed_peer = c["seed_data"][labels.index(want)]["peer"]
        expect = set() if (pa and c["first"]) else {seed_peer}
        if not disabled:
            expect |= set(c["add_peers"])
        r = o["reload"]
        got = {p["peer"] for p in r.get("peers", [])} if r.get("ok") else None
        if got != expect:
            v.append(("flush-reload", "%s: a store constructed the same way loads back %s peers from the %s location; after this "
                      "construction + flush that file should hold %d (%d of them missing, %d unexpected)" % (
                          desc, "no" if got is None else len(got), r.get("path"), len(expect),
                          len(expect - (got or set())), len((got or set()) - expect))))
        return v
    cfg = c["cfg"]
    steps, trace = c["steps"], o["trace"]
    if c["kind"] == "data":
        slots = [[], [], [], []]
        for i, (st, tr) in enumerate(zip(steps, trace)):
            k, post = st["k"], tr["data"]
            where = "data step %d (%s)" % (i, k)
            now_rel = int(tr["t1"])
            if k == "d_sync":
                before = dict(recs(slots[st["slot"]]))
                before.update(recs(slots[st["other"]]))
                missing = [key for key in before if key not in recs(post)]
                if missing:
                    v.append(("sync-loses", "%s: %d address(es) known to one side are gone, e.g. %s" % (where, len(missing), missing[0][1])))
            if k == "d_cleanup":
                check_bound(cfg, post, where, v)
                check_post(cfg, post, now_rel, where, v)
                lost = [key for key in recs(post) if key not in recs(slots[st["slot"]])]
                if lost:
                    v.append(("cleanup-invents", "%s: clean-up produced an address that was not there" % where))
            if k == "d_remove_oldest" and len(post) > cfg["max_peers"]:
                v.append(("bound", "%s: %d peers left, max_peers %d" % (where, len(post), cfg["max_peers"])))
            slots[st["slot"]] = post
        return v
    # store histories
    foreign_addrs = set()
    mem, file_recs, file_small = [], None, False     # file_small: the load's clean-up cannot evict / truncate anything
    for i, (st, tr) in enumerate(zip(steps, trace)):
        k = st["k"]
        where = "store step %d (%s)" % (i, k)
        now_rel = int(tr["t1"])
        store = tr["store"]["peers"]
        if st.get("fkind") == "foreign":
            foreign_addrs |= {a["addr"] for p in st["data"] for a in p["addrs"] if not wf_protos(a["protos"])}
        written_by_code = (tr.get("file") or {}).get("peers") if k == "flush" else None
        for name, dump in (("store", store), ("file", written_by_code), ("loaded", tr.get("loaded"))):
            for p in dump or []:
                for a in p["addrs"]:
                    if not wf_protos(a["protos"]):
                        cls = "foreign-file-addr" if a["addr"] in foreign_addrs else "wellformed"
                        v.append((cls, "%s: %s holds %s, which is not ip4/(udp[/quic-v1]|tcp[/ws])/p2p" % (where, name, a["addr"])))
        if tr["store"]["peer_count"] < len(store):      # (a peer whose last address was removed stays, with no address)
            v.append(("peer-count", "%s: peer_count %d but %d distinct peers listed" % (where, tr["store"]["peer_count"], len(store))))
        if k in ("add", "cleanup", "status", "remove"):
            if k in ("add", "cleanup") or True:
                # from a bounded store only a merge leads out of the bound; the store never merges in place
                check_bound(cfg, store, where, v)
        if k == "add" and ADDR_CACHE.get(st["addr"]) and cfg["expiry_secs"] >= 60:
            # the owner of a cached socket address is the peer id that FOLLOWS the transport part of the input (the first
            # /p2p/), also when the input names a second peer behind it (relayed: .../p2p/RELAY/p2p-circuit/p2p/TARGET)
            parsed = ADDR_CACHE[st["addr"]]
            ids = [p[1] for p in parsed if p[0] == "p2p"]
            want = ref_craft(parsed, False)
            if want is not None:
                owner = ids[0]
                held = {(p["peer"], json.dumps(a["protos"])) for p in store for a in p["addrs"]}
                before = {(p["peer"], json.dumps(a["protos"])) for p in mem for a in p["addrs"]}
                wrong = [(pe, pr) for (pe, pr) in held - before if json.loads(pr)[:-1] == want[:-1] and (pe != owner or json.loads(pr) != want)]
                room = sum(1 for p in mem if p["peer"] == owner for _ in p["addrs"]) < cfg["max_addrs"] and \
                    (len(mem) < cfg["max_peers"] or any(p["peer"] == owner for p in mem))
                if wrong or ((owner, json.dumps(want)) not in held and room):
                    v.append(("address-owner", "%s: add_addr(%s) did not cache the socket under the peer that owns it (%s…)%s" % (
                        where, st["addr"], owner[-12:],
                        "; it was cached under %s… (the peer named behind the relay)" % wrong[0][0][-12:] if wrong else "")))
        if k == "cleanup":
            check_post(cfg, store, now_rel, where, v)
        if k == "flush":
            if not tr.get("ok"):
                v.append(("flush-failed", "%s: sync_and_flush_to_disk returned an error" % where))
            f = tr.get("file") or {}
            if f.get("state") != "ok":
                v.append(("torn-file", "%s: the file is %s after a flush" % (where, f.get("state"))))
            else:
                if st["cleanup"]:
                    check_bound(cfg, f["peers"], where + " file", v)
                    check_post(cfg, f["peers"], now_rel, where + " file", v)
                else:
                    have = recs(f["peers"])
                    want = dict(recs(mem))
                    # what a load of the previous file returns is part of the merge
                    missing = [key for key in want if key not in have]
                    if missing:
                        v.append(("sync-loses", "%s: %d in-memory address(es) missing from the flushed file, e.g. %s" % (where, len(missing), missing[0][1])))
            if f.get("state") == "ok" and file_recs is not None and file_small:
                # the documented merge rule for an address known to memory AND to the (loadable, cleaned) file
                have = recs(f["peers"])
                for key, m in recs(mem).items():
                    fr = file_recs.get(key)
                    if fr is None or fr["rel"] == m["rel"]:
                        continue
                    if fr["f"] > fr["s"] or int(fr["rel"]) > now_rel or now_rel - int(fr["rel"]) >= cfg["expiry_secs"] * 10 ** 9:
                        continue                        # the load's clean-up drops it before the merge
                    es, ef = min(m["s"] + fr["s"], U32 - 1), min(m["f"] + fr["f"], U32 - 1)
                    if es == U32 - 1:
                        es, ef = 1, 0
                    elif ef == U32 - 1:
                        es, ef = 0, 1
                    got = have.get(key)
                    if st["cleanup"] and ef > es:
                        if got is not None:
                            v.append(("merge-counters", "%s: merged entry %s should be unreliable (%d/%d) and dropped" % (where, key[1], es, ef)))
                    elif got is not None and (got["s"], got["f"]) != (es, ef):
                        v.append(("merge-counters", "%s: %s merged to success %d / failure %d; memory had %d/%d, the file %d/%d, the "
                                  "saturating rule gives %d/%d" % (where, key[1], got["s"], got["f"], m["s"], m["f"], fr["s"], fr["f"], es, ef)))
            if store:
                v.append(("flush-keeps-memory", "%s: the store still lists peers after a flush" % where))
        if k == "load":
            prev = steps[i - 1] if i else {}
            if tr.get("ok"):
                check_bound(cfg, tr["loaded"], where, v)
                check_post(cfg, tr["loaded"], now_rel, where, v)
                if prev.get("k") == "flush" and prev.get("cleanup") and cfg["expiry_secs"] >= 60:
                    fprev = (trace[i - 1].get("file") or {}).get("peers") or []
                    a, b = recs(fprev), recs(tr["loaded"])
                    if set(a) != set(b) or any((a[x]["s"], a[x]["f"], a[x]["rel"]) != (b[x]["s"], b[x]["f"], b[x]["rel"]) for x in a):
                        v.append(("save-load", "%s: loading right after a flush with clean-up returned %d records, the file holds %d" % (where, len(b), len(a))))
            else:
                last_file = next((s for s in reversed(steps[:i]) if s["k"] in ("write_file", "delete_file", "flush")), None)
                if last_file is not None and (last_file["k"] == "flush" or last_file.get("fkind") in ("valid", "foreign")):
                    v.append(("load-rejects", "%s: a cache file written by this code / with the cache schema did not load: %s" % (where, tr.get("err"))))
            if prev.get("fkind") == "corrupt" and tr.get("ok") and bytes(prev["bytes"]) not in (b'{"peers":{}}',):
                pass
        mem = store
        if k == "write_file":
            file_recs = {(p["peer"], a["addr"]): {"s": a["s"], "f": a["f"], "rel": str(a["rel"])} for p in st["data"] for a in p["addrs"]} \
                if st.get("fkind") in ("valid", "foreign") else None
            file_small = file_recs is not None and len(st["data"]) <= cfg["max_peers"] and all(len(p["addrs"]) <= cfg["max_addrs"] for p in st["data"])
        elif k == "delete_file":
            file_recs = None
        elif k == "flush":
            f = tr.get("file") or {}
            file_recs = recs(f["peers"]) if f.get("state") == "ok" else None
            file_small = file_recs is not None and len(f["peers"]) <= cfg["max_peers"] and all(len(p["addrs"]) <= cfg["max_addrs"] for p in f["peers"])
    return v


# ---------------------------------------------------------------------------------------- model terms
class Names:
    """let-bound abbreviations for addresses and peers inside one case term"""
    def __init__(self):
        self.addr, self.peer, self.defs = {}, {}, []

    def a(self, protos):
        key = json.dumps(protos)
        if key not in self.addr:
            n = "A%d" % len(self.addr)
            self.addr[key] = n
            self.defs.append("let %s := %s in" % (n, clist([cproto(p) for p in protos])))
        return self.addr[key]

    def p(self, peer):
        if peer not in self.peer:
            n = "P%d" % len(self.peer)
            self.peer[peer] = n
            self.defs.append("let %s := %s in" % (n, cstr(peer)))
        return self.peer[peer]


def ccache(nm, dump, base_ns):
    out = []
    for p in dump:
        rs = ["{| a_addr := %s; a_s := %s; a_f := %s; a_seen := %s |}" % (
            nm.a(a["protos"]), cN(a["s"]), cN(a["f"]), cN(base_ns + int(a["rel"]))) for a in p["addrs"]]
        out.append("(%s, %s)" % (nm.p(p["peer"]), clist(rs)))
    return clist(out)


def ccfg(cfg):
    return "{| max_peers := %s; max_addrs := %s; expiry := %s |}" % (
        cN(cfg["max_peers"]), cN(cfg["max_addrs"]), cN(cfg["expiry_secs"] * 10 ** 9))


def parse_protos_of(trace_step, st):
    return st.get("protos")


def ctor_term(c, o):
    if "build_err" in o:
        return "false"
    nm = Names()
    base_ns = o["base_secs"] * 10 ** 9
    labels = ["config", "custom", "default"]
    fs0 = clist(["(%s, %s)" % (cstr(l), ccache(nm, [d], base_ns)) for l, d in zip(labels, c["seed_data"])])
    pa = "{| pa_first := %s; pa_local := %s; pa_dir := %s |}" % (
        cbool(c["first"]), cbool(c["local"]), copt("custom" if c["custom_dir"] else None, cstr))
    r = o["reload"]
    reload = copt([p["peer"] for p in r["peers"]] if r.get("ok") else None, lambda ks: clist([nm.p(k) for k in ks]))
    body = "agree_ctor %s %s %s %s %s %s %s %s %s %s %s %s" % (
        "default_config", cN(base_ns + 10 ** 9), cbool(c["ctor"] == "new"), copt("config" if c["config"] else None, cstr), pa, fs0,
        clist([nm.a(pr) for pr in c["add_protos"]]), cstr(o["config_path"]), cbool(o["disabled"]),
        clist([cstr(x) for x in o["changed_by_build"]]), clist([cstr(x) for x in o["changed_by_flush"]]), reload)
    return "(" + " ".join(nm.defs) + " " + body + ")"


def model_term(c, o):
    if c["op"] == "ctor":
        return "false" if "panic" in o else ctor_term(c, o)
    if "panic" in o or c["op"] != "history":
        return None if c["op"] != "history" else "false"
    nm = Names()
    base_ns = o["base_secs"] * 10 ** 9
    steps, trace = c["steps"], o["trace"]
    if c["kind"] == "data":
        items = []
        for st, tr in zip(steps, trace):
            k = st["k"]
            if k == "d_insert":
                r = "{| a_addr := %s; a_s := %s; a_f := %s; a_seen := %s |}" % (
                    nm.a(st["protos"]), cN(st["s"]), cN(st["f"]), cN(base_ns + st["off"] * 10 ** 9 + st["nanos"]))
                s = "DInsert %d %s %s" % (st["slot"], nm.p(st["peer_hex"]), r)
            elif k == "d_sync":
                s = "DSync %d %d" % (st["slot"], st["other"])
            elif k == "d_cleanup":
                s = "DCleanup %d" % st["slot"]
            else:
                s = "DRemoveOldest %d" % st["slot"]
            items.append("(%s, %s)" % (s, ccache(nm, tr["data"], base_ns)))
        body = "agree_dtrace %s %s [[]; []; []; []] %s" % (ccfg(c["cfg"]), cN(base_ns + 10 ** 9), clist(items))
        return "(" + " ".join(nm.defs) + " " + body + ")"
    items = []
    for st, tr in zip(steps, trace):
        k = st["k"]
        now = base_ns + int(tr["t1"])
        store = tr["store"]["peers"]
        fobs, loaded = "FAbsent", "None"

        def addr_of(text):
            pr = ADDR_CACHE.get(text)
            return None if pr is None else nm.a(pr)
        if k in ("add", "status", "remove"):
            a = addr_of(st["addr"])
            target = None
            if a is not None:
                # the clock the call used is the last_seen it wrote
                crafted = [p for p in ADDR_CACHE[st["addr"]]]
                for p in store:
                    for r in p["addrs"]:
                        if int(tr["t0"]) <= int(r["rel"]) <= int(tr["t1"]):
                            target = int(r["rel"])
            if target is not None:
                now = base_ns + target
            if k == "add":
                s = "SAdd %s" % copt(a)
            elif k == "status":
                s = "SStatus %s %s" % (copt(a), cbool(st["ok"]))
            else:
                s = "SRemove %s" % copt(a)
        elif k == "cleanup":
            s = "SCleanup"
        elif k in ("write_file", "delete_file"):
            fk = st["fkind"]
            if fk in ("valid", "foreign"):
                s = "SSetFile (FCache %s)" % ccache(nm, st["data"], base_ns)
            elif fk == "corrupt" and bytes(st["bytes"]) == b'{"peers":{}}':
                s = "SSetFile FCorrupt"     # last_updated / network_version are missing: serde rejects it
            elif fk == "corrupt":
                s = "SSetFile FCorrupt"
            else:
                s = "SSetFile FAbsent"
        elif k == "flush":
            s = "SFlush %s" % cbool(st["cleanup"])
            f = tr.get("file") or {}
            if f.get("state") == "ok" and all(a["protos"] is not None for p in f["peers"] for a in p["addrs"]):
                fobs = "(FCache %s)" % ccache(nm, f["peers"], base_ns)
            else:
                fobs = "FCorrupt"
        elif k == "load":
            s = "SLoad"
            if tr.get("ok"):
                loaded = "(Some %s)" % ccache(nm, tr["loaded"], base_ns)
        else:
            s = "SNop"
        items.append("((%s, %s), {| o_mem := %s; o_file := %s; o_loaded := %s |})" % (
            cN(now), s, ccache(nm, store, base_ns), fobs, loaded))
    body = "agree_strace %s %s [] FAbsent %s" % (ccfg(c["cfg"]), cN(TOL_NS), clist(items))
    return "(" + " ".join(nm.defs) + " " + body + ")"


ADDR_CACHE = {}     # multiaddress text -> protocol list as the real parser reports it (None: unparsable)


def show(c, o):
    return "tt"


def nontrivial(c, o):
    if c["op"] == "concurrent":
        return ("concurrent", c["threads"], c["procs"], c["max_peers"])
    if c["op"] == "first_flush_race":
        return ("first-flush", c["peers"], c["procs"])
    if c["op"] == "big_store":
        return ("big-store", c["peers"], c["addrs"])
    if c["op"] == "ctor":
        return ("ctor", c["ctor"], c["config"], c["custom_dir"], c["first"], c["local"])
    ks = sorted(s["k"] + str(s.get("fkind", "")) + str(s.get("cleanup", "")) for s in c["steps"])
    evicted = any(len(t.get("data", t.get("store", {}).get("peers", []))) == c["cfg"]["max_peers"] for t in o.get("trace", []))
    return (c["kind"], c["cfg"]["max_peers"], c["cfg"]["max_addrs"], c["cfg"]["expiry_secs"], tuple(ks)[:40], evicted)


def resolve_addrs(ctx, binary, cases):
    """ask the real Multiaddr parser for the protocol list of every address text a store history passes to
    add / status / remove"""
    texts = sorted({s["addr"] for c in cases if c["op"] == "history" and c.get("kind") == "store"
                    for s in c["steps"] if s["k"] in ("add", "status", "remove")} - set(ADDR_CACHE))
    if not texts or not binary:
        return
    outs = ctx.run_harness(binary, [{"op": "parse", "addrs": texts}]) or [None]
    for t, pr in zip(texts, outs[0] or []):
        ADDR_CACHE[t] = pr


def run(ctx):
    ctx.regen_consts()
    ctx.prove("props/C18.v", THEOREMS, extra_trusted=[
        "model coq/model/BootCache.v (+ craft in model/Parsers.v), hand-written, tied to cache_store.rs / lib.rs / config.rs "
        "by this run's lock-step correspondence on operation histories",
        "translator fact boot_load_unbounded_read (load_cache_data reads the whole file, no take / size constant), pinned by "
        "written_files_load",
        "translator fact boot_write_atomic_only (write() reaches the disk only through AtomicWriteFile open..commit, no direct "
        "create/write, no early return), pinned by write_is_atomic_replace",
        "translator tools/extract_consts.py: MAX_PEERS, MAX_ADDRS_PER_PEER, ADDR_EXPIRY_DURATION re-read from config.rs "
        "(constants_c18 pins them; every other theorem is parametric in the limits)",
        "premises stated in the theorems: JSON codec round trip (save_load), rename atomicity and private temporary files "
        "(atomic_replace: the step `Commit`), well-formed merged caches (wellformed: syncs_wf)",
        "harness/crates/c18 (Rust driver; also answers the Multiaddr parse oracle), tools/props/C18.py"])
    refresh_lock()
    binary = ctx.cargo_build("c18")
    cases = ctx.corpus() + ([] if ctx.replay else gen(ctx))
    resolve_addrs(ctx, binary, cases)
    pipeline_retry(ctx, "props/C18.v", cases, binary, oracle, model_term, IMPORTS, nontrivial=nontrivial, show=show, shard_size=12,
                 relation="lock-step: every step of a history on the real CacheData / BootstrapCacheStore / cache file == "
                          "the same step in model/BootCache.v (dstep_ok / sstep_ok)")
