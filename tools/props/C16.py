"""C16 -- token amounts: text round-trip and overflow-safe arithmetic (ant-evm/src/amount.rs)."""
import re
from vpc.core import cN, cstr, copt

U256 = 2 ** 256
RAW = 10 ** 18
IMPORTS = "Require Import V.model.Amount."
THEOREMS = ["display_value", "display_parse_roundtrip", "parse_accepts_iff", "parse_value",
            "checked_add_exact", "checked_sub_exact", "constants_consistent"]
RULE = ("amounts: boundary values (0, 1, 10^k+-1, 2^64+-1, 2^128+-1, 2^256-1) and random 256-bit values; "
        "strings: grammar digit+('.'digit*)? with 0-25 fractional digits, near-grammar mutations (radix "
        "prefixes, '_', signs, blanks, second dot, unicode digits), overflow neighbours of 2^256/10^18; "
        "a case is non-trivial/distinct by (op, outcome class, length class of the input)")
ASSUMPTIONS = ["ruint's decimal Display, from_str_radix(10) and checked_{add,sub,mul} are modelled by "
               "exact arithmetic on N with the 2^256 bound (third-party code, validated by this run's "
               "correspondence, not proved)"]


def amounts(rng, n):
    """boundary amounts are always all included; n random ones (every bit length 1..256) follow"""
    xs = [0, 1, 9, 10, RAW - 1, RAW, RAW + 1, 2 ** 64 - 1, 2 ** 64, 2 ** 64 + 1, 2 ** 128 - 1, 2 ** 128,
          2 ** 128 + 1, U256 - 1, U256 - RAW, U256 // RAW * RAW, U256 // RAW * RAW - 1]
    for k in range(0, 78):
        xs += [10 ** k - 1, 10 ** k, 10 ** k + 1]
    # every bit length (a fast path on a narrower integer shows only in one band of bit lengths) ...
    for b in range(1, 257):
        xs += [2 ** b - 1, 2 ** b, 2 ** b + 1]
    # ... and every bit length of the WHOLE-TOKEN part (2^k tokens and its neighbours)
    for k in range(0, 197):
        xs += [2 ** k * RAW - 1, 2 ** k * RAW, 2 ** k * RAW + rng.randrange(0, RAW)]
    xs = [x for x in xs if 0 <= x < U256]
    for _ in range(n):
        xs.append(rng.getrandbits(rng.randrange(1, 257)))
    return xs


def strings(rng, n):
    out = ["", ".", "0", "0.", ".0", "0.0", "1", "1.", "1.0", "0x10", "0b1", "0o7", "1_0", "_", "+1", "-1", " 1",
           "1 ", "1\n", "1.5\n", "1.0x1", "1.1_1", "1..1", "1.1.1", "0.000000000000000001", "0.0000000000000000001",
           "0.0000000000000000010", "1e3", "١", "1.١", "00", "007.5", "0.5000000000000000000000000",
           "115792089237316195423570985008687907853269984665640564039457.584007913129639935",
           "115792089237316195423570985008687907853269984665640564039457.584007913129639936",
           "115792089237316195423570985008687907853269984665640564039457.6",
           "115792089237316195423570985008687907853269984665640564039458",
           "115792089237316195423570985008687907853269984665640564039457",
           "115792089237316195423570985008687907853269984665640564039457584007913129639935",
           "115792089237316195423570985008687907853269984665640564039457584007913129639936",
           "0." + "9" * 80, "9" * 80 + ".1", "0." + "0" * 90 + "1", "0." + "0" * 90]
    digits = "0123456789"
    # redundant leading zeros: the value, not the length of the numeral, decides (a length guard on the
    # units or the fraction part refuses representable amounts)
    for k in [1, 17, 18, 19, 59, 60, 61, 76, 77, 78, 79, 80, 100, 255, 256, 257, 1000]:
        out.append("0" * k)
        out.append("0" * k + "1.5")
        out.append("0" * k + "." + "0" * k)
        out.append("0" * k + str((1 << 256) // (10 ** 18)) + ".584007913129639935")
        out.append("0" * k + str((1 << 256) // (10 ** 18)) + ".584007913129639936")
        out.append("7." + "0" * k)
        out.append("7.5" + "0" * k)
    # very long fractions: a length counter narrower than usize (u8, u16) wraps at 256 / 65536 digits
    for L in [254, 255, 256, 257, 258, 273, 274, 275, 511, 512, 513, 530, 1024, 65535, 65536, 65537, 65554]:
        out.append("0." + "0" * (L - 1) + "1")
        out.append("5." + "0" * (L - 7) + "1234567")
        out.append("0." + "0" * L)
        out.append("1." + "0" * (L - 1) + "1" + "0" * 5)
    while len(out) < n:
        w = "".join(rng.choice(digits) for _ in range(rng.choice([1, 1, 2, 5, 19, 40, 59, 60, 61, 78])))
        if rng.random() < 0.3:
            w = str(rng.getrandbits(rng.choice([10, 64, 196, 197, 198, 199, 200])))
        f = "".join(rng.choice(digits) for _ in range(rng.choice([0, 1, 2, 9, 17, 18, 18, 19, 25])))
        if rng.random() < 0.4:
            f += "0" * rng.randrange(0, 6)
        if rng.random() < 0.1:
            w = "0" * rng.choice([1, 20, 70, 79, 120]) + w
        s = w + ("." + f if rng.random() < 0.8 else "")
        if rng.random() < 0.35:     # near-grammar mutation
            i = rng.randrange(0, len(s) + 1)
            s = s[:i] + rng.choice(["_", "x", "0x", ".", " ", "+", "-", "e", "٣", "a", "\t", "é"]) + s[i:]
        out.append(s)
    return out


def gen(ctx):
    rng = ctx.rng
    n = 400 if ctx.tier == "quick" else 6000
    cases = []
    ams = amounts(rng, n)
    for a in ams:
        cases.append({"op": "roundtrip", "a": str(a)})
    for s in strings(rng, n):
        cases.append({"op": "from_str", "bytes": list(s.encode("utf-8"))})
    # carries / borrows across every limb and half-limb boundary (a fast path on narrower integers,
    # or a dropped carry, only shows on sums that cross 2^k with both operands below it)
    for k in range(8, 257, 8):
        for (a, b) in [(2 ** k - 1, 1), (2 ** (k - 1), 2 ** (k - 1)), (2 ** k - 1, 2 ** k - 1),
                       (2 ** k - rng.randrange(1, 200), rng.randrange(200, 400)),
                       (rng.getrandbits(k) | (1 << (k - 1)), rng.getrandbits(k) | (1 << (k - 1)))]:
            if 0 <= a < U256 and 0 <= b < U256:
                cases.append({"op": "add", "a": str(a), "b": str(b)})
                cases.append({"op": "sub", "a": str(min(a + b, U256 - 1)), "b": str(b)})
                cases.append({"op": "sub", "a": str(b), "b": str(a)})
    # identities and equal operands: x+0, 0+x, x-0, x-x, 0-0, x-(x+1) for boundary and random x
    for x in [0, 1, 2, 9, RAW - 1, RAW, 2 ** 64 - 1, 2 ** 64, 2 ** 128 - 1, 2 ** 128, 2 ** 255, U256 - 2, U256 - 1] + \
            [rng.getrandbits(rng.choice([8, 64, 128, 200, 256])) for _ in range(12)]:
        for (op, a, b) in [("add", x, 0), ("add", 0, x), ("sub", x, 0), ("sub", x, x), ("sub", 0, x),
                           ("sub", x, min(x + 1, U256 - 1)), ("add", x, U256 - 1 - x), ("add", x, min(U256 - x, U256 - 1))]:
            cases.append({"op": op, "a": str(a), "b": str(b)})
    for _ in range(n // 2):
        a, b = rng.choice(ams), rng.choice(ams)
        if rng.random() < 0.3:
            b = U256 - a + rng.choice([-1, 0, 1]) if a > 0 else b
            b = min(max(b, 0), U256 - 1)
        cases.append({"op": rng.choice(["add", "sub"]), "a": str(a), "b": str(b)})
    return cases


GRAMMAR = re.compile(r"([0-9]+)(?:\.([0-9]*))?\Z", re.A)


def oracle(c, o):
    """The property stated directly on the implementation's observable behaviour."""
    v = []
    if "panic" in o:
        return [("panic", "%s panicked: %s" % (c["op"], o["panic"]))]
    if c["op"] == "roundtrip":
        a = int(c["a"])
        m = re.fullmatch(r"([0-9]+)\.([0-9]+)", o["s"], re.A)
        if not m or len(m.group(2)) != 18 or int(m.group(1)) * RAW + int(m.group(2)) != a:
            v.append(("display-value", "display(%d) = %r is not the amount's value in whole tokens with 18 fractional digits" % (a, o["s"])))
        if o["code"] != 0 or int(o["v"]) != a:
            v.append(("display-roundtrip", "from_str(display(%d)) = %s, not the amount" % (a, (o["code"], o["v"]))))
    elif c["op"] == "from_str":
        s = bytes(c["bytes"]).decode("utf-8")
        m = GRAMMAR.match(s)
        want = None
        if m:
            f = (m.group(2) or "").rstrip("0")
            if len(f) <= 18:
                val = int(m.group(1)) * RAW + (int(f) * 10 ** (18 - len(f)) if f else 0)
                if val < U256:
                    want = val
        got = int(o["v"]) if o["code"] == 0 else None
        if want != got:
            v.append(("parse-accepts" if want is None else "parse-rejects-or-wrong",
                      "from_str(%r) = %s but the decimal reading is %s" % (s, (o["code"], o["v"]), want)))
    elif c["op"] in ("add", "sub"):
        a, b = int(c["a"]), int(c["b"])
        r = a + b if c["op"] == "add" else a - b
        want = r if 0 <= r < U256 else None
        got = None if o["r"] is None else int(o["r"])
        if want != got:
            v.append(("checked-arith", "checked_%s(%d,%d) = %s, exact result %s" % (c["op"], a, b, got, want)))
    return v


def model_term(c, o):
    if "panic" in o:
        return "false"
    if c["op"] == "roundtrip":
        a = int(c["a"])
        return "agree_display %s %s && agree_from_str %s %s %s" % (
            cN(a), cstr(o["s"]), cstr(o["s"]), cN(o["code"]), cN(int(o["v"])))
    if c["op"] == "from_str":
        if len(c["bytes"]) > 8000:
            # (a string literal of this size overflows coqc's stack; these few inputs are judged by the
            #  model-independent oracle only -- parse_accepts_iff covers every length)
            return "true"
        return "agree_from_str %s %s %s" % (cstr(bytes(c["bytes"])), cN(o["code"]), cN(int(o["v"])))
    f = "agree_add" if c["op"] == "add" else "agree_sub"
    return "%s %s %s %s" % (f, cN(int(c["a"])), cN(int(c["b"])), copt(o["r"], lambda x: cN(int(x))))


def show(c, o):
    if c["op"] == "roundtrip":
        return "(display %s, from_str (display %s))" % (cN(int(c["a"])), cN(int(c["a"])))
    if c["op"] == "from_str":
        return "from_str %s" % cstr(bytes(c["bytes"]))
    return "(checked_add %s %s, checked_sub %s %s)" % ((cN(int(c["a"])), cN(int(c["b"]))) * 2)


def nontrivial(c, o):
    if c["op"] == "from_str":
        return (c["op"], o.get("code"), min(len(c["bytes"]), 40))
    if c["op"] == "roundtrip":
        return (c["op"], len(c["a"]))
    return (c["op"], o.get("r") is None, len(c["a"]), len(c["b"]))


def run(ctx):
    ctx.regen_consts()
    ctx.prove("props/C16.v", THEOREMS, extra_trusted=[
        "model coq/model/Amount.v (hand-written) tied to ant-evm/src/amount.rs by this run's correspondence",
        "translator tools/extract_consts.py: token_decimals, token_raw_conversion, display_pad re-read from amount.rs",
        "harness/crates/c16 (Rust driver), tools/props/C16.py (generator, oracle, canonicaliser)"])
    binary = ctx.cargo_build("c16")
    cases = ctx.corpus() + ([] if ctx.replay else gen(ctx))
    ctx.pipeline(cases, binary, oracle, model_term, IMPORTS, nontrivial=nontrivial, show=show,
                 relation="AttoTokens::{to_string,from_str,checked_add,checked_sub} == Amount.{display,from_str,checked_add,checked_sub}")
