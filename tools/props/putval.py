"""Shared by C03 / C04 / C07 (node-side put validation): rendering of harness cases into Gallina,
an independent evaluation of the payment / key / signature conditions straight from a case's
symbolic spec (used by the oracles -- it never looks at the Coq model), and spec builders."""
import copy
import json
from vpc.core import cN, cZ, cbool, clist, copt

IMPORTS = "Require Import V.model.PutValidation."
SELF = 0
EXPIRY_S = 3600

# ------------------------------------------------------------------------------------------- names


def pre_of_cid(c):
    if "pk" in c:
        return ("owner", c["pk"])
    if "regpre" in c:
        return ("reg", c["regpre"][0], c["regpre"][1])
    return ("data", c["d"])


def name_of(ks):
    """canonical name of a keyspec/xorspec: specs that denote the same bytes get the same tuple"""
    if ks is None:
        return ("none",)
    if "chunk" in ks:
        return ("H",) + pre_of_cid(ks["chunk"])
    if "owner" in ks:
        return ("H", "owner", ks["owner"])
    if "reg" in ks:
        return ("H", "reg", ks["reg"][0], ks["reg"][1])
    if "raw" in ks:
        return ("raw", ks["raw"])
    return ("hex", ks.get("hex"))


def r_pre(p):
    if p[0] == "data":
        return "(PData %s)" % cN(p[1])
    if p[0] == "owner":
        return "(POwner %s)" % cN(p[1])
    return "(PReg %s %s)" % (cN(p[1]), cN(p[2]))


def r_name(n):
    if n[0] == "H":
        return "(NHash %s)" % r_pre(n[1:])
    if n[0] == "raw":
        return "(NRaw %s)" % cN(n[1])
    return "(NRaw 999999)"


# ------------------------------------------------------------------------------------------- objects

BIG_ID = 10 ** 6      # model id of the empty scratchpad payload (spec "data": -1)


def _did(d):
    return d if d >= 0 else BIG_ID


def r_pad(p):
    s = p["sig"]
    if s == "none":
        sig = "PSNone"
    elif isinstance(s, str):
        sig = "PSJunk"
    else:
        sig = "(PSBy %s %s %s)" % (cN(s["by"]), cN(s["ctr"]), cN(_did(s["data"])))
    return "{| p_owner := %s; p_ctr := %s; p_data := %s; p_enc := %s; p_sig := %s |}" % (
        cN(p["owner"]), cN(p["ctr"]), cN(_did(p["data"])), cN(p.get("enc", 0)), sig)


def tx_fields(t):
    return (t["owner"], list(t.get("parents", [])), t["content"], [list(o) for o in t.get("outputs", [])])


def tx_signed_fields(t):
    """the fields the signature was made over (defaults: the transaction's own)"""
    s = t["sig"]
    o, ps, c, outs = tx_fields(t)
    return (s.get("owner", o), list(s.get("parents", ps)), s["content"], [list(x) for x in s.get("outputs", outs)])


def r_msg(f):
    o, ps, c, outs = f
    return "(tx_msg %s %s %s %s)" % (cN(o), clist([cN(x) for x in ps]), cN(c),
                                     clist(["(%s, %s)" % (cN(k), cN(v)) for k, v in outs]))


def r_tx(t):
    s = t["sig"]
    sig = "TSJunk" if isinstance(s, str) else "(TSBy %s %s)" % (cN(s["by"]), r_msg(tx_signed_fields(t)))
    o, ps, c, outs = tx_fields(t)
    return "{| t_owner := %s; t_parents := %s; t_content := %s; t_outputs := %s; t_sig := %s |}" % (
        cN(o), clist([cN(x) for x in ps]), cN(c), clist(["(%s, %s)" % (cN(k), cN(v)) for k, v in outs]), sig)


def r_perm(p):
    if p == "anyone":
        return "PermAnyone"
    if isinstance(p, list):
        return "(PermWriters %s)" % clist([cN(w) for w in p])
    return "(PermWriters [])"


def r_base(b):
    s = b["osig"]
    sig = "OSJunk" if isinstance(s, str) else "(OSBy %s)" % cN(s["by"])
    return "{| r_owner := %s; r_meta := %s; r_perm := %s; r_osig := %s |}" % (
        cN(b["owner"]), cN(b["meta"]), r_perm(b.get("perm")), sig)


def entry_size(op):
    return op.get("size", len("verif-reg-entry-%d" % op["id"]))


def r_op(o):
    a = o.get("addr")
    return "{| op_id := %s; op_writer := %s; op_sigok := %s; op_addr := %s; op_size := %s |}" % (
        cN(o["id"]), cN(o["writer"]), cbool(o["sig"] == "ok"),
        "None" if a is None else "(Some (%s, %s))" % (cN(a[0]), cN(a[1])), cN(entry_size(o)))


def r_reg(r):
    return "{| g_base := %s; g_ops := %s |}" % (r_base(r), clist([r_op(o) for o in r.get("ops", [])]))


def r_stored(v):
    """harness `describe` output -> Gallina `stored`"""
    t = v.get("t")
    if t == "chunk" and isinstance(v.get("c"), dict) and "unknown" not in v["c"]:
        return "(SChunk %s)" % r_pre(pre_of_cid(v["c"]))
    if t == "pad" and "unknown" not in v.get("pad", {"unknown": 1}):
        return "(SPad %s)" % r_pad(v["pad"])
    if t == "txs" and all("unknown" not in x for x in v["list"]):
        return "(STxs %s)" % clist([r_tx(x) for x in v["list"]])
    if t == "reg" and "unknown" not in v["base"] and all("unknown" not in x for x in v["ops"]):
        return "(SReg {| g_base := %s; g_ops := %s |})" % (r_base(v["base"]), clist([r_op(o) for o in v["ops"]]))
    return "(SRaw 0)"


def stored_of_obj(o):
    """spec of a prior-store object -> the `describe` form"""
    t = o["t"]
    if t == "chunk":
        return {"t": "chunk", "c": o["c"]}
    if t == "pad":
        return {"t": "pad", "pad": o}
    if t == "txs":
        return {"t": "txs", "list": o["list"]}
    if t == "reg":
        return {"t": "reg", "base": {k: o.get(k) for k in ("owner", "meta", "perm", "osig")}, "ops": o.get("ops", [])}
    return {"t": "raw"}


def r_store(dump):
    return clist(["(%s, {| s_val := %s; s_listed := %s |})" % (
        r_name(name_of(s["key"])), r_stored(s["val"]), cbool(s["listed"])) for s in dump])


# ------------------------------------------------------------------------------------------- payments

def r_qsig(q):
    s = q["sig"]
    content = name_of(q["content"])
    pub = q["pub"] if q["pub"] >= 0 else 0
    if s == "ok":
        return "(QBy %s %s)" % (cN(pub), r_name(content))
    if isinstance(s, str):
        return "QJunk"
    if "by" in s:
        return "(QBy %s %s)" % (cN(s["by"]), r_name(content))
    return "(QBy %s %s)" % (cN(pub), r_name(name_of(s["content"])))


def r_proof(p):
    qs = []
    for q in p["quotes"]:
        qs.append("{| pq_claimed := %s; pq_quote := {| q_content := %s; q_age := %s; q_pub := %s; q_sig := %s |} |}" % (
            copt(q["claimed"] if q["claimed"] >= 0 else None, cN), r_name(name_of(q["content"])), cZ(q["age"]),
            copt(q["pub"] if q["pub"] >= 0 else None, cN), r_qsig(q)))
    return clist(qs)


def chain_of(d):
    c = d.get("chain") or {}
    mode = c.get("mode", "ok")
    valid = (c.get("valid") or [True, True, True]) + [True] * 3
    amounts = c.get("amounts") or [5, 7, 11]
    return mode, valid[:3], (amounts + [0, 0, 0])[:3]


def _r_chain_state(mode, valid, amounts):
    if mode != "ok":
        return "ChainErr"
    return "(ChainOk %s)" % clist(["(%s, %s)" % (cbool(v), cN(a)) for v, a in zip(valid, amounts)])


def r_chain(d):
    """what the node's eth_call sees: the model picks the mined or the pending state according to the block tag
    the source asks for (chain_queried); `valid` is the mined state, `pending_valid` the pending one"""
    mode, valid, amounts = chain_of(d)
    latest = _r_chain_state(mode, valid, amounts)
    pend = (d.get("chain") or {}).get("pending_valid")
    if pend is None:
        return latest
    return "(chain_queried %s %s)" % (latest, _r_chain_state(mode, (list(pend) + [True] * 3)[:3], amounts))


def r_body(b):
    t = b["t"]
    if t == "chunk":
        return "(BChunk %s)" % r_pre(pre_of_cid(b["c"]))
    if t == "rawchunk":
        # hand-built msgpack: only the bare byte string is what Chunk's decoder accepts (and it re-hashes it)
        return "(BChunk %s)" % r_pre(pre_of_cid(b["c"])) if b.get("shape", "bare") == "bare" else "BGarbage"
    if t == "pad":
        return "(BPad %s)" % r_pad(b)
    if t == "tx":
        return "(BTx %s)" % r_tx(b)
    if t == "txs":
        return "(BTxs %s)" % clist([r_tx(x) for x in b["list"]])
    if t == "reg":
        return "(BReg %s)" % r_reg(b)
    return "BGarbage"


def header_parses(d):
    return d["body"]["t"] not in ("short", "empty") and 0 <= d["hdr"] < 128


def r_upload(d):
    hdr = "(kind_of_tag %s)" % cN(d["hdr"]) if header_parses(d) else "None"
    proof = "(Some %s)" % r_proof(d["proof"]) if d.get("proof") else "None"
    return "{| u_key := %s; u_hdr := %s; u_proof := %s; u_body := %s; u_chain := %s |}" % (
        r_name(name_of(d["key"])), hdr, proof, r_body(d["body"]), r_chain(d))


def r_delivery(d):
    return "{| d_path := %s; d_up := %s |}" % ("PRepl" if d["path"] == "repl" else "PClient", r_upload(d))


CODES = {"Ok": 0, "Protocol:RecordHeaderParsingFailed": 1, "Protocol:RecordParsingFailed": 2,
         "RecordKeyMismatch": 3, "InvalidPutWithoutPayment": 4, "UnexpectedRecordWithPayment": 5,
         "IgnoringOutdatedScratchpadPut": 6, "InvalidScratchpadSignature": 7, "PaymentNotValidForUs": 8,
         "PaymentQuoteForOtherContent": 9, "PaymentExpired": 10, "PaymentPayeesOutOfRange": 11,
         "EvmNetwork": 12, "NoTransactionsForKey": 13, "RegisterListedButMissing": 15,
         "Network:RecordKindMismatch": 16}


def code_of(res):
    if res in CODES:
        return CODES[res]
    if res and res.startswith("Register:"):
        return 14
    return 98


def r_observed(r):
    puts = clist(["(%s, %s)" % (r_name(name_of(p["key"])), r_stored(p["val"])) for p in r["puts"]])
    rewards = clist(["(%s, %s)" % (cN(int(e["reward"])), r_name(name_of(e["addr"])))
                     for e in r["events"] if "reward" in e])
    return "{| o_code := %s; o_puts := %s; o_rpc := %s; o_payrecv := %s; o_fetch := %s; o_rewards := %s |}" % (
        cN(code_of(r["res"])), puts, cN(len(r["rpc_calls"])), cN(r["payment_received"]),
        cN(r["fetch_completed"]), rewards)


def r_tokens(sched):
    return clist(["(TAdv %d%%nat)" % t if isinstance(t, int) else "TAck" for t in (sched or [])])


def r_env(case):
    return "{| e_closest := %s |}" % clist([cN(p) for p in case.get("closest", [])])


def model_term(case, out):
    """the model, run on this case with the same schedule, produces what the implementation produced"""
    if not isinstance(out, dict) or "results" not in out:
        return "false"
    return "agree_case %s %s %s %s %s %s" % (
        r_env(case), r_store(out["store_before"]), clist([r_delivery(d) for d in case["deliveries"]]),
        r_tokens(case.get("schedule")), clist([r_observed(r) for r in out["results"]]), r_store(out["store"]))


def show_term(case, out):
    return "(let '(st, ds) := sched_run %s %s %s %s in (st, map (fun d => (res_code (dresult d), ds_emitted d)) ds))" % (
        r_env(case), r_store(out["store_before"]), clist([r_delivery(d) for d in case["deliveries"]]),
        r_tokens(case.get("schedule")))


# ------------------------------------------------------------------------------------------- independent evaluation

def quote_authentic(q):
    """the quote is signed by the node it is claimed to come from (C03 condition 1)"""
    if q["claimed"] < 0 or q["pub"] < 0 or q["pub"] != q["claimed"]:
        return False
    s = q["sig"]
    if s == "ok":
        return True
    if isinstance(s, str):
        return False
    if "by" in s:
        return s["by"] == q["pub"]
    return name_of(s["content"]) == name_of(q["content"])


def quote_expired(q):
    return q["age"] < 0 or q["age"] // 1000 > EXPIRY_S


def payment_conditions(case, d, addr):
    """the six conditions of C03 for upload `d` stored at address `addr` (a canonical name);
    returns dict name -> bool, None when there is no proof"""
    p = d.get("proof")
    if not p:
        return None
    qs = p["quotes"]
    claimed = [q["claimed"] for q in qs if q["claimed"] >= 0]
    mode, valid, _ = chain_of(d)
    own = [q for q in qs if q["pub"] == SELF]
    return {
        "signed": all(quote_authentic(q) for q in qs),
        "payee": SELF in claimed,
        "close": all(c in case.get("closest", []) for c in claimed),
        "fresh": not any(quote_expired(q) for q in qs),
        "onchain": mode == "ok" and all(valid),
        # "this node's quote was issued for the address being stored"
        "quoted-address": len(own) > 0 and all(name_of(q["content"]) == addr for q in own),
    }


def pad_valid(p):
    s = p["sig"]
    return isinstance(s, dict) and s["by"] == p["owner"] and s["ctr"] == p["ctr"] and s["data"] == p["data"]


def tx_valid(t):
    """genuine = byte-identical to what its owner signed: signed by the owner's key over exactly these fields
    (owner, every parent, content, every output's key and content); decided from the case spec, never by calling
    Transaction::verify"""
    s = t["sig"]
    return isinstance(s, dict) and s["by"] == t["owner"] and tx_signed_fields(t) == tx_fields(t)


def derived_name_of_stored(v):
    """the key a stored value determines (C04), from the `describe` form; None if undetermined"""
    t = v.get("t")
    if t == "chunk" and isinstance(v.get("c"), dict) and "unknown" not in v["c"]:
        return [("H",) + pre_of_cid(v["c"])]
    if t == "pad" and "owner" in v.get("pad", {}):
        return [("H", "owner", v["pad"]["owner"])]
    if t == "txs":
        return [("H", "owner", x["owner"]) for x in v["list"] if "owner" in x] or None
    if t == "reg" and "owner" in v.get("base", {}):
        return [("H", "reg", v["base"]["owner"], v["base"]["meta"])]
    return None


def body_matches_kind(d):
    """the body has the shape the header kind announces on this path"""
    if not header_parses(d):
        return False
    h, t, paid = d["hdr"], d["body"]["t"], bool(d.get("proof"))
    want = {1: ("chunk", False), 0: ("chunk", True), 5: ("pad", False), 6: ("pad", True),
            3: ("reg", False), 4: ("reg", True), 7: ("tx", True),
            2: ("txs" if d["path"] == "repl" else "tx", False)}.get(h)
    return want is not None and want == (t, paid)


def derived_names_of_body(b):
    t = b["t"]
    if t == "chunk":
        return [("H",) + pre_of_cid(b["c"])]
    if t in ("pad", "tx"):
        return [("H", "owner", b["owner"])]
    if t == "txs":
        return [("H", "owner", x["owner"]) for x in b["list"]]
    if t == "reg":
        return [("H", "reg", b["owner"], b["meta"])]
    return []


def listed_names(dump):
    return {name_of(s["key"]) for s in dump if s["listed"]}


def dump_map(dump):
    return {name_of(s["key"]): s for s in dump}


# ------------------------------------------------------------------------------------------- builders

def q_ok(peer, content, age=60_000):
    return {"claimed": peer, "pub": peer, "content": copy.deepcopy(content), "age": age, "sig": "ok"}


def good_proof(content, peers=(0, 1, 2), age=60_000):
    return {"quotes": [q_ok(p, content, age) for p in peers]}


def pad(owner, ctr, data=None, signer=None, sig="ok", enc=0):
    data = ctr if data is None else data
    if sig == "ok":
        s = {"by": owner if signer is None else signer, "ctr": ctr, "data": data}
    elif sig == "stale":
        s = {"by": owner if signer is None else signer, "ctr": ctr + 1, "data": data}
    else:
        s = sig
    return {"t": "pad", "owner": owner, "ctr": ctr, "data": data, "enc": enc, "sig": s}


def norm_tx(t):
    """canonical spec: no empty lists, no signature fields that merely repeat the transaction's own"""
    t = copy.deepcopy(t)
    for k in ("parents", "outputs"):
        if not t.get(k):
            t.pop(k, None)
    if isinstance(t["sig"], dict):
        own = {"owner": t["owner"], "parents": list(t.get("parents", [])), "outputs": [list(o) for o in t.get("outputs", [])]}
        for k, v in own.items():
            if k in t["sig"] and (list(t["sig"][k]) if isinstance(v, list) else t["sig"][k]) == v:
                del t["sig"][k]
            elif k in t["sig"] and isinstance(v, list):
                t["sig"][k] = [list(x) if isinstance(x, (list, tuple)) else x for x in t["sig"][k]]
    return t


def tx(owner, content, signer=None, sig="ok", parents=(), outputs=()):
    if sig == "ok":
        s = {"by": owner if signer is None else signer, "content": content}
    elif sig == "stale":
        s = {"by": owner if signer is None else signer, "content": content + 1}
    else:
        s = "junk"
    return norm_tx({"t": "tx", "owner": owner, "content": content, "parents": list(parents),
                    "outputs": [list(o) for o in outputs], "sig": s})


def tamper_tx(t, field, i=0):
    """a signed transaction with one field rewritten AFTER signing (the signature stays the one made over the
    original fields); field in owner | parent | content | out_key | out_content | sig-junk | sig-other-key"""
    o, ps, c, outs = tx_fields(t)
    g = copy.deepcopy(t)
    g["parents"], g["outputs"] = list(ps), [list(x) for x in outs]
    if isinstance(t["sig"], dict):
        so, sps, sc, souts = tx_signed_fields(t)
        g["sig"] = {"by": t["sig"]["by"], "owner": so, "parents": sps, "content": sc, "outputs": souts}
    if field == "owner":
        g["owner"] = o + 1
    elif field == "parent":
        g["parents"][i] = g["parents"][i] + 3
    elif field == "parent-dropped":
        del g["parents"][i]
    elif field == "content":
        g["content"] = c + 1
    elif field == "out_key":
        g["outputs"][i][0] += 3
    elif field == "out_content":
        g["outputs"][i][1] += 1
    elif field == "out-dropped":
        del g["outputs"][i]
    elif field == "sig-junk":
        g["sig"] = "junk"
    elif field == "sig-other-key":
        g["sig"]["by"] = o + 1
    return norm_tx(g)


def tx_tamper_cases():
    """every field of a signed transaction (0..3 parents, 1..3 outputs) rewritten individually after signing:
    owner, each parent, content, each output's key and each output's content, the signature; delivered alone, next
    to the genuine one, onto a store already holding the genuine one, and as a paid upload"""
    cs = []
    for n in range(0, 4):
        for m in range(1, 4):
            genuine = tx(1, 2, parents=[2 + i for i in range(n)], outputs=[[4 + i, 1 + i] for i in range(m)])
            fields = [("owner", 0), ("content", 0), ("sig-junk", 0), ("sig-other-key", 0)]
            fields += [("parent", i) for i in range(n)] + [("parent-dropped", i) for i in range(min(n, 1))]
            fields += [("out_key", i) for i in range(m)] + [("out_content", i) for i in range(m)]
            fields += [("out-dropped", i) for i in range(1 if m > 1 else 0)]
            for f, i in fields:
                bad = tamper_tx(genuine, f, i)
                key = {"owner": 1}
                cs.append(case("tx-tamper", [delivery("repl", {"t": "txs", "list": [bad]}, key=key)]))
                cs.append(case("tx-tamper", [delivery("repl", {"t": "txs", "list": [copy.deepcopy(genuine), bad]}, key=key)]))
                cs.append(case("tx-tamper", [delivery("repl", {"t": "txs", "list": [bad]}, key=key)],
                               store=[held({"t": "txs", "list": [copy.deepcopy(genuine)]})]))
                d = delivery("client", bad, paid=True, key=key)
                d["proof"] = good_proof(key)
                cs.append(case("tx-tamper", [d]))
                if f == "owner":
                    # presented under the new owner's key as well
                    cs.append(case("tx-tamper", [delivery("repl", {"t": "txs", "list": [bad]})]))
            # control: the genuine transaction is accepted on both paths
            cs.append(case("tx-genuine", [delivery("repl", {"t": "txs", "list": [copy.deepcopy(genuine)]})]))
            cs.append(case("tx-genuine", [delivery("client", copy.deepcopy(genuine), paid=True)]))
    return cs


def reg(owner, meta, ops=(), perm="owner", osig=None):
    # an op that names the register's own address is the same bytes as one without an explicit address
    ops = [{k: v for k, v in o.items() if not (k == "addr" and list(v) == [owner, meta])} for o in ops]
    return {"t": "reg", "owner": owner, "meta": meta, "perm": perm,
            "osig": {"by": owner} if osig is None else osig, "ops": list(ops)}


def op(i, writer, sig="ok", addr=None, size=None):
    o = {"id": i, "writer": writer, "sig": sig}
    if addr is not None:
        o["addr"] = list(addr)
    if size is not None:
        o["size"] = size
    return o


def key_of_body(b):
    t = b["t"]
    if t == "chunk":
        return {"chunk": copy.deepcopy(b["c"])}
    if t in ("pad", "tx"):
        return {"owner": b["owner"]}
    if t == "txs":
        return {"owner": b["list"][0]["owner"]} if b["list"] else {"raw": 0}
    if t == "reg":
        return {"reg": [b["owner"], b["meta"]]}
    return {"raw": 0}


PAID_TAG = {"chunk": 0, "pad": 6, "reg": 4, "tx": 7}
PLAIN_TAG = {"chunk": 1, "pad": 5, "reg": 3, "tx": 2, "txs": 2}


def delivery(path, body, paid=False, key=None, proof=None, chain=None, hdr=None):
    d = {"path": path, "body": body,
         "hdr": (PAID_TAG if paid else PLAIN_TAG).get(body["t"], 1) if hdr is None else hdr,
         "key": key_of_body(body) if key is None else key,
         "proof": (good_proof(key_of_body(body)) if proof is None else proof) if paid else proof,
         "chain": chain or {"mode": "ok"}}
    return d


def case(kind, deliveries, store=(), closest=(0, 1, 2, 3), schedule=None):
    c = {"mode": "node", "kind": kind, "closest": list(closest), "store": list(store), "deliveries": deliveries}
    if schedule is not None:
        c["schedule"] = schedule
    return c


def held(obj, key=None, listed=True):
    return {"key": key_of_body(obj) if key is None else key, "obj": obj, "listed": listed}


def dumps(x):
    return json.dumps(x, sort_keys=True)


def pipeline(ctx, target, theorems, extra_trusted, cases, binary, oracle, model_term_fn, imports, **kw):
    """ctx.pipeline, re-run when another property's check rebuilt gen/Consts.vo while our case files were
    being evaluated (coqc then reports 'inconsistent assumptions over library V.gen.Consts'): that is a
    race between concurrent checks on the shared Coq tree, not a fact about the code under check."""
    for attempt in range(4):
        n_tb, n_iv = len(ctx.tie_breaks), len(ctx.impl_viol)
        ev, tv = ctx.cov["evaluations"], ctx.cov["traces_validated_against_impl"]
        dist = dict(ctx.cov["distribution"])
        ctx.pipeline(cases, binary, oracle, model_term_fn, imports, **kw)
        race = [t for t in ctx.tie_breaks[n_tb:] if t[0] == "model-eval" and "inconsistent assumptions" in str(t[2])]
        if not race or attempt == 3:
            return
        ctx.log("Coq tree was rebuilt by a concurrent check during model evaluation; rebuilding and evaluating again")
        del ctx.tie_breaks[n_tb:]
        del ctx.impl_viol[n_iv:]
        ctx.cov["evaluations"], ctx.cov["traces_validated_against_impl"], ctx.cov["distribution"] = ev, tv, dist
        ctx.prove(target, theorems, extra_trusted=extra_trusted)


# ------------------------------------------------------------------------------------------- cross-kind prior content

def kind_change_violations(case, out):
    """Model-independent clauses about what already sits at a key (record keys are shared across kinds: a
    chunk whose bytes are an owner's public key has the key of that owner's scratchpad / transactions, a
    chunk of meta++owner has the register's key): a stored chunk is immutable -- nothing ever replaces it --
    and a stored scratchpad / transaction set / register is only ever replaced by a record of the same kind."""
    v = []
    if not isinstance(out, dict) or "results" not in out:
        return v
    steps = []
    if is_serial(case):
        for i, r in enumerate(out["results"]):
            if r.get("store_at_start") is not None and r.get("store_after") is not None:
                steps.append(("delivery %d" % i, r["store_at_start"], r["store_after"]))
    steps.append(("whole case", out["store_before"], out["store"]))
    # a chunk under the hash of its bytes: the harness re-hashes (SHA3-256) the bytes of every stored chunk
    # record with its own msgpack reader, independent of Chunk's serde impl
    seen = set()
    dumps_ = [("final store", out["store"])]
    for i, r in enumerate(out["results"]):
        dumps_.append(("write of delivery %d" % i, [p for p in r["puts"] if not p.get("refused_by_driver")]))
        if r.get("store_after") is not None:
            dumps_.append(("store after delivery %d" % i, r["store_after"]))
    for where, dmp in dumps_:
        for s_ in dmp:
            val = s_["val"]
            if val.get("t") == "chunk" and "sha3" in val and "key_hex" in s_ and val["sha3"] != s_["key_hex"]:
                sig = (s_["key_hex"], val["sha3"])
                if sig not in seen:
                    seen.add(sig)
                    v.append(("chunk-not-under-hash-of-bytes", "%s: a chunk is stored under key %s but its bytes hash to %s (%s)"
                              % (where, s_["key_hex"][:16], val["sha3"][:16], dumps(val.get("c"))[:80])))
    for where, b, a in steps:
        before, after = dump_map(b), dump_map(a)
        for k, sb in before.items():
            sa = after.get(k)
            kb = sb["val"].get("t")
            ka = None if sa is None else sa["val"].get("t")
            if kb == "chunk" and (sa is None or dumps(sa["val"]) != dumps(sb["val"])):
                v.append(("chunk-replaced", "%s: the chunk stored at %s (%s) was replaced by %s"
                          % (where, k, dumps(sb["val"])[:120], "nothing" if sa is None else dumps(sa["val"])[:200])))
            elif kb in ("pad", "txs", "reg") and ka != kb:
                v.append(("record-kind-replaced", "%s: the %s stored at %s was replaced by a record of kind %s"
                          % (where, kb, k, ka)))
    return v


def cross_kind_cases():
    """every kind of prior content at a coinciding key x every way of delivering each other kind there"""
    cs = []
    owner_priors = [held({"t": "chunk", "c": {"pk": 1}}), held(pad(1, 3)), held({"t": "txs", "list": [tx(1, 1)]})]
    reg_priors = [held({"t": "chunk", "c": {"regpre": [1, 1]}}), held(reg(1, 1, ops=[op(1, 1)]))]

    def variants(body):
        out = [delivery("repl", body if body["t"] != "tx" else {"t": "txs", "list": [body]}),
               delivery("client", body, paid=True)]
        if body["t"] != "tx":
            out.append(delivery("client", body))                      # unpaid update
        bad = delivery("client", body, paid=True)                      # paid upload whose payment fails
        bad["chain"] = {"mode": "rpcerr"}
        out.append(bad)
        return out

    owner_bodies = [pad(1, 9), pad(1, 1), tx(1, 2), {"t": "chunk", "c": {"pk": 1}}]
    reg_bodies = [reg(1, 1, ops=[op(2, 1)]), {"t": "chunk", "c": {"regpre": [1, 1]}}]
    for priors, bodies in ((owner_priors, owner_bodies), (reg_priors, reg_bodies)):
        for pr in priors:
            for b in bodies:
                for d in variants(b):
                    cs.append(case("cross-kind", [copy.deepcopy(d)], store=[copy.deepcopy(pr)]))
            # two-step: the other kind arrives first through an honest path, then the rest
            for b1 in bodies:
                for b2 in bodies:
                    if b1["t"] != b2["t"]:
                        d1 = delivery("client", b1, paid=True)
                        for d2 in variants(b2):
                            cs.append(case("cross-kind-seq", [copy.deepcopy(d1), copy.deepcopy(d2)]))
    return cs


# ------------------------------------------------------------------------------------------- serial runs with delayed acks

BLOCK = 8     # tokens per delivery: more than any delivery needs to return and have its writes processed


def is_serial(case):
    """no two deliveries overlap: there is no schedule, or the schedule (acks aside) is one contiguous block of
    >= BLOCK tokens per delivery, in delivery order -- each delivery has fully returned and its PutLocalRecords
    have been processed before the next one starts; only the disk-write acknowledgements may be late"""
    sched = case.get("schedule")
    if sched is None:
        return True
    toks = [t for t in sched if isinstance(t, int)]
    want = []
    for i in range(len(case["deliveries"])):
        n = toks.count(i)
        if n == 0:
            continue                      # runs at the end, after everything else
        if n < BLOCK:
            return False
        want += [i] * n
    return toks == want


def back_to_back(kind, deliveries, store=(), acks=(), closest=(0, 1, 2, 3)):
    """serial deliveries; the acknowledgement of the disk writes is relayed only after the deliveries whose
    index is in `acks` (and, as always, at the very end)"""
    sched = []
    for i in range(len(deliveries)):
        sched += [i] * BLOCK
        if i in acks:
            sched.append("ack")
    return case(kind, deliveries, store=store, closest=closest, schedule=sched)


def back_to_back_cases():
    """serial deliveries to one key, the next one starting after the previous has fully returned but before
    (or after) its disk write has been acknowledged: the record is readable (write cache) but not yet indexed"""
    cs = []

    def entries(body):
        out = [("repl", delivery("repl", body if body["t"] != "tx" else {"t": "txs", "list": [body]})),
               ("paid", delivery("client", body, paid=True))]
        if body["t"] != "tx":
            out.append(("unpaid", delivery("client", body)))
        return out

    families = {
        "tx": ([tx(1, 2), tx(1, 3), tx(1, 4)], held({"t": "txs", "list": [tx(1, 1)]})),
        "reg": ([reg(1, 1, ops=[op(2, 1)]), reg(1, 1, ops=[op(3, 1)]), reg(1, 1, ops=[op(4, 1), op(2, 1)])],
                held(reg(1, 1, ops=[op(1, 1)]))),
        "pad": ([pad(1, 7), pad(1, 6, data=60), pad(1, 9)], held(pad(1, 5))),
    }
    for fam, (bodies, prior) in families.items():
        for store in ([], [prior]):
            for (n1, d1) in entries(bodies[0]):
                for (n2, d2) in entries(bodies[1]):
                    for acks in ((), (0,)):
                        c = back_to_back("back-to-back-" + fam, [copy.deepcopy(d1), copy.deepcopy(d2)],
                                            store=copy.deepcopy(store), acks=acks)
                        cs.append(c)
            # three in a row, acknowledgement only after the second
            for (n1, d1) in entries(bodies[0]):
                ds = [copy.deepcopy(d1)] + [copy.deepcopy(entries(b)[0][1]) for b in bodies[1:]]
                cs.append(back_to_back("back-to-back-" + fam, ds, store=copy.deepcopy(store), acks=(1,)))
    return cs




# ------------------------------------------------------------------------------------------- hand-built chunk bodies, pad boundaries

RAW_SHAPES = ("arr-ints", "arr-bin", "arr-hex", "map-av", "map-va", "bare")


def raw_chunk_cases():
    """Chunk / ChunkWithPayment records whose msgpack body is built by hand: the claimed address A travels next to
    bytes V with hash(V) != A (2-array with the address as 32 ints / bin / hex string, map in both field orders) and
    the honest bare-bytes form, each presented under A, under hash(V) and under an unrelated key, on the replication
    path and as a paid client upload (payment valid for the presented key), against an empty store and a store
    that already holds the honest chunk A"""
    cs = []
    A = {"chunk": {"d": 41}}
    V = {"d": 42}
    for shape in RAW_SHAPES:
        for kname, key in (("claimed", A), ("hash", {"chunk": V}), ("other", {"raw": 5})):
            for store in ([], [held({"t": "chunk", "c": {"d": 41}})]):
                body = {"t": "rawchunk", "shape": shape, "addr": A, "c": V}
                d1 = {"path": "repl", "hdr": 1, "body": copy.deepcopy(body), "key": copy.deepcopy(key), "proof": None, "chain": {"mode": "ok"}}
                d2 = {"path": "client", "hdr": 0, "body": copy.deepcopy(body), "key": copy.deepcopy(key),
                      "proof": good_proof(key), "chain": {"mode": "ok"}}
                d3 = {"path": "client", "hdr": 1, "body": copy.deepcopy(body), "key": copy.deepcopy(key), "proof": None, "chain": {"mode": "ok"}}
                for d in (d1, d2, d3):
                    cs.append(case("raw-chunk", [d], store=copy.deepcopy(store)))
    return cs


def raw_chunk_storeput_cases():
    puts = []
    A = {"chunk": {"d": 41}}
    for shape in RAW_SHAPES:
        for key in (A, {"chunk": {"d": 42}}, {"raw": 5}):
            for hdr in (1, 0):
                puts.append({"key": key, "hdr": hdr, "body": {"t": "rawchunk", "shape": shape, "addr": A, "c": {"d": 42}},
                             "proof": good_proof(key) if hdr == 0 else None})
    return [{"mode": "storeput", "kind": "storeput-raw-chunk", "max": 4096, "prior": [], "puts": puts[i:i + 12]}
            for i in range(0, len(puts), 12)]


U64_MAX = 2 ** 64 - 1


def pad_boundary_cases():
    """signature {none, junk, other key, valid} x counter {0, 1, u64::MAX} x data {empty, non-empty} x data_encoding
    {0, other} on every entry point, from an empty store and from a store holding a lower / higher version"""
    cs = []
    for sig in ("none", "junk", "other", "ok"):
        for ctr in (0, 1, U64_MAX):
            for data in (-1, 3):
                for enc in (0, 9):
                    if sig == "other":
                        b = pad(1, ctr, data=data, signer=2, sig="ok", enc=enc)
                    else:
                        b = pad(1, ctr, data=data, sig=sig, enc=enc)
                    for store in ([], [held(pad(1, 0, data=7))], [held(pad(1, 5))]):
                        for d in (delivery("repl", b), delivery("client", b, paid=True), delivery("client", b)):
                            cs.append(case("pad-boundary", [copy.deepcopy(d)], store=copy.deepcopy(store)))
    return cs


# ------------------------------------------------------------------------------------------- validity from the case spec

def perm_set(b):
    p = b.get("perm")
    if p == "anyone":
        return "anyone"
    return frozenset([b["owner"]] + (p if isinstance(p, list) else []))


def op_ok(b, o):
    if o.get("addr") is not None and list(o["addr"]) != [b["owner"], b["meta"]]:
        return False
    if entry_size(o) > 1024:
        return False
    ps = perm_set(b)
    return True if ps == "anyone" else (o["writer"] in ps and o["sig"] == "ok")


def reg_verifies(b):
    return len(b.get("ops", [])) < 1024 and isinstance(b["osig"], dict) and b["osig"]["by"] == b["owner"] and \
        all(op_ok(b, o) for o in b.get("ops", []))




def must_be_rejected(d, before):
    """from the case spec alone: is this delivery one that the properties say must change nothing?
    (content not validly signed by its owner / not permitted / for another register / other base than the held
    one).  Returns a reason or None.  `before` = dump_map of the store the delivery met."""
    b = d["body"]
    t = b["t"]
    if t == "pad":
        return None if pad_valid(b) else "scratchpad not validly signed by its owner"
    if t in ("tx", "txs"):
        lst = [b] if t == "tx" else b["list"]
        k = name_of(d["key"])
        ok = [x for x in lst if tx_valid(x) and ("H", "owner", x["owner"]) == k]
        return None if ok else "no validly signed transaction of the owner the key names"
    if t == "reg":
        if not reg_verifies(b):
            return "register does not verify (owner signature / unauthorised, forged or foreign operation / size)"
        held_ = before.get(("H", "reg", b["owner"], b["meta"]))
        if held_ is not None and held_["val"].get("t") == "reg":
            sb = held_["val"]["base"]
            if (sb["owner"], sb["meta"], perm_set(sb)) != (b["owner"], b["meta"], perm_set(b)):
                return "register has another base (permissions) than the held one"
    return None


def rejection_violations(case, out):
    """Model-independent 'nothing changes' clauses for serial runs, on both views of the store (what is readable:
    every PutLocalRecord the delivery emitted and the store right after it returned; what is listed: the snapshot
    taken after the acknowledgement):
      * a delivery that returns an error leaves no write command and a store identical to the one it met;
      * a delivery whose content the case spec says is invalid (see must_be_rejected) does too, whatever it returns."""
    v = []
    if not isinstance(out, dict) or "results" not in out or not is_serial(case):
        return v
    for i, (d, r) in enumerate(zip(case["deliveries"], out["results"])):
        if r.get("store_at_start") is None or r.get("store_after") is None:
            continue
        stored = [p for p in r["puts"] if not p.get("refused_by_driver")]
        changed = dumps(r["store_at_start"]) != dumps(r["store_after"])
        if r["res"] != "Ok" and (stored or changed):
            v.append(("rejected-but-changed", "delivery %d (%s, header tag %d, %s) returned %s, yet %d record(s) were written / made "
                      "readable and the store %s: %s" % (i, d["path"], d["hdr"], d["body"]["t"], r["res"], len(stored),
                                                        "changed" if changed else "did not change",
                                                        dumps([p["key"] for p in stored])[:200])))
            continue
        why = must_be_rejected(d, dump_map(r["store_at_start"]))
        if why and (stored or changed):
            v.append(("invalid-content-changed-store", "delivery %d (%s, header tag %d): %s, yet the store changed (result %s, wrote %s)"
                      % (i, d["path"], d["hdr"], why, r["res"], dumps([p["val"] for p in stored])[:300])))
    return v


def forged_update_cases():
    """a held mutable record x an update that must be refused, on every entry point (replicated copy, unpaid
    update, paid upload with a valid and with a failing payment)"""
    cs = []
    held_reg = held(reg(1, 1, ops=[op(1, 1), op(5, 2)], perm=[2]))
    forged = [
        reg(1, 1, ops=[op(3, 1)], perm=[2], osig="junk"),
        reg(1, 1, ops=[op(3, 1)], perm=[2], osig={"by": 2}),
        reg(1, 1, ops=[op(3, 3)], perm=[2]),                      # writer 3 is not permitted
        reg(1, 1, ops=[op(3, 2, sig="junk")], perm=[2]),          # forged op signature
        reg(1, 1, ops=[op(3, 1, addr=[1, 2])], perm=[2]),         # op made for another register
        reg(1, 1, ops=[op(1, 1), op(3, 3)], perm=[2]),            # one good (known) op, one unauthorised
        reg(1, 1, ops=[op(3, 1)], perm=[2, 3]),                   # other permissions: different base
        reg(1, 1, ops=[op(3, 1)], perm="anyone"),
        reg(1, 1, ops=[op(3, 1, size=1025)], perm=[2]),
    ]
    held_pad = held(pad(1, 5))
    forged_pads = [pad(1, 9, sig="junk"), pad(1, 9, sig="none"), pad(1, 9, signer=2), pad(1, 9, sig="stale")]
    held_txs = held({"t": "txs", "list": [tx(1, 1)]})
    forged_txs = [tx(1, 2, sig="junk"), tx(1, 2, signer=2), tx(1, 2, sig="stale")]

    def variants(body):
        out = [delivery("repl", body if body["t"] != "tx" else {"t": "txs", "list": [body]}),
               delivery("client", body, paid=True)]
        if body["t"] != "tx":
            out.append(delivery("client", body))
        bad = delivery("client", body, paid=True)
        bad["chain"] = {"mode": "ok", "valid": [True, False, True]}
        out.append(bad)
        return out

    for prior, bodies in ((held_reg, forged), (held_pad, forged_pads), (held_txs, forged_txs)):
        for b in bodies:
            for d in variants(b):
                cs.append(case("forged-update", [copy.deepcopy(d)], store=[copy.deepcopy(prior)]))
                cs.append(case("forged-first-store", [copy.deepcopy(d)], store=[]))
    # paid uploads of every kind whose payment fails, to absent and held addresses
    fails = [{"mode": "rpcerr"}, {"mode": "ok", "valid": [False, True, True]}]
    for body, prior in (({"t": "chunk", "c": {"d": 1}}, held({"t": "chunk", "c": {"d": 1}})), (pad(1, 9), held_pad),
                        (tx(1, 2), held_txs), (reg(1, 1, ops=[op(3, 1)], perm=[2]), held_reg)):
        for ch in fails:
            for store in ([], [prior]):
                d = delivery("client", body, paid=True)
                d["chain"] = ch
                cs.append(case("failing-payment", [copy.deepcopy(d)], store=copy.deepcopy(store)))
        d = delivery("client", body, paid=True)
        d["proof"]["quotes"][1]["sig"] = "junk"
        cs.append(case("failing-payment", [d], store=[]))
        d = delivery("client", body, paid=True)
        d["proof"]["quotes"][2]["age"] = 3_700_000
        cs.append(case("failing-payment", [d], store=[]))
    return cs


def reg_branch_cases():
    """concurrent register branches: the node holds L; the delivered copy shares some of L's operations and carries
    one unknown operation whose position in the ordered op set (entries sort by their bytes 'verif-reg-entry-<id>')
    is below, between and above the shared ones; copies shorter than, as long as and longer than the held one"""
    cs = []
    for L in ([2, 5], [2, 5, 8], [5]):
        prior = held(reg(1, 1, ops=[op(i, 1) for i in L], perm=[2]))
        shared_sets = [[]] + [[x] for x in L] + ([[L[0], L[-1]]] if len(L) > 1 else []) + ([L] if len(L) > 2 else [])
        for new in (1, 3, 6, 9):
            for shared in shared_sets:
                for writer in (1, 2):
                    body = reg(1, 1, ops=[op(i, 1) for i in shared] + [op(new, writer)], perm=[2])
                    for d in (delivery("repl", body), delivery("client", body), delivery("client", body, paid=True)):
                        cs.append(case("reg-branch", [copy.deepcopy(d)], store=[copy.deepcopy(prior)]))
    return cs


# ------------------------------------------------------------------------------------------- long histories on the real store

def long_history_cases():
    """two versions of the same mutable record with many unrelated records in between, against the REAL
    NodeRecordStore (case flag "realstore": PutLocalRecord -> put_verified, acknowledgements -> mark_as_stored,
    queries -> contains / get), so that the first version has left the 25-entry FIFO read cache when the second
    arrives; the store is read back after every delivery"""
    cs = []

    def filler(n, base):
        return [delivery("repl", {"t": "chunk", "c": {"d": base + i}}) for i in range(n)]

    firsts = {
        "pad": (pad(1, 4), [pad(1, 5, data=55), pad(1, 4, data=44), pad(1, 9, sig="junk")]),
        "reg": (reg(1, 1, ops=[op(1, 1)], perm=[2]), [reg(1, 1, ops=[op(2, 2)], perm=[2]), reg(1, 1, ops=[op(1, 1)], perm=[2])]),
        "tx": (tx(1, 1), [tx(1, 2), tx(1, 1)]),
    }
    for fam, (first, seconds) in firsts.items():
        for gap, cache in ((30, None), (27, None), (5, 3), (2, None)):
            for second in seconds:
                for entry in ("repl", "unpaid", "paid"):
                    if fam == "tx" and entry == "unpaid":
                        continue
                    b1 = first if fam != "tx" else {"t": "txs", "list": [first]}
                    d1 = delivery("repl", b1)
                    if entry == "repl":
                        d2 = delivery("repl", second if fam != "tx" else {"t": "txs", "list": [second]})
                    else:
                        d2 = delivery("client", second, paid=(entry == "paid"))
                    # a third version afterwards: progress must still be possible
                    third = {"pad": pad(1, 12), "reg": reg(1, 1, ops=[op(3, 1)], perm=[2]), "tx": {"t": "txs", "list": [tx(1, 3)]}}[fam]
                    ds = [d1] + filler(gap, 100) + [d2] + filler(gap, 200) + [delivery("repl", third)]
                    c = case("long-" + fam, copy.deepcopy(ds))
                    c["realstore"] = True
                    if cache is not None:
                        c["cache"] = cache
                    cs.append(c)
    return cs


# ------------------------------------------------------------------------------------------- re-encoded quote public keys

PUBENCS = ("trailing", "trailing2", "varint", "lenvarint")


def reencoded_pubkey_cases():
    """PaymentQuote.pub_key is not covered by the quote's signature, and the protobuf decoder accepts
    non-canonical encodings of the same key (unknown trailing fields, non-minimal varints): the node's OWN genuine
    quote for address A, with its pub_key bytes re-encoded, presented with data at address B (all payable kinds),
    and -- control -- with data at A"""
    cs = []
    A = {"chunk": {"d": 1}}
    bodies = [{"t": "chunk", "c": {"d": 2}}, pad(1, 1), reg(1, 1), tx(1, 1), {"t": "chunk", "c": {"d": 1}}]
    for enc in PUBENCS:
        for who in ("own", "all", "other"):
            for b in bodies:
                p = good_proof(A)
                for i, q in enumerate(p["quotes"]):
                    if who == "all" or (who == "own" and q["pub"] == 0) or (who == "other" and q["pub"] == 1):
                        q["pubenc"] = enc
                cs.append(case("pubkey-reencoded", [delivery("client", copy.deepcopy(b), paid=True, proof=p)]))
            # honest address, re-encoded key: still a fully valid payment for this very address
            b = {"t": "chunk", "c": {"d": 3}}
            p = good_proof(key_of_body(b))
            p["quotes"][0]["pubenc"] = enc
            cs.append(case("pubkey-reencoded-honest", [delivery("client", b, paid=True, proof=p)]))
    return cs


# ------------------------------------------------------------------------------------------- pending-only payments

def pending_payment_cases():
    """the payForQuotes transaction is only in the mempool: the contract's MINED state says 'not paid', its PENDING
    state says 'paid' (and the reverse, and both); the stub answers eth_call according to the requested block tag"""
    cs = []
    bodies = [{"t": "chunk", "c": {"d": 1}}, pad(1, 1), reg(1, 1), tx(1, 1)]
    states = [([True, False, True], [True, True, True]), ([False, False, False], [True, True, True]),
              ([True, True, True], [True, False, True]), ([True, True, True], [True, True, True]),
              ([False, True, True], [False, True, True])]
    for b in bodies:
        for mined, pend in states:
            for store in ([], "held"):
                d = delivery("client", copy.deepcopy(b), paid=True)
                d["chain"] = {"mode": "ok", "valid": mined, "pending_valid": pend}
                st = []
                if store == "held" and b["t"] != "chunk":
                    st = [held(pad(1, 0, data=3))] if b["t"] == "pad" else ([held(reg(1, 1))] if b["t"] == "reg" else [held({"t": "txs", "list": [tx(1, 9)]})])
                cs.append(case("pending-payment", [d], store=st))
    return cs
