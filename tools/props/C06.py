"""C06 -- register replicas converge and accept only authorised writes
(ant-registers/src/{register,reg_crdt,register_op,permissions}.rs over crdts::MerkleReg)."""
import itertools
import json
from vpc.core import cN, clist

IMPORTS = "Require Import V.model.MerkleReg V.model.Register."
THEOREMS = [
    "constants_pinned",
    "crdt_order_independent", "crdt_dag_is_lfp", "crdt_roots_are_heads", "crdt_read_order_independent",
    "crdt_merge_is_union", "crdt_order_needs_collision_freedom",
    "merge_comm", "merge_assoc", "merge_idem", "merge_different_base", "verified_merge_is_merge",
    "replicas_converge", "deliver_is_union", "replicas_converge_across_limit_refuted",
    "op_accept_iff", "add_op_effect", "unauthorised_rejected", "forged_rejected",
    "foreign_address_rejected", "oversized_rejected",
    "reachable_valid", "reachable_valid_at_limit_refuted", "reachable_accepted_by_peers",
    "verified_register_applies", "merge_all_order_independent", "merge_all_is_union",
    "replicas_present_same_values", "reachable_wf",
]
RULE = ("a case is a whole history over real BLS keys: (accept) one replica, every flavour of operation -- authorised, "
        "unauthorised, junk-signed, signed by another key for the claimed source, signature transplanted from another "
        "node/address, entries of 1023/1024/1025/2000 bytes, foreign meta/owner address -- against open, "
        "writer-restricted, raw (owner not a writer) and badly signed base registers; (converge) 2-4 replicas receiving "
        "one pool of causally chained/concurrent operations in different orders with duplication and partitions healed "
        "by merge/verified_merge; (laws) commutativity/associativity/idempotence squares and different-base merges; "
        "(exhaustive) every delivery order of <=4 (quick) / <=5 (thorough) operations; (limit) 1023/1024/1025 entries "
        "by add_op and by merging across the limit; (tamper) every genuine signed operation re-offered with one or two of "
        "{children, value, address, source} altered and the signature kept; (samevalue) distinct operations carrying the SAME "
        "entry value -- written from scratch, on top of an earlier entry, re-written after an intermediate value (A->B->A), "
        "joined, by a second writer -- in every delivery order through RegisterCrdt.apply_op/merge and through add_op + the "
        "client rebuild after every update; (crdt/crdt_exh) RegisterCrdt.apply_op/merge with random DAGs (40% over a 3-value "
        "alphabet), "
        "dangling children, orphans resolved recursively, every permutation of <=5 nodes, full dag/orphan/read dump "
        "after every step.  distinct/non-trivial = (family, multiset of result codes, #replicas, max set size class, "
        "had orphans, read width)")
ASSUMPTIONS = [
    "BLS signatures are symbolic in the model (Sig pk msg | Junk): EUF-CMA of blsttc is assumed, and the harness "
    "knows which key signed which message because it produced every signature itself",
    "the SHA3-256 node hash is an abstract function H (theorems assume it collision-free on the nodes involved, and "
    "show by a witness that they must); the 64-bit DefaultHasher digest that is actually signed is an abstract "
    "function D64 (forged_rejected assumes the two digests differ; observation O5: it is only 64 bits)",
    "crdts::MerkleReg (third-party) is modelled by hand in coq/model/MerkleReg.v and tied by the crdt-mode "
    "correspondence run (full dag/orphans/read after every step)",
    "BTreeSet/BTreeMap iteration order is the order of the real hashes (rank-compressed) for the MerkleReg and is "
    "supplied by the harness for SignedRegister.ops (verify reports the first failing operation in that order)",
]

MAXE = 1024
MAXN = 1024


# =============================================================================== case builder
class B:
    """Builds one case; keys: 0 owner, 1-2 writers, 3 stranger (by convention of the generators)."""

    def __init__(self, kind, mode="hist", nkeys=4):
        self.c = {"mode": mode, "kind": kind, "nkeys": nkeys, "regs": [], "nodes": [], "ops": [],
                  "replicas": [], "crdts": [], "steps": [], "checks": []}

    def reg(self, meta, owner, perms, sig=None, raw=False):
        i = len(self.c["regs"])
        r = {"meta": meta, "owner": owner, "perms": perms, "sig": sig or {"by": owner, "reg": i}}
        if raw:
            r["raw"] = True
        self.c["regs"].append(r)
        return i

    def node(self, children, val):
        self.c["nodes"].append({"children": children, "val": val})
        return len(self.c["nodes"]) - 1

    def op(self, addr, node, source, sig=None):
        if sig is None:
            sig = {"by": source, "addr": list(addr), "node": node, "source": source}
        self.c["ops"].append({"addr": list(addr), "node": node, "source": source, "sig": sig})
        return len(self.c["ops"]) - 1

    def replica(self, reg):
        self.c["replicas"].append(reg)
        return len(self.c["replicas"]) - 1

    def init_ops(self, slot, ops):
        self.c.setdefault("init_ops", {})[str(slot)] = list(ops)

    def step(self, *s):
        self.c["steps"].append(list(s))

    def check(self, *s):
        self.c["checks"].append(list(s))

    def finish_all(self, idxs=None, client=True):
        for i in (range(len(self.c["replicas"])) if idxs is None else idxs):
            self.step("dump", i)
            self.step("verify", i)
            if client:
                self.step("client", i)
        return self.c


def rand_val(rng, big=False):
    if big:
        return {"rep": [rng.choice([1023, 1024, 1025, 1025, 2000]), rng.randrange(256)]}
    return [rng.randrange(256) for _ in range(rng.choice([0, 1, 1, 2, 3]))]


def rand_dag(b, rng, n, dangling=0.0, width=2, alphabet=None):
    """n nodes; children are earlier nodes (chains, forks, joins), sometimes a hash nobody has.
    With `alphabet` the entry values are drawn from that small set, so distinct nodes (different
    children) carry the same value: concurrent writes of one value, A -> B -> A rewrites."""
    ids = []
    seen = set()

    def key(ch, val):
        return (tuple(sorted(json.dumps(x, sort_keys=True) for x in ch)), tuple(val))

    for k in range(n):
        ch = []
        if ids and rng.random() < 0.75:
            for j in rng.sample(ids, min(len(ids), rng.choice([1, 1, 1, 2, width]))):
                ch.append({"n": j})
        if rng.random() < dangling:
            ch.append({"x": rng.randrange(1, 4)})
        if alphabet is None:
            ids.append(b.node(ch, rand_val(rng) + [k]))
            continue
        val = list(rng.choice(alphabet))
        if key(ch, val) in seen:           # keep the pool's nodes pairwise distinct
            ch = ch + [{"x": 10 + k}]
        seen.add(key(ch, val))
        ids.append(b.node(ch, val))
    return ids


SMALL = [[7], [7], [8], [9]]


def same_value_dag(b, rng, k):
    """k distinct nodes around one repeated value v: written from scratch, on top of an earlier entry p,
    re-written after an intermediate value (v -> w -> v), joined; by construction all different hashes"""
    v, w, pv = [7], [8], [5]
    p = b.node([], pv)
    a1 = b.node([], v)                       # v from scratch
    a2 = b.node([{"n": p}], v)               # v on top of p (concurrent with a1)
    m = b.node([{"n": a1}], w)               # v -> w
    a3 = b.node([{"n": m}], v)               # ... -> v again
    j = b.node([{"n": a2}, {"n": a3}], v)    # join of the two v heads, again v
    a4 = b.node([{"n": p}, {"n": a1}], v)    # v over both roots
    o1 = b.node([{"x": 3}], v)               # v over a parent nobody delivers (stays an orphan)
    shapes = [[a1, a2, p], [a1, m, a3], [p, a1, a2, a4], [a1, m, a3, a2], [p, a2, a1, m, a3],
              [a1, a2, p, j], [a1, m, a3, j, a2], [p, a1, a4, o1], [a1, m, a3, p, a2, j]]
    cands = [x for x in shapes if len(x) <= k] or [shapes[0]]
    pick = list(rng.choice(cands))
    rest = [x for x in (p, a1, a2, m, a3, j, a4, o1) if x not in pick]
    rng.shuffle(rest)
    return (pick + rest)[:k]


def rand_perms(rng):
    return rng.choice([None, None, [], [1], [1, 2], [2, 1, 1]])


def op_flavours(b, rng, addr, other_addrs, nodes, n):
    """a pool of n operations against the register at `addr`, mostly valid."""
    ops = []
    for _ in range(n):
        nd = rng.choice(nodes)
        src = rng.choice([0, 1, 1, 2])
        f = rng.random()
        if f < 0.55:
            ops.append(b.op(addr, nd, src))                                     # honest, maybe not permitted (2)
        elif f < 0.63:
            ops.append(b.op(addr, nd, 3))                                       # stranger, honest signature
        elif f < 0.70:
            ops.append(b.op(addr, nd, src, {"junk": rng.randrange(3)}))         # junk signature
        elif f < 0.76:                                                          # stranger signs, claims a writer
            ops.append(b.op(addr, nd, src, {"by": 3, "addr": list(addr), "node": nd, "source": src}))
        elif f < 0.82:                                                          # signature of another node
            nd2 = rng.choice(nodes)
            ops.append(b.op(addr, nd, src, {"by": src, "addr": list(addr), "node": nd2, "source": src}))
        elif f < 0.88:                                                          # signed for another register
            a2 = rng.choice(other_addrs)
            ops.append(b.op(addr, nd, src, {"by": src, "addr": list(a2), "node": nd, "source": src}))
        elif f < 0.96:                                                          # addressed to another register
            a2 = rng.choice(other_addrs)
            ops.append(b.op(a2, nd, src))
        else:                                                                   # source swapped after signing
            s2 = rng.choice([0, 1, 2, 3])
            ops.append(b.op(addr, nd, s2, {"by": src, "addr": list(addr), "node": nd, "source": src}))
    return ops


# =============================================================================== generators
def gen_accept(rng):
    b = B("accept")
    meta, owner = rng.choice([1, 2]), 0
    addr = (meta, owner)
    perms = rand_perms(rng)
    kind = rng.random()
    if kind < 0.62:
        r = b.reg(meta, owner, perms)
    elif kind < 0.8:
        r = b.reg(meta, owner, rng.choice([[], [], [1], [2, 3]]), raw=True)     # owner not added to the writers
    elif kind < 0.87:
        r = b.reg(meta, owner, perms, sig={"junk": 1})
    elif kind < 0.94:
        r = b.reg(meta, owner, perms, sig={"by": 3, "reg": 0})
    else:
        b.reg(meta, owner, perms)
        r = b.reg(meta, owner, [1, 2, 3], sig={"by": owner, "reg": 0})          # signature over another base
    nodes = rand_dag(b, rng, rng.randrange(2, 7), dangling=0.15)
    for _ in range(rng.choice([0, 1, 1, 2])):
        nodes.append(b.node([], rand_val(rng, big=True)))
    others = [(meta + 1, owner), (meta, 1), (meta + 1, 3)]
    ops = op_flavours(b, rng, addr, others, nodes, rng.randrange(3, 12))
    i = b.replica(r)
    seq = ops + [rng.choice(ops) for _ in range(rng.randrange(0, 4))]
    rng.shuffle(seq)
    for k, o in enumerate(seq):
        b.step("add", i, o)
        if rng.random() < 0.1:
            b.step("verify", i)
    b.step("verify_addr", i, list(addr))
    b.step("verify_addr", i, list(rng.choice(others)))
    return b.finish_all()


def gen_converge(rng, nrep=None, nops=None):
    b = B("converge")
    meta, owner = 1, 0
    addr = (meta, owner)
    r = b.reg(meta, owner, rand_perms(rng))
    nodes = rand_dag(b, rng, rng.randrange(3, 9), dangling=0.1, alphabet=SMALL if rng.random() < 0.4 else None)
    ops = op_flavours(b, rng, addr, [(2, 0), (1, 1)], nodes, nops or rng.randrange(4, 12))
    nrep = nrep or rng.choice([2, 3, 4])
    reps = [b.replica(r) for _ in range(nrep)]
    full = []
    for i in reps:
        mode = rng.random()
        if mode < 0.6 or i == reps[0]:
            seq = ops + [rng.choice(ops) for _ in range(rng.randrange(0, 5))]
            rng.shuffle(seq)
            for o in seq:
                b.step("add", i, o)
            full.append(i)
        else:
            # partition: this replica sees a part directly, the rest arrives by merging a full replica
            part = rng.sample(ops, rng.randrange(0, len(ops)))
            for o in part:
                b.step("add", i, o)
            src = rng.choice(full)
            b.step(rng.choice(["merge", "vmerge"]), i, src)
            full.append(i)
    b.check("converged", full)
    return b.finish_all()


def gen_laws(rng):
    b = B("laws")
    meta, owner = 1, 0
    addr = (meta, owner)
    perms = rand_perms(rng)
    r = b.reg(meta, owner, perms)
    nodes = rand_dag(b, rng, rng.randrange(3, 8))
    ops = op_flavours(b, rng, addr, [(2, 0), (1, 1)], nodes, rng.randrange(4, 10))
    a, bb, c = b.replica(r), b.replica(r), b.replica(r)
    for rep in (a, bb, c):
        for o in rng.sample(ops, rng.randrange(0, len(ops) + 1)):
            b.step("add", rep, o)
    m = rng.choice(["merge", "vmerge"])
    ab, ba, ab_c, bc, a_bc, aa = [b.replica(r) for _ in range(6)]
    b.step("clone", ab, a); b.step(m, ab, bb)
    b.step("clone", ba, bb); b.step(m, ba, a)
    b.check("eq", ab, ba, "merge-not-commutative")
    b.step("clone", ab_c, ab); b.step(m, ab_c, c)
    b.step("clone", bc, bb); b.step(m, bc, c)
    b.step("clone", a_bc, a); b.step(m, a_bc, bc)
    b.check("eq", ab_c, a_bc, "merge-not-associative")
    b.step("clone", aa, a); b.step(m, aa, a)
    b.check("eq", aa, a, "merge-not-idempotent")
    # a different base register (other permissions / other address / same base, other owner signature)
    which = rng.random()
    if which < 0.4:
        r2 = b.reg(meta, owner, [1, 2, 3] if perms != [1, 2, 3] else None)
    elif which < 0.7:
        r2 = b.reg(meta + 1, owner, perms)
    else:
        r2 = b.reg(meta, 1, perms)
    d = b.replica(r2)
    a2 = (b.c["regs"][r2]["meta"], b.c["regs"][r2]["owner"])
    for nd in rng.sample(nodes, min(2, len(nodes))):
        b.step("add", d, b.op(a2, nd, b.c["regs"][r2]["owner"]))
    x = b.replica(r)
    b.step("clone", x, a)
    b.step(rng.choice(["merge", "vmerge"]), x, d)
    b.check("eq", x, a, "different-base-merged")
    b.check("rejected", len(b.c["steps"]) - 1, 5, "different-base-merged")
    return b.finish_all()


def gen_received(rng):
    """registers that arrive ready-made (SignedRegister::new with arbitrary operations), as a node receives
    them: verify / verify_with_address / verified_merge must refuse anything a replica could not have reached"""
    b = B("received")
    meta, owner = 1, 0
    addr = (meta, owner)
    perms = rand_perms(rng)
    r = b.reg(meta, owner, perms)
    bad = rng.random()
    rj = r if bad < 0.75 else b.reg(meta, owner, perms, sig=rng.choice([{"junk": 2}, {"by": 3, "reg": 0}]))
    nodes = rand_dag(b, rng, rng.randrange(2, 7), dangling=0.1)
    if rng.random() < 0.3:
        nodes.append(b.node([], rand_val(rng, big=True)))
    good = [b.op(addr, nd, rng.choice([0, 1])) for nd in rng.sample(nodes, min(len(nodes), 3))]
    mixed = op_flavours(b, rng, addr, [(2, 0), (1, 1)], nodes, rng.randrange(1, 6))
    i, j = b.replica(r), b.replica(rj)
    for o in rng.sample(good, rng.randrange(0, len(good) + 1)):
        b.step("add", i, o)
    b.init_ops(j, rng.sample(good, rng.randrange(0, len(good) + 1)) + (mixed if rng.random() < 0.8 else []))
    b.step("verify", j)
    b.step("verify_addr", j, list(addr))
    b.step("vmerge", i, j)
    b.step("dump", i)
    b.step("verify", i)
    b.step("client", i)
    k = b.replica(r)
    b.step("merge", k, j)                 # the unverified merge takes anything of the same base
    b.step("dump", k)
    b.step("verify", k)
    return b.c


def gen_tamper(rng):
    """field-mutation stream: every genuine signed operation is re-offered with exactly one (or two) of
    {children, value, address, source} altered and the signature bytes kept; restricted registers must
    refuse every variant -- directly, after the genuine one, inside a ready-made register, via verified_merge"""
    b = B("tamper")
    meta, owner = rng.choice([1, 2]), 0
    addr = (meta, owner)
    r = b.reg(meta, owner, rng.choice([[1], [1, 2], []]))
    base_nodes = rand_dag(b, rng, rng.randrange(3, 6), dangling=0.1)
    genuine, variants = [], []
    for _ in range(rng.randrange(1, 4)):
        nd = rng.choice(base_nodes[1:]) if rng.random() < 0.8 else base_nodes[0]
        src = rng.choice([0, 1])
        g = b.op(addr, nd, src)
        genuine.append(g)
        keep = {"by": src, "addr": list(addr), "node": nd, "source": src}
        n = b.c["nodes"][nd]
        ch, val = list(n["children"]), n["val"]
        # children altered, value kept
        alts = []
        others = [{"n": j} for j in base_nodes if j < nd and {"n": j} not in ch]
        if others:
            alts.append(ch + [rng.choice(others)])
        if ch:
            alts.append(ch[1:])
            alts.append([])
        alts.append(ch + [{"x": rng.randrange(4, 8)}])
        nodes_c = [b.node(a, val) for a in alts]
        # value altered, children kept
        nodes_v = [b.node(ch, (val + [7]) if isinstance(val, list) else [1]), b.node(ch, val[:-1] if isinstance(val, list) and val else [9])]
        for nn in nodes_c + nodes_v:
            variants.append(b.op(addr, nn, src, keep))
        # address altered (meta / owner), source altered
        for a2 in [(meta + 1, owner), (meta, 1)]:
            variants.append(b.op(a2, nd, src, keep))
        for s2 in [x for x in (0, 1, 2, 3) if x != src]:
            variants.append(b.op(addr, nd, s2, keep))
        # pairs
        variants.append(b.op((meta, 1), rng.choice(nodes_c), src, keep))
        variants.append(b.op(addr, rng.choice(nodes_c + nodes_v), rng.choice([x for x in (0, 1) if x != src]), keep))
    a, bb, cc, dd = b.replica(r), b.replica(r), b.replica(r), b.replica(r)
    seq = genuine + variants
    if rng.random() < 0.5:
        rng.shuffle(seq)
    for o in seq:
        b.step("add", a, o)
    for o in rng.sample(variants, min(len(variants), 8)):
        b.step("add", bb, o)
    b.step(rng.choice(["merge", "vmerge"]), cc, a)
    b.init_ops(dd, genuine + rng.sample(variants, rng.randrange(1, 4)))
    b.step("verify", dd)
    b.step("vmerge", cc, dd)
    b.check("converged", [a, cc])
    return b.finish_all()


def gen_exhaustive(rng, k):
    """every delivery order of k operations (one replica per order), plus one order with duplication"""
    b = B("exhaustive")
    meta, owner = 1, 0
    addr = (meta, owner)
    r = b.reg(meta, owner, rng.choice([None, [1], [1, 2]]))
    nodes = rand_dag(b, rng, k, dangling=0.1, alphabet=SMALL if rng.random() < 0.4 else None)
    ops = op_flavours(b, rng, addr, [(2, 0)], nodes, k)
    reps = []
    for perm in itertools.permutations(ops):
        i = b.replica(r)
        reps.append(i)
        for o in perm:
            b.step("add", i, o)
    i = b.replica(r)
    reps.append(i)
    for o in ops + ops[::-1]:
        b.step("add", i, o)
    b.check("converged", reps)
    for i in reps:
        b.step("dump", i)
    for i in reps[:2] + reps[-1:]:
        b.step("verify", i)
        b.step("client", i)
    return b.c


def gen_samevalue(rng, k, mode):
    """distinct operations carrying the SAME entry value (same value under different parents, by different
    writers, re-written after an intermediate value), every delivery order: through RegisterCrdt::apply_op
    (mode crdt) and through SignedRegister::add_op followed by the client's rebuild (mode hist).  Replicas
    holding the same operations must present the same read(), and read() must be the heads of the DAG."""
    addr = (1, 0)
    if mode == "crdt":
        b = B("samevalue_crdt", mode="crdt")
        nodes = same_value_dag(b, rng, k) if rng.random() < 0.7 else rand_dag(b, rng, k, dangling=0.1, width=3, alphabet=SMALL)
        ops = [b.op(addr, nd, rng.choice([0, 1])) for nd in nodes]
        if rng.random() < 0.5 and k < 5:     # the same node written by a second writer: another op, same node
            ops.append(b.op(addr, rng.choice(nodes), 3))
        reps = []
        for perm in itertools.permutations(ops):
            i = len(b.c["crdts"])
            b.c["crdts"].append(list(addr))
            reps.append(i)
            for o in perm:
                b.step("apply", i, o)
        # and two replicas that each saw a part and then merged
        x, y = len(b.c["crdts"]), len(b.c["crdts"]) + 1
        b.c["crdts"] += [list(addr), list(addr)]
        cut = rng.randrange(1, len(ops))
        for o in ops[:cut]:
            b.step("apply", x, o)
        for o in reversed(ops[cut:]):
            b.step("apply", y, o)
        b.step("cmerge", x, y)
        b.step("cmerge", y, x)
        b.check("cconverged", reps + [x, y])
        return b.c
    b = B("samevalue_hist")
    r = b.reg(1, 0, rng.choice([None, [1], [1, 2]]))
    nodes = same_value_dag(b, rng, k) if rng.random() < 0.7 else rand_dag(b, rng, k, dangling=0.1, width=3, alphabet=SMALL)
    ops = [b.op(addr, nd, rng.choice([0, 1])) for nd in nodes]
    reps = []
    for perm in itertools.permutations(ops):
        i = b.replica(r)
        reps.append(i)
        for o in perm:
            b.step("add", i, o)
    # growing prefixes: the client's view after every update of one replica (A, then A->B, then A->B->A ...)
    g = b.replica(r)
    for o in ops:
        b.step("add", g, o)
        b.step("verify", g)
        b.step("client", g)
    b.check("converged", reps)
    for i in reps:
        b.step("dump", i)
        b.step("verify", i)
        b.step("client", i)
    return b.c


def gen_limit(rng, variant):
    b = B("limit")
    meta, owner = 1, 0
    addr = (meta, owner)
    restricted = variant == "writers"
    r = b.reg(meta, owner, [1] if restricted else None)
    total = MAXN + 3
    prev = None
    nodes = []
    for k in range(total):
        ch = [{"n": prev}] if (prev is not None and k % 3 == 0) else []
        prev = b.node(ch, [k // 256, k % 256])
        nodes.append(prev)
    ops = [b.op(addr, nd, rng.choice([0, 1]) if restricted else rng.choice([0, 1, 3])) for nd in nodes]
    if variant in ("add", "writers"):
        i = b.replica(r)
        for o in ops[:MAXN - 1]:
            b.step("add", i, o)
        b.step("verify", i)                       # 1023 entries: fine
        b.step("add", i, ops[MAXN - 2])           # a duplicate below the limit
        b.step("add", i, ops[MAXN - 1])           # the 1024th entry is accepted ...
        b.step("verify", i)                       # ... and the register no longer verifies (F7)
        b.step("add", i, ops[MAXN])               # 1025th refused
        b.step("add", i, ops[0])                  # so is a duplicate
        j = b.replica(r)
        b.step("add", j, ops[MAXN + 1])
        b.step("vmerge", j, i)                    # peers refuse the state the first replica reached
        b.step("merge", j, i)                     # the unverified merge takes it: 1025 entries
        b.step("verify", j)
        b.step("dump", i)
        b.step("dump", j)
        b.step("client", i)
        return b.c
    if variant == "merge":
        i, j = b.replica(r), b.replica(r)
        half = 600
        for o in ops[:half]:
            b.step("add", i, o)
        for o in ops[total - half:]:
            b.step("add", j, o)
        b.step("verify", i)
        b.step("verify", j)
        b.step("vmerge", i, j)                    # two valid replicas merge into one nobody accepts
        b.step("verify", i)
        b.step("dump", i)
        b.step("client", i)
        return b.c
    # order: the same 1026 operations in two orders leave two different registers behind
    i, j = b.replica(r), b.replica(r)
    seq = ops[:MAXN + 2]
    for o in seq:
        b.step("add", i, o)
    for o in reversed(seq):
        b.step("add", j, o)
    b.check("converged", [i, j])
    b.step("dump", i)
    b.step("dump", j)
    return b.c


def gen_crdt(rng, exhaustive_k=None):
    b = B("crdt_exh" if exhaustive_k else "crdt", mode="crdt")
    addr = (1, 0)
    alpha = SMALL if rng.random() < 0.4 else None      # repeated entry values across distinct nodes
    if exhaustive_k:
        nodes = rand_dag(b, rng, exhaustive_k, dangling=0.12, width=3, alphabet=alpha)
    else:
        nodes = rand_dag(b, rng, rng.randrange(3, 12), dangling=0.12, width=3, alphabet=alpha)
    ops = [b.op(addr, nd, rng.choice([0, 1, 3]), rng.choice([None, None, {"junk": 0}])) for nd in nodes]
    foreign = [b.op((2, 0), nodes[0], 0), b.op((1, 1), nodes[-1], 1), b.op((1, 3), nodes[0], 3, {"junk": 1})]
    reps = []
    if exhaustive_k:
        for perm in itertools.permutations(ops):
            i = len(b.c["crdts"])
            b.c["crdts"].append(list(addr))
            reps.append(i)
            for o in perm:
                b.step("apply", i, o)
        b.check("cconverged", reps)
        return b.c
    nrep = rng.choice([2, 3, 4])
    full = []
    for i in range(nrep):
        b.c["crdts"].append(list(addr))
        if i == 0 or rng.random() < 0.6:
            seq = ops + [rng.choice(ops) for _ in range(rng.randrange(0, 4))]
            if rng.random() < 0.5:
                seq.reverse()          # parents first: everything is an orphan until the end
            else:
                rng.shuffle(seq)
            for o in seq:
                b.step("apply", i, o)
                if rng.random() < 0.15:
                    b.step("apply", i, rng.choice(foreign))
            full.append(i)
        else:
            for o in rng.sample(ops, rng.randrange(0, len(ops))):
                b.step("apply", i, o)
            b.step("cmerge", i, rng.choice(full))
            full.append(i)
    b.check("cconverged", full)
    return b.c


def gen(ctx):
    rng = ctx.rng
    quick = ctx.tier == "quick"
    cases = []
    for _ in range(60 if quick else 600):
        cases.append(gen_accept(rng))
    for _ in range(40 if quick else 400):
        cases.append(gen_converge(rng))
    for _ in range(30 if quick else 300):
        cases.append(gen_laws(rng))
    for _ in range(40 if quick else 400):
        cases.append(gen_received(rng))
    for _ in range(40 if quick else 400):
        cases.append(gen_tamper(rng))
    for _ in range(3 if quick else 12):
        cases.append(gen_exhaustive(rng, 3))
    for _ in range(2 if quick else 10):
        cases.append(gen_exhaustive(rng, 4))
    if not quick:
        for _ in range(3):
            cases.append(gen_exhaustive(rng, 5))
    for v in (["add", "merge"] if quick else ["add", "writers", "merge", "order", "add"]):
        cases.append(gen_limit(rng, v))
    for _ in range(8 if quick else 40):              # 8 x 24(+) orders quick; thorough adds all orders of 5
        cases.append(gen_samevalue(rng, 4, "crdt"))
    for _ in range(6 if quick else 40):
        cases.append(gen_samevalue(rng, 3, "crdt"))
    for _ in range(1 if quick else 12):
        cases.append(gen_samevalue(rng, 5, "crdt"))
    for _ in range(4 if quick else 30):
        cases.append(gen_samevalue(rng, 3, "hist"))
    for _ in range(2 if quick else 20):
        cases.append(gen_samevalue(rng, 4, "hist"))
    for _ in range(80 if quick else 1200):
        cases.append(gen_crdt(rng))
    for _ in range(4 if quick else 30):
        cases.append(gen_crdt(rng, 4))
    for _ in range(1 if quick else 12):
        cases.append(gen_crdt(rng, 5))
    return cases


# =============================================================================== oracle
def writers_of(reg):
    if reg["perms"] is None:
        return None
    w = set(reg["perms"])
    if not reg.get("raw"):
        w.add(reg["owner"])
    return w


def op_identity(c, i):
    o = c["ops"][i]
    s = o["sig"]
    sk = ("junk", s["junk"]) if "junk" in s else (s["by"], tuple(s["addr"]), node_identity(c, s["node"]), s["source"])
    return (tuple(o["addr"]), node_identity(c, o["node"]), o["source"], sk)


def node_identity(c, j):
    n = c["nodes"][j]
    ch = frozenset(("x", x["x"]) if "x" in x else ("n", node_identity(c, x["n"])) for x in n["children"])
    v = n["val"]
    return (ch, tuple(v) if isinstance(v, list) else ("rep",) + tuple(v["rep"]))


def val_len(c, j):
    v = c["nodes"][j]["val"]
    return len(v) if isinstance(v, list) else v["rep"][0]


def honest_sig(o):
    s = o["sig"]
    return "junk" not in s and s["by"] == o["source"] and s["source"] == o["source"] and \
        list(s["addr"]) == list(o["addr"]) and s["node"] == o["node"]


def op_defect(c, reg, i):
    """None if operation i is one the register `reg` must accept; else the class of what is wrong."""
    o = c["ops"][i]
    if list(o["addr"]) != [reg["meta"], reg["owner"]]:
        return "foreign-address-accepted"
    if val_len(c, o["node"]) > MAXE:
        return "oversized-accepted"
    w = writers_of(reg)
    if w is None:
        return None
    if o["source"] not in w:
        return "unauthorised-accepted"
    if not honest_sig(o) and not same_sig_as_honest(c, o):
        return "forged-accepted"
    return None


def same_sig_as_honest(c, o):
    """a signature spec naming another node index with the same content is still the honest one"""
    s = o["sig"]
    return "junk" not in s and s["by"] == o["source"] and s["source"] == o["source"] and \
        list(s["addr"]) == list(o["addr"]) and node_identity(c, s["node"]) == node_identity(c, o["node"])


def lfp_read(nodes):
    """spec of read(): nodes = {hash: set(child hashes)}; the heads of the part of the DAG whose
    ancestors are all present"""
    dag = set()
    changed = True
    while changed:
        changed = False
        for h, ch in nodes.items():
            if h not in dag and ch <= dag:
                dag.add(h)
                changed = True
    kids = set()
    for h in dag:
        kids |= nodes[h]
    return dag, sorted(dag - kids)


def node_hash_sets(c, o):
    hs = o["hashes"]
    out = {}
    for j, n in enumerate(c["nodes"]):
        out[j] = (hs[j], set(o["dangling"][str(x["x"])] if "x" in x else hs[x["n"]] for x in n["children"]))
    return out


def oracle(c, o):
    if "panic" in o:
        return [("panic", "the register code panicked: %s" % o["panic"])]
    if "error" in o:
        return [("harness", o["error"])]
    v = []
    steps, outs = c["steps"], o["steps"]
    nh = node_hash_sets(c, o)
    ident = {i: op_identity(c, i) for i in range(len(c["ops"]))}
    if c["mode"] == "crdt":
        n = len(c["crdts"])
        got = [set() for _ in range(n)]       # node indices delivered (by hash)
        last = [None] * n
        for s, r in zip(steps, outs):
            i = s[1]
            if s[0] == "apply":
                op = c["ops"][s[2]]
                if list(op["addr"]) != c["crdts"][i]:
                    if r["c"] != 1 or (last[i] is not None and (r["dag"], r["orph"], r["read"]) != last[i]):
                        v.append(("crdt-foreign-address-applied", "apply_op took an operation addressed to another register: %s" % r))
                else:
                    if r["c"] != 0:
                        v.append(("crdt-op-refused", "apply_op refused an operation for its own address: %s" % r))
                    got[i].add(op["node"])
            else:
                got[i] |= got[s[2]]
            last[i] = (r["dag"], r["orph"], r["read"])
            if r.get("size") != len(r["dag"]) + len(r["orph"]):
                v.append(("crdt-size-wrong", "size() = %s with %d dag nodes and %d orphans" % (r.get("size"), len(r["dag"]), len(r["orph"]))))
            nodes = {nh[j][0]: nh[j][1] for j in got[i]}
            dag, heads = lfp_read(nodes)
            if sorted(dag) != r["dag"] or sorted(set(nodes) - dag) != r["orph"] or heads != [x[0] for x in r["read"]]:
                v.append(("crdt-state-wrong", "after %s: dag/orphans/read are not the ancestor-closed part of the delivered "
                          "nodes, the rest, and its heads: dag=%d orph=%d read=%s expected dag=%d orph=%d read=%s"
                          % (s, len(r["dag"]), len(r["orph"]), [x[0][:8] for x in r["read"]], len(dag),
                             len(set(nodes) - dag), [h[:8] for h in heads])))
            vals = {nh[j][0]: c["nodes"][j]["val"] for j in got[i]}
            for h, val in r["read"]:
                want = vals.get(h)
                want = want if isinstance(want, list) else ([want["rep"][1]] * want["rep"][0] if want else None)
                if want != val:
                    v.append(("crdt-read-value", "read() returned a value that is not the entry of that node"))
        for chk in c["checks"]:
            if chk[0] == "cconverged":
                finals = [(last[i], frozenset(nh[j][0] for j in got[i])) for i in chk[1] if last[i] is not None]
                base = finals[0]
                for f in finals[1:]:
                    if f[1] == base[1] and f[0] != base[0]:
                        v.append(("crdt-order-dependent", "two replicas that received the same nodes in different orders "
                                  "differ: read %s vs %s" % ([x[0][:8] for x in base[0][2]], [x[0][:8] for x in f[0][2]])))
        return v

    regs = c["regs"]
    nrep = len(c["replicas"])
    regof = list(c["replicas"])            # base register index of each slot
    S = [set() for _ in range(nrep)]       # operation identities the replica must hold
    hit_limit = [False] * nrep
    seen = [set() for _ in range(nrep)]    # identities ever delivered (directly or by merge) and acceptable
    dumps = {}
    canon = {}
    for i in range(len(c["ops"])):
        canon.setdefault(ident[i], i)

    def sound_base(i):
        r = regs[regof[i]]
        s = r["sig"]
        return "junk" not in s and s["by"] == r["owner"] and \
            base_identity(regs[s["reg"]]) == base_identity(r)

    def base_identity(r):
        w = writers_of(r)
        return (r["meta"], r["owner"], None if w is None else frozenset(w))

    for slot, l in c.get("init_ops", {}).items():
        S[int(slot)] = set(ident[x] for x in l)
        seen[int(slot)] = set(ident[x] for x in l if op_defect(c, regs[regof[int(slot)]], x) is None)

    def defective(i):
        return any(op_defect(c, regs[regof[i]], canon[x]) is not None for x in S[i])

    for k, (s, r) in enumerate(zip(steps, outs)):
        kind, i = s[0], s[1]
        if kind == "add":
            reg = regs[regof[i]]
            d = op_defect(c, reg, s[2])
            if r["c"] == 0:
                if d is not None:
                    v.append((d, "step %d: add_op accepted operation %d (%s) into a register with permissions %s at %s"
                              % (k, s[2], c["ops"][s[2]], reg["perms"], [reg["meta"], reg["owner"]])))
                if len(S[i]) >= MAXN:
                    v.append(("over-limit-accepted", "step %d: add_op accepted an entry into a register holding %d" % (k, len(S[i]))))
                S[i].add(ident[s[2]])
            else:
                if r["c"] == 4:
                    hit_limit[i] = True
                if d is None and not (r["c"] == 4 and len(S[i]) >= MAXN):
                    v.append(("valid-op-rejected", "step %d: add_op refused (code %d) an operation its register must accept: %s"
                              % (k, r["c"], c["ops"][s[2]])))
            if d is None:
                seen[i].add(ident[s[2]])
        elif kind in ("merge", "vmerge"):
            j = s[2]
            same = base_identity(regs[regof[i]]) == base_identity(regs[regof[j]])
            if r["c"] == 0:
                if not same:
                    v.append(("different-base-merged", "step %d: %s of a register with a different base succeeded" % (k, kind)))
                if kind == "vmerge" and (not sound_base(j) or defective(j)):
                    v.append(("unverified-merged", "step %d: verified_merge took over a register that is not owner-signed or "
                              "holds operations its base does not authorise" % k))
                S[i] |= S[j]
            elif same and r["c"] == 5:
                v.append(("same-base-not-merged", "step %d: %s of two replicas of one base register was refused" % (k, kind)))
            elif same and kind == "vmerge" and sound_base(j) and not defective(j):
                # a peer refuses a state another replica reached through accepted operations and merges
                if r["c"] == 4 and len(S[j]) >= MAXN:
                    v.append(("entry-limit", "step %d: verified_merge refuses a reachable replica state holding %d entries" % (k, len(S[j]))))
                else:
                    v.append(("reachable-invalid", "step %d: verified_merge refuses (code %d) a reachable replica state" % (k, r["c"])))
            if same:
                seen[i] |= seen[j]
                hit_limit[i] = hit_limit[i] or hit_limit[j]
        elif kind == "clone":
            j = s[2]
            S[i], seen[i], hit_limit[i], regof[i] = set(S[j]), set(seen[j]), hit_limit[j], regof[j]
        elif kind in ("dump", "verify", "verify_addr", "client"):
            order = r["order"]
            held = set(ident[x] for x in order if x >= 0)
            if -1 in order or held != S[i] or len(order) != len(S[i]):
                v.append(("ops-set-wrong", "step %d: the replica holds %d operations, the accepted adds and merges give %d"
                          % (k, len(order), len(S[i]))))
            if kind == "dump":
                dumps[i] = frozenset(held)
            if kind in ("verify", "verify_addr") and sound_base(i) and defective(i) and r["c"] == 0:
                v.append(("invalid-register-verified", "step %d: verify() accepted a register holding an operation its base "
                          "does not authorise (or an oversized entry)" % k))
            if kind in ("verify", "verify_addr") and sound_base(i) and not defective(i):
                want_ok = kind == "verify" or s[2] == [regs[regof[i]]["meta"], regs[regof[i]]["owner"]]
                if want_ok and r["c"] != 0:
                    if r["c"] == 4 and len(S[i]) >= MAXN:
                        v.append(("entry-limit", "step %d: a replica state reached through accepted operations and merges "
                                  "(%d entries) is rejected by verify()" % (k, len(S[i]))))
                    else:
                        v.append(("reachable-invalid", "step %d: verify() rejects (code %d) a state reached through accepted "
                                  "operations and merges" % (k, r["c"])))
                if not want_ok and r["c"] == 0:
                    v.append(("wrong-address-verified", "step %d: verify_with_address accepted another address" % k))
            if kind in ("verify", "verify_addr") and not sound_base(i) and r["c"] == 0:
                v.append(("unsigned-base-verified", "step %d: verify() accepted a register whose base is not signed by its owner" % k))
            if kind == "client":
                vr = [x for x, st in zip(outs[:k], steps[:k]) if st[0] == "verify" and st[1] == i]
                verified = bool(vr) and vr[-1]["c"] == 0 and steps[k - 1][0] == "verify" and steps[k - 1][1] == i
                if r["c"] != 0 and verified:
                    v.append(("verified-register-unreadable", "step %d: a register that passed verify() cannot be rebuilt by "
                              "the client (apply_op code %d)" % (k, r["c"])))
                if r["c"] == 0:
                    nodes = {}
                    for x in order:
                        if x >= 0:
                            h, ch = nh[c["ops"][x]["node"]]
                            nodes[h] = ch
                    dag, heads = lfp_read(nodes)
                    if heads != [x[0] for x in r["read"]]:
                        v.append(("read-wrong", "step %d: read() is not the set of heads of the ancestor-closed DAG" % k))
    for chk in c["checks"]:
        if chk[0] == "eq":
            a, b_, cls = chk[1], chk[2], chk[3]
            if a in dumps and b_ in dumps and dumps[a] != dumps[b_]:
                v.append((cls, "replicas %d and %d should hold the same operations: %d vs %d" % (a, b_, len(dumps[a]), len(dumps[b_]))))
        elif chk[0] == "rejected":
            r = outs[chk[1]]
            if r["c"] != chk[2]:
                v.append((chk[3], "step %d should have been refused with code %d, got %d" % (chk[1], chk[2], r["c"])))
        elif chk[0] == "converged":
            # replicas that received the same set of valid operations hold identical operation sets
            groups = {}
            for i in chk[1]:
                if i in dumps:
                    groups.setdefault(frozenset(seen[i]), []).append(i)
            for recv, members in groups.items():
                for m in members[1:]:
                    if dumps[m] != dumps[members[0]]:
                        if hit_limit[m] or hit_limit[members[0]]:
                            v.append(("entry-limit", "replicas %d and %d received the same %d valid operations but hold different "
                                      "sets after the entry limit was hit" % (members[0], m, len(recv))))
                        else:
                            v.append(("replicas-diverge", "replicas %d and %d received the same %d valid operations but hold "
                                      "%d vs %d" % (members[0], m, len(recv), len(dumps[members[0]]), len(dumps[m]))))
                if len(recv) < MAXN:
                    for m in members:
                        if dumps[m] != recv:
                            v.append(("replicas-diverge", "replica %d does not hold exactly the valid operations it received "
                                      "(%d held, %d received)" % (m, len(dumps[m]), len(recv))))
    return v


# =============================================================================== model agreement
def ranks(o):
    allh = sorted(set(o["hashes"]) | set(o["dangling"].values()))
    return {h: k + 1 for k, h in enumerate(allh)}


def c_val(v):
    if isinstance(v, list):
        return clist([cN(x) for x in v])
    return "(rep %d %s)" % (v["rep"][0], cN(v["rep"][1]))


def c_addr(a):
    return "(mkaddr %s %s)" % (cN(a[0]), cN(a[1]))


def c_res(r):
    c, x = r["c"], r["x"]
    return {0: "Ok", 1: "(Err EAddrMismatch)", 2: "(Err (EEntryTooBig %s))" % cN(x), 3: "(Err (EAccessDenied %s))" % cN(x),
            4: "(Err (ETooManyEntries %s))" % cN(x), 5: "(Err EDifferentBase)", 6: "(Err EInvalidSignature)",
            7: "(Err EInvalidRegAddr)"}.get(c, "(Err (EEntryTooBig 99999999))")


def c_read(rd, rk, c, o):
    byhash = {}
    for j, h in enumerate(o["hashes"]):
        byhash.setdefault(h, j)
    out = []
    for h, val in rd:
        j = byhash.get(h)
        if j is not None and isinstance(c["nodes"][j]["val"], dict) and val == [c["nodes"][j]["val"]["rep"][1]] * c["nodes"][j]["val"]["rep"][0]:
            cv = c_val(c["nodes"][j]["val"])
        else:
            cv = c_val(val)
        out.append("(%s, %s)" % (cN(rk.get(h, 0)), cv))
    return clist(out)


def c_perms(p):
    return "Anyone" if p is None else "(new_with %s)" % clist([cN(k) for k in p])


def c_base(r):
    if r.get("raw"):
        return "(mkreg (mkaddr %s %s) %s)" % (cN(r["meta"]), cN(r["owner"]), c_perms(r["perms"]))
    return "(register_new %s %s %s)" % (cN(r["owner"]), cN(r["meta"]), c_perms(r["perms"]))


def model_term(c, o, diag=False):
    if "panic" in o or "error" in o:
        return "false"
    rk = ranks(o)
    hs = o["hashes"]
    nodes = []
    for j, n in enumerate(c["nodes"]):
        ch = sorted(set(rk[o["dangling"][str(x["x"])]] if "x" in x else rk[hs[x["n"]]] for x in n["children"]))
        nodes.append("mknode %s %s" % (clist([cN(x) for x in ch]), c_val(n["val"])))
    t = "let NS := %s in\n let HT := table_hash (combine NS %s) in\n let nd := pick node0 NS in\n" % (
        clist(nodes), clist([cN(rk[h]) for h in hs]))
    ops = []
    for op in c["ops"]:
        s = op["sig"]
        if "junk" in s:
            sg = "(Junk %s)" % cN(s["junk"])
        else:
            sg = "(Sig %s (MOp (sym_d64 %s (HT (nd %s)) %s)))" % (cN(s["by"]), c_addr(s["addr"]), cN(s["node"]), cN(s["source"]))
        ops.append("mkop %s (nd %s) %s %s" % (c_addr(op["addr"]), cN(op["node"]), cN(op["source"]), sg))
    t += " let PS := %s in\n let po := pick op0 PS in\n" % clist(ops)

    def order(r):
        return clist(["po %s" % cN(x) if x >= 0 else "op0" for x in r.get("order", [])])

    if c["mode"] == "crdt":
        steps, obs = [], []
        for s, r in zip(c["steps"], o["steps"]):
            steps.append("CApply %d (po %s)" % (s[1], cN(s[2])) if s[0] == "apply" else "CMerge %d %d" % (s[1], s[2]))
            obs.append("mkcobs %s %s %s %s" % (c_res(r), clist([cN(rk[h]) for h in r["dag"]]),
                                              clist([cN(rk[h]) for h in r["orph"]]), c_read(r["read"], rk, c, o)))
        t += " %s HT %s %s %s%s" % ("first_bad_chist" if diag else "agree_chist",
                                    clist(["crdt_new %s" % c_addr(a) for a in c["crdts"]]), clist(steps), clist(obs), " 0" if diag else "")
        return "(" + t + ")"
    bases = [c_base(r) for r in c["regs"]]
    regs = []
    for i, r in enumerate(c["regs"]):
        s = r["sig"]
        sg = "(Junk %s)" % cN(s["junk"]) if "junk" in s else "(Sig %s (MReg %s))" % (cN(s["by"]), bases[s["reg"]])
        regs.append("mksreg %s %s []" % (bases[i], sg))
    t += " let RS := %s in\n" % clist(regs)
    def init_term(k, i):
        l = c.get("init_ops", {}).get(str(k))
        if l is None:
            return "nth %d RS dummy_sreg" % i
        return "with_ops (nth %d RS dummy_sreg) (oset %s)" % (i, clist(["po %s" % cN(x) for x in l]))

    steps, obs = [], []
    for s, r in zip(c["steps"], o["steps"]):
        k = s[0]
        if k == "add":
            steps.append("SAdd %d (po %s)" % (s[1], cN(s[2])))
        elif k == "merge":
            steps.append("SMerge %d %d" % (s[1], s[2]))
        elif k == "vmerge":
            steps.append("SVMerge %d %d" % (s[1], s[2]))
        elif k == "clone":
            steps.append("SClone %d %d" % (s[1], s[2]))
        elif k == "verify":
            steps.append("SVerify %d" % s[1])
        elif k == "verify_addr":
            steps.append("SVerifyAddr %d %s" % (s[1], c_addr(s[2])))
        elif k == "dump":
            steps.append("SDump %d" % s[1])
        elif k == "client":
            steps.append("SClient %d" % s[1])
        obs.append("mkobs %s %s %s" % (c_res(r), order(r), c_read(r.get("read", []), rk, c, o)))
    t += " %s HT sym_d64 %s\n %s\n %s%s" % (
        "first_bad_hist" if diag else "agree_hist",
        clist([init_term(k, i) for k, i in enumerate(c["replicas"])]), clist(steps), clist(obs), " 0" if diag else "")
    return "(" + t + ")"


def show(c, o):
    """index of the first step on which the model disagrees with the implementation"""
    return model_term(c, o, diag=True)


def nontrivial(c, o):
    if "steps" not in o:
        return None
    codes = {}
    big = 0
    orph = False
    width = 0
    for r in o["steps"]:
        codes[r["c"]] = codes.get(r["c"], 0) + 1
        big = max(big, len(r.get("order", [])), len(r.get("dag", [])))
        orph = orph or bool(r.get("orph"))
        width = max(width, len(r.get("read", [])))
    return (c["kind"], tuple(sorted((k, min(v, 6)) for k, v in codes.items())), len(c["replicas"]) + len(c["crdts"]),
            big.bit_length(), orph, min(width, 4))


TRUSTED = [
    "models coq/model/Register.v and coq/model/MerkleReg.v (hand-written) tied to ant-registers and crdts-7.3.2 by "
    "this run's correspondence (result codes of every step, operation sets, verify(), the client's rebuilt "
    "read(), and the MerkleReg's dag/orphans/read after every apply/merge)",
    "translator tools/extract_consts.py: max_reg_entry_size, max_reg_num_entries re-read from register.rs",
    "harness/crates/c06 (Rust driver, serde mirror for forged operations), tools/props/C06.py (generator, oracle)",
    "symbolic BLS signatures; abstract collision-free SHA3 node hash; abstract 64-bit signing digest"]
RELATION = ("SignedRegister::{add_op,merge,verified_merge,verify,verify_with_address,ops} / "
            "RegisterCrdt::{apply_op,merge,read} == Register.{add_op,merge,verified_merge_in,verify_in,"
            "client_build} / MerkleReg.{mr_apply,mr_merge,mr_read} step by step")


def _raced(ctx, since):
    """tie-breaks that only say another check, running at the same time, regenerated coq/gen/Consts.v and
    rebuilt its .vo between this run's proof build and its case evaluation (coqc then refuses the stale
    model library), or is in the middle of adding its own harness crate to the cargo workspace.  Races
    between concurrent runs, not findings: rebuild and repeat that part."""
    return [t for t in ctx.tie_breaks[since:]
            if (t[0] == "model-eval" and "inconsistent assumptions" in str(t[2])) or
               (t[0] == "harness-build" and "failed to load manifest for workspace member" in str(t[2])
                and "crates/c06`" not in str(t[2]))]


def run(ctx):
    import copy
    import time
    ctx.regen_consts()
    ctx.prove("props/C06.v", THEOREMS, extra_trusted=TRUSTED)
    binary = None
    for attempt in range(4):
        n0 = len(ctx.tie_breaks)
        binary = ctx.cargo_build("c06")
        if binary is not None or not _raced(ctx, n0) or attempt == 3:
            break
        del ctx.tie_breaks[n0:]
        time.sleep(30)
    cases = ctx.corpus() + ([] if ctx.replay else gen(ctx))
    # evaluated in chunks so that a concurrent rebuild of the model libraries costs one chunk, not the run
    size = 250
    for k in range(0, len(cases), size):
        chunk = cases[k:k + size]
        for attempt in range(5):
            snap = (list(ctx.impl_viol), list(ctx.tie_breaks), copy.deepcopy(ctx.cov), set(ctx._nontrivial))
            ctx.pipeline(chunk, binary, oracle, model_term, IMPORTS, nontrivial=nontrivial, show=show,
                         shard_size=12, relation=RELATION)
            if not _raced(ctx, len(snap[1])) or attempt == 4:
                break
            ctx.log("a concurrent run rebuilt the model libraries during evaluation; rebuilding and repeating this chunk")
            ctx.impl_viol, ctx.tie_breaks, ctx.cov, ctx._nontrivial = snap[0], snap[1], snap[2], snap[3]
            ctx.regen_consts()
            if not ctx.prove("props/C06.v", THEOREMS, extra_trusted=TRUSTED):
                return
