"""C15 -- client reads are authenticated against the requested address
(autonomi client/data/public.rs chunk_get, client/utils.rs, client/vault.rs; ant-protocol scratchpad.rs).

The harness builds the real autonomi `Client` around a harness-driven `Network` and answers every
`GetNetworkRecord` from the case's script: an arbitrary Ok(record) / Err(GetRecordError), including
SplitRecord maps.  The oracle states the property on what the real client returned, using python's
own SHA3-256 and the generator's knowledge of which key signed what; the model terms run
coq/model/ClientRead.v (and SelfEnc.v for whole-data reads) on the same replies."""
import hashlib
import itertools

from vpc.core import cN, cstr, cbytes, clist, copt, cbool, cpair

IMPORTS = "Require Import V.model.ClientRead V.model.SelfEnc."
THEOREMS = ["chunk_get_authentic", "chunk_get_honest_accepted", "vault_signed_by_owner",
            "vault_highest_valid_counter", "vault_fails_without_authentic", "vault_honest_accepted",
            "vault_split_complete", "fetch_and_decrypt_authentic", "validly_signed_meaning",
            "data_get_public_unforgeable", "injective_hash_exists", "client_kind_tags",
            "error_carried_record_never_returned", "chunk_get_vs_record_key_unsound"]
RULE = ("chunk_get: every entry of a reply catalogue (right content, other chunk, every kind tag 0..7 and "
        "invalid tags, junk / pad bodies, truncated values, the five network errors, split maps of chunks and "
        "of pads) for several requested contents; vault reads: every entry of a 16-entry pad catalogue "
        "(authentic at several counters, forged = signed by another key, foreign-owned but encrypted to the "
        "owner, unsigned, signature over another counter / other data, authentic but encrypted elsewhere or "
        "not a ciphertext, wrong/invalid header kinds, junk and chunk bodies) as Ok reply and as SplitRecord "
        "maps; every returned record additionally keyed with the requested key, with the key its (substituted) "
        "content would honestly live under, or with an unrelated key -- for chunk reads, data-map reads and vault "
        "reads, on the Ok arm and on the elements of SplitRecord; every version also planted inside the error "
        "variants that carry a record (NotEnoughCopies, RecordDoesNotMatch); owner-signed versions reaching the "
        "client unmerged with every relation between counter, data_encoding and ciphertext order; a kad-level family "
        "where the holders' answers arrive as FoundRecord events at a real client-mode SwarmDriver (stale quorum next "
        "to a newer version, lying majorities, fewer answers than a majority, repeated peers, every terminating event, "
        "a second concurrent reader of the same vault joining while the query is in flight); whole-data reads of contents "
        "with repeated chunk-aligned blocks (identical thirds, zero-filled regions, aab/aba/aaaab block patterns on the "
        "MAX_CHUNK_SIZE=1024 build) from honest and tampering holders "
        "maps of 1, 2 (exhaustive) and 3 (sampled; exhaustive in the thorough tier) versions, plus network "
        "errors; whole-data reads with substituted / flipped / truncated / re-kinded / missing chunks and "
        "data maps.  A case is distinct/non-trivial by (op, shape of the reply, outcome)")
ASSUMPTIONS = ["BLS signatures and encryption are symbolic in the model (EUF-CMA / correctness of blsttc assumed); "
               "the harness knows which key signed which bytes",
               "SHA3-256 (XorName::from_content) is a function parameter of the model; collision-freedom is a "
               "reading of 'hashes to that address', never an axiom",
               "a record is modelled by what RecordHeader::from_record and try_deserialize_record make of it "
               "(third-party rmp_serde decoders; C12 owns the codec)",
               "replies whose bodies are well-formed registers / transactions are outside the modelled reply "
               "space (the network layer merges them into records of those kinds, which neither read path accepts)"]

KIND_CHUNK, KIND_PAD = 1, 5
OWNER = 0


def sha3(b):
    return hashlib.sha3_256(bytes(b)).digest()


def addr_n(b):
    return int.from_bytes(sha3(b), "big")


# ------------------------------------------------------------------------------------------------
# reply specs -> Coq views

def ctext_term(pad, uid):
    to = pad.get("enc_to")
    return "{| c_to := %s; c_plain := %s; c_uid := %s |}" % (
        copt(to, cN), cbytes(pad["data"]), cN(uid))


def pad_term(pad, uid):
    ct = ctext_term(pad, uid)
    s = pad["sig"]
    if s["t"] == "none":
        sig = "None"
    elif s["t"] == "good":
        sig = "(Some {| s_by := %s; s_counter := %s; s_ct := %s |})" % (cN(s["by"]), cN(pad["counter"]), ct)
    elif s["t"] == "counter":
        sig = "(Some {| s_by := %s; s_counter := %s; s_ct := %s |})" % (cN(s["by"]), cN(s["counter"]), ct)
    elif s["t"] == "junk":
        other = "{| c_to := None; c_plain := %s; c_uid := %s |}" % (cbytes(b"junk".hex()), cN(uid + 200000))
        sig = "(Some {| s_by := 99%%N; s_counter := %s; s_ct := %s |})" % (cN(pad["counter"]), other)
    else:   # signature over another ciphertext
        other = "{| c_to := Some %s; c_plain := %s; c_uid := %s |}" % (cN(s["by"]), cbytes(b"other".hex()), cN(uid + 100000))
        sig = "(Some {| s_by := %s; s_counter := %s; s_ct := %s |})" % (cN(s["by"]), cN(pad["counter"]), other)
    return "{| p_owner := %s; p_encoding := %s; p_ct := %s; p_counter := %s; p_sig := %s |}" % (
        cN(pad["owner"]), cN(pad.get("encoding", 0)), ct, cN(pad["counter"]), sig)


def rec_view(spec, uid):
    """(hdr, body) as the real decoders see the record the harness builds from `spec`"""
    if spec["t"] == "raw":
        b = bytes.fromhex(spec["hex"])
        hdr = None
        if len(b) >= 3 and b[0] == 0x91 and b[1] <= 7:
            hdr = b[1]
        return hdr, "BJunk"
    k = spec.get("kind")
    hdr = k if (k is not None and 0 <= k <= 7) else None
    body = spec["body"]
    if k is None or k >= 128:
        # no header / a header longer than RecordHeader::SIZE: the body no longer starts where the
        # decoder looks
        return hdr, "BJunk"
    if body["t"] == "chunk":
        return hdr, "(BChunk %s)" % cbytes(body["hex"])
    if body["t"] == "pad":
        return hdr, "(BPad %s)" % pad_term(body, uid)
    return hdr, "BJunk"


def rec_term(spec, uid, key_hex):
    """`key_hex`: the key the harness put on this record (it reports them): the adversary's choice"""
    hdr, body = rec_view(spec, uid)
    return "{| r_key := %s; r_hdr := %s; r_body := %s |}" % (cN(int(key_hex, 16) if key_hex else 0), copt(hdr, cN), body)


DUMMY_CARRIED = {"t": "raw", "hex": "010203"}      # what the harness puts into record-carrying errors by default
GERR = {"NotFound": "GNotFound", "Timeout": "GTimeout", "KindMismatch": "GKindMismatch"}


def reply_term(reply, order, keys=None, asked=""):
    """`keys`: the key the harness put on each scripted record (script order); `asked`: the requested key"""
    keys = keys or []
    kof = lambda i: keys[i] if i < len(keys) else asked
    if reply["t"] in ("rec", "raw"):
        return "(ROk %s)" % rec_term(reply, 0, kof(0))
    if reply["t"] == "err":
        if reply["e"] in GERR:
            return "(RErr %s)" % GERR[reply["e"]]
        carried = reply.get("rec") or DUMMY_CARRIED
        return "(RErr (%s %s))" % ({"DoesNotMatch": "GDoesNotMatch", "NotEnoughCopies": "GNotEnoughCopies"}[reply["e"]],
                                   rec_term(carried, 0, kof(0)))
    return "(RErr (GSplit %s))" % clist([rec_term(reply["recs"][i], i, kof(i)) for i in order])


def records_in(reply, order=None):
    """every record the reply contains, including one carried inside an error"""
    if reply["t"] in ("rec", "raw"):
        return [(0, reply)]
    if reply["t"] == "split":
        idx = order if order is not None else range(len(reply["recs"]))
        return [(i, reply["recs"][i]) for i in idx if 0 <= i < len(reply["recs"])]
    if reply["t"] == "err" and reply.get("rec"):
        return [(0, reply["rec"])]
    return []


def chunk_table(case):
    """contents whose SHA3-256 the model needs: the requested one and every chunk body in the reply"""
    tab = {}
    if "of" in case["addr"]:
        tab[case["addr"]["of"]] = None
    for _, r in records_in(case["reply"]):
        if r["t"] == "rec" and r["body"]["t"] == "chunk":
            tab[r["body"]["hex"]] = None
    return clist([cpair(cbytes(h), cN(addr_n(bytes.fromhex(h)))) for h in tab])


# ------------------------------------------------------------------------------------------------
# generator

def rec(kind, body):
    return {"t": "rec", "kind": kind, "body": body}


def chunk_body(b):
    return {"t": "chunk", "hex": bytes(b).hex()}


def mk_pad(owner, counter, tag, sig, enc_to=OWNER, encoding=None, cipher=True, empty=False):
    """`tag` doubles as the pad's data_encoding: unsigned by design (O4), it travels with the pad and lets
    the oracle tell which received version the client handed back without trusting anything the code computes"""
    p = {"t": "pad", "owner": owner, "counter": counter,
         "data": "" if empty else bytes([0xA0, tag % 256, counter % 251]).hex(),
         "encoding": tag if encoding is None else encoding, "sig": sig}
    if cipher and not empty:
        p["enc_to"] = enc_to
    return p


def pad_cross(base):
    """signature {none, junk, other key, valid} x encrypted_data {empty, non-empty} x counter {0, 1, inflated}
    x owner {requested, foreign}: 48 versions a holder can fabricate or replay"""
    out = []
    tag = 100
    for owner in (OWNER, 1):
        for signame in ("none", "junk", "other", "valid"):
            for empty in (True, False):
                for cname, counter in (("c0", 0), ("c1", 1), ("inflated", base + 10 ** 6)):
                    sig = {"none": {"t": "none"}, "junk": {"t": "junk"}, "other": {"t": "good", "by": 2},
                           "valid": {"t": "good", "by": owner}}[signame]
                    out.append(("x/%s/%s/%s/%s" % ("own" if owner == OWNER else "foreign", signame,
                                                   "empty" if empty else "data", cname),
                                rec(KIND_PAD, mk_pad(owner, counter, tag, sig, empty=empty))))
                    tag += 1
    return out


def pad_catalogue(base):
    """16 versions a holder set may return for the owner's vault (counters spread around `base`)"""
    g = lambda by: {"t": "good", "by": by}
    cat = [
        ("auth-low", rec(KIND_PAD, mk_pad(OWNER, base, 1, g(OWNER)))),
        ("auth-mid", rec(KIND_PAD, mk_pad(OWNER, base + 3, 2, g(OWNER)))),
        ("auth-high", rec(KIND_PAD, mk_pad(OWNER, base + 7, 3, g(OWNER)))),
        ("auth-mid-twin", rec(KIND_PAD, mk_pad(OWNER, base + 3, 4, g(OWNER)))),
        ("forged", rec(KIND_PAD, mk_pad(OWNER, base + 50, 5, g(1)))),
        ("foreign", rec(KIND_PAD, mk_pad(1, base + 40, 6, g(1)))),
        ("foreign-low", rec(KIND_PAD, mk_pad(2, base + 1, 7, g(2)))),
        ("unsigned", rec(KIND_PAD, mk_pad(OWNER, base + 60, 8, {"t": "none"}))),
        ("stale-sig", rec(KIND_PAD, mk_pad(OWNER, base + 30, 9, {"t": "counter", "by": OWNER, "counter": base}))),
        ("other-data-sig", rec(KIND_PAD, mk_pad(OWNER, base + 20, 10, {"t": "data", "by": OWNER}))),
        ("auth-enc-elsewhere", rec(KIND_PAD, mk_pad(OWNER, base + 5, 11, g(OWNER), enc_to=2))),
        ("auth-not-ciphertext", rec(KIND_PAD, mk_pad(OWNER, base + 6, 12, g(OWNER), cipher=False))),
        ("forged-kind-chunk", rec(KIND_CHUNK, mk_pad(OWNER, base + 55, 13, g(1)))),
        ("auth-kind-chunk", rec(KIND_CHUNK, mk_pad(OWNER, base + 9, 14, g(OWNER)))),
        ("junk", rec(KIND_PAD, {"t": "junk", "hex": "c0ffee%02x" % (base % 256)})),
        ("chunk-body", rec(KIND_PAD, chunk_body(b"not a pad %d" % base))),
    ]
    return cat


def gen_chunk_get(rng, n_contents):
    cases = []
    contents = [b"", b"\x00", b"abc", bytes(range(40)), bytes(rng.randrange(256) for _ in range(300))]
    while len(contents) < n_contents:
        contents.append(bytes(rng.randrange(256) for _ in range(rng.choice([1, 2, 31, 32, 33, 64, 200]))))
    for a in contents:
        other = bytes(rng.randrange(256) for _ in range(rng.choice([0, 1, len(a), len(a) + 1, 50]))) or b"x"
        if other == a:
            other = a + b"!"
        flipped = bytes([a[0] ^ 1]) + a[1:] if a else b"\x00"
        addr = {"of": a.hex()}
        reps = [("right", rec(KIND_CHUNK, chunk_body(a))),
                ("other", rec(KIND_CHUNK, chunk_body(other))),
                ("flipped", rec(KIND_CHUNK, chunk_body(flipped))),
                ("prefix", rec(KIND_CHUNK, chunk_body(a[:-1] if a else b"z"))),
                ("junk-body", rec(KIND_CHUNK, {"t": "junk", "hex": "c1" + a.hex()})),
                ("pad-body", rec(KIND_CHUNK, mk_pad(OWNER, 1, 1, {"t": "good", "by": OWNER})))]
        for k in (0, 2, 3, 4, 5, 6, 7):
            reps.append(("kind%d" % k, rec(k, chunk_body(a))))
        for k in (8, 127, 128, 255, 256, 70000):
            reps.append(("badkind", rec(k, chunk_body(a))))
        for raw in ("", "91", "9101", "9101c4", "c403616263", "9201c400"):
            reps.append(("raw", {"t": "raw", "hex": raw}))
        for e in ("NotFound", "Timeout", "KindMismatch", "DoesNotMatch", "NotEnoughCopies"):
            reps.append(("neterr", {"t": "err", "e": e}))
        for e in ("NotEnoughCopies", "DoesNotMatch"):
            for vname, r in (("right", rec(KIND_CHUNK, chunk_body(a))), ("other", rec(KIND_CHUNK, chunk_body(other)))):
                reps.append(("neterr-carrying-" + vname, {"t": "err", "e": e, "rec": r}))
        reps.append(("split-chunks", {"t": "split", "recs": [rec(KIND_CHUNK, chunk_body(a)), rec(KIND_CHUNK, chunk_body(other))]}))
        reps.append(("split-one-chunk", {"t": "split", "recs": [rec(KIND_CHUNK, chunk_body(a))]}))
        reps.append(("split-pads", {"t": "split", "recs": [rec(KIND_PAD, mk_pad(OWNER, 4, 1, {"t": "good", "by": OWNER})),
                                                           rec(KIND_PAD, mk_pad(OWNER, 6, 2, {"t": "good", "by": OWNER}))]}))
        reps.append(("split-mixed", {"t": "split", "recs": [rec(KIND_CHUNK, chunk_body(a)),
                                                            rec(KIND_PAD, mk_pad(OWNER, 6, 2, {"t": "good", "by": OWNER}))]}))
        for name, r in reps:
            cases.append({"op": "chunk_get", "kind": "chunk_get/" + name, "addr": addr, "reply": r})
        # the key carried by the returned record is the holders' choice: {requested, the key the
        # substituted content would honestly live under, unrelated} x {requested content, other chunk,
        # wrong kind, scratchpad of the right / a foreign owner}, as Ok reply and inside split maps
        values = [("right", rec(KIND_CHUNK, chunk_body(a))), ("other", rec(KIND_CHUNK, chunk_body(other))),
                  ("flipped", rec(KIND_CHUNK, chunk_body(flipped))),
                  ("kind5", rec(KIND_PAD, chunk_body(other))), ("kind0", rec(0, chunk_body(other))),
                  ("pad-own", rec(KIND_PAD, mk_pad(OWNER, 2, 1, {"t": "good", "by": OWNER}))),
                  ("pad-foreign", rec(KIND_PAD, mk_pad(1, 2, 2, {"t": "good", "by": 1}))),
                  ("pad-as-chunk", rec(KIND_CHUNK, mk_pad(1, 2, 3, {"t": "good", "by": 1})))]
        for kname in ("content", "unrelated", "requested"):
            for vname, r in values:
                if kname == "requested" and vname in ("right", "other", "flipped"):
                    continue        # already above
                cases.append({"op": "chunk_get", "kind": "chunk_get/key-%s/%s" % (kname, vname), "addr": addr,
                              "reply": dict(r, key=kname)})
            cases.append({"op": "chunk_get", "kind": "chunk_get/key-%s/split" % kname, "addr": addr,
                          "reply": {"t": "split", "recs": [dict(values[1][1], key=kname), dict(values[5][1], key=kname),
                                                           dict(values[6][1], key=kname)], "first": rng.randrange(3)}})
        # a requested address that is nobody's hash
        cases.append({"op": "chunk_get", "kind": "chunk_get/raw-addr", "addr": {"hex": "%064x" % rng.getrandbits(256)},
                      "reply": rec(KIND_CHUNK, chunk_body(a))})
    return cases


def gen_vault(rng, tier):
    cases = []
    bases = [0, 1, 200] if tier == "quick" else [0, 1, 7, 200, 2 ** 32, 2 ** 63]
    for base in bases:
        cat = pad_catalogue(base)
        for name, r in cat:
            cases.append({"op": "vault", "kind": "vault/ok/" + name, "owner": OWNER, "reply": r})
            for kname in ("content", "unrelated"):
                cases.append({"op": "vault", "kind": "vault/ok-key-%s/%s" % (kname, name), "owner": OWNER,
                              "reply": dict(r, key=kname)})
                cases.append({"op": "vault", "kind": "vault/split1-key-%s/%s" % (kname, name), "owner": OWNER,
                              "reply": {"t": "split", "recs": [dict(r, key=kname)]}})
            cases.append({"op": "vault", "kind": "vault/split1/" + name, "owner": OWNER,
                          "reply": {"t": "split", "recs": [r]}})
        pairs = list(itertools.combinations(range(len(cat)), 2))
        if tier == "quick" and base != bases[0]:
            pairs = rng.sample(pairs, 40)
        for i, j in pairs:
            for first in ((i, j) if (tier != "quick" or base == bases[0]) else (rng.choice((i, j)),)):
                ki, kj = (("requested", "requested") if first == i else
                          (rng.choice(["content", "unrelated"]), rng.choice(["requested", "content", "unrelated"])))
                cases.append({"op": "vault", "kind": "vault/split2", "owner": OWNER,
                              "reply": {"t": "split", "recs": [dict(cat[i][1], key=ki), dict(cat[j][1], key=kj)],
                                        "first": [i, j].index(first)}})
        triples = list(itertools.combinations(range(len(cat)), 3))
        if tier == "quick":
            triples = rng.sample(triples, 120 if base == bases[0] else 30)
        for t in triples:
            # every element of a split map carries a key of the holders' choosing
            recs = [dict(cat[i][1], key=rng.choice(["requested", "content", "unrelated"])) for i in t]
            cases.append({"op": "vault", "kind": "vault/split3", "owner": OWNER,
                          "reply": {"t": "split", "recs": recs, "first": rng.randrange(3)}})
    # fabricated / replayed versions: as the only reply, alone in a split, and next to authentic versions
    for base in bases[:2] if tier == "quick" else bases:
        cat = dict(pad_catalogue(base))
        for name, r in pad_cross(base):
            cases.append({"op": "vault", "kind": "vault/ok/" + name, "owner": OWNER, "reply": r})
            cases.append({"op": "vault", "kind": "vault/split1/" + name, "owner": OWNER, "reply": {"t": "split", "recs": [r]}})
            for first in (0, 1):
                cases.append({"op": "vault", "kind": "vault/split2/" + name, "owner": OWNER,
                              "reply": {"t": "split", "recs": [r, cat["auth-mid"]], "first": first}})
            if base == bases[0] or tier != "quick":
                cases.append({"op": "vault", "kind": "vault/split3/" + name, "owner": OWNER,
                              "reply": {"t": "split", "recs": [cat["auth-low"], r, cat["auth-high"]], "first": rng.randrange(3)}})
                cases.append({"op": "vault", "kind": "vault/split2-chunkhdr/" + name, "owner": OWNER,
                              "reply": {"t": "split", "recs": [cat["forged-kind-chunk"], r, cat["auth-low"]], "first": 0}})
    # every GetRecordError variant that CARRIES a record, with every catalogue / fabricated version planted in it
    # (fewer than a majority of holders answered, byte-identically; or the record did not match a target)
    base = bases[0]
    for name, r in pad_catalogue(base) + pad_cross(base):
        for e in ("NotEnoughCopies", "DoesNotMatch"):
            if tier == "quick" and e == "DoesNotMatch" and name.startswith("x/") and "/c1" in name:
                continue
            cases.append({"op": "vault", "kind": "vault/err-%s/%s" % (e, name), "owner": OWNER,
                          "reply": {"t": "err", "e": e, "rec": dict(r, key=rng.choice(["requested", "requested", "content", "unrelated"]))}})
    # several owner-signed versions reaching the client unmerged (a Chunk-kind first header makes the network
    # layer give up), with every relation between counter order, data_encoding order and ciphertext order:
    # the newest version must win whatever the versions' other fields compare like
    g = {"t": "good", "by": OWNER}
    decoy = rec(KIND_CHUNK, mk_pad(OWNER, base + 55, 13, {"t": "good", "by": 1}))
    for enc_old, enc_new in ((7, 7), (9, 2), (2, 9)):
        for rank_old, rank_new in (("high", "low"), ("low", "high")):
            for n_old in (1, 2, 3):
                olds = [rec(KIND_PAD, dict(mk_pad(OWNER, base + 1 + i, 40 + i, g, encoding=enc_old), ct_rank=rank_old)) for i in range(n_old)]
                newest = rec(KIND_PAD, dict(mk_pad(OWNER, base + 20, 50, g, encoding=enc_new), ct_rank=rank_new))
                for pos in range(n_old + 1):
                    recs = olds[:pos] + [newest] + olds[pos:]
                    cases.append({"op": "vault", "kind": "vault/split-ord/enc%d-%d/%s-%s" % (enc_old, enc_new, rank_old, rank_new),
                                  "owner": OWNER, "reply": {"t": "split", "recs": [decoy] + recs, "first": 0}})
    for e in ("NotFound", "Timeout", "KindMismatch", "DoesNotMatch", "NotEnoughCopies"):
        cases.append({"op": "vault", "kind": "vault/neterr", "owner": OWNER, "reply": {"t": "err", "e": e}})
    for raw in ("", "91", "9105", "9105c0"):
        cases.append({"op": "vault", "kind": "vault/raw", "owner": OWNER, "reply": {"t": "raw", "hex": raw}})
    # another owner asking (key 2 owns the foreign-low pad)
    cat = pad_catalogue(10)
    cases.append({"op": "vault", "kind": "vault/other-owner", "owner": 2, "reply": cat[6][1]})
    cases.append({"op": "vault", "kind": "vault/other-owner", "owner": 2, "reply": cat[0][1]})
    return cases


def gen_data(rng, tier):
    cases = []
    lens = [3, 4, 5, 30, 100, 1000, 5000] if tier == "quick" else [3, 4, 5, 6, 30, 100, 999, 1000, 5000, 70000]
    tampers = []
    for target in ("root", 0, 1, 2):
        tampers += [
            [{"target": target, "with": {"t": "chunk_of", "i": 1 if target != 1 else 2}}],
            [{"target": target, "with": {"t": "flip", "at": 0, "bit": 0}}],
            # the whole record replaced by a complete, well-formed record of another chunk (its own key)
            [{"target": target, "with": {"t": "chunk_of", "i": 1 if target != 1 else 2, "own_key": True}}],
            [{"target": target, "with": {"t": "flip", "at": 3, "bit": 1, "own_key": True}}],
            [{"target": target, "with": {"t": "flip", "at": 7, "bit": 6}}],
            [{"target": target, "with": {"t": "truncate"}}],
            [{"target": target, "with": {"t": "kind", "kind": 0}}],
            [{"target": target, "with": {"t": "kind", "kind": 5}}],
            [{"target": target, "with": {"t": "err", "e": "NotFound"}}],
            [{"target": target, "with": {"t": "raw", "hex": "9101"}}],
        ]
    tampers.append([{"target": 1, "with": {"t": "chunk_of", "i": 1}}])       # harmless: the chunk itself
    tampers.append([])                                                          # honest network
    for n in lens:
        for fillk in ("seq", "rand"):
            for tp in (tampers if n in (3, 100, 5000) else rng.sample(tampers, 6) + [[]]):
                for mode in ("public", "private"):
                    if mode == "private" and tp and tp[0]["target"] == "root":
                        continue      # the private data map never crosses the network
                    cases.append({"op": "data", "kind": "data/%s/%s" % (mode, tp[0]["with"]["t"] if tp else "honest"),
                                  "len": n, "fill": fillk, "seed": rng.randrange(1, 10 ** 6), "mode": mode,
                                  "order_seed": rng.randrange(0, 50), "tamper": tp})
    return cases


def gen_kad(rng, tier):
    """vault reads answered one layer lower: the holders' answers arrive as kad FoundRecord events at a real
    client-mode SwarmDriver (real quorum accumulation), in the scripted order, from the scripted peers"""
    cat = dict(pad_catalogue(0))
    cross = dict(pad_cross(0))
    pool = [cat["auth-low"], cat["auth-high"], cat["auth-mid"], cat["forged"], cat["foreign"], cat["unsigned"],
            cross["x/own/none/empty/inflated"], cat["junk"], cat["auth-kind-chunk"], cat["forged-kind-chunk"]]
    A, B, M, FORGED, FOREIGN, UNSIGNED, EMPTY = 0, 1, 2, 3, 4, 5, 6
    fnd = lambda p, r: {"e": "found", "peer": p, "rec": r}
    fin = lambda e="finished": {"e": e}
    scripts = [
        # a stale version reaches the quorum although a newer one was received: the newer one must win
        [fnd(0, B), fnd(1, A), fnd(2, A), fnd(3, A)],
        [fnd(1, A), fnd(0, B), fnd(2, A), fnd(3, A)],
        [fnd(1, A), fnd(2, A), fnd(0, B), fnd(3, A)],
        [fnd(0, B), fnd(4, M), fnd(1, A), fnd(2, A), fnd(3, A)],
        # the newer one arrives after the outcome: not received
        [fnd(1, A), fnd(2, A), fnd(3, A), fnd(0, B)],
        # fewer than a majority answered
        [fnd(1, A), fin()], [fnd(1, A), fnd(2, A), fin()], [fnd(1, A), fnd(0, B), fin()],
        [fnd(1, FORGED), fin()], [fnd(1, FORGED), fnd(2, FORGED), fin()], [fnd(1, UNSIGNED), fin()],
        [fnd(1, EMPTY), fin()], [fnd(1, FOREIGN), fin()], [fnd(1, FORGED), fin("timeout")],
        # a majority of holders lies
        [fnd(1, FORGED), fnd(2, FORGED), fnd(3, FORGED)], [fnd(1, FOREIGN), fnd(2, FOREIGN), fnd(3, FOREIGN)],
        [fnd(1, EMPTY), fnd(2, EMPTY), fnd(3, EMPTY)], [fnd(0, A), fnd(1, FORGED), fnd(2, FORGED), fnd(3, FORGED)],
        [fnd(0, FORGED), fnd(1, A), fnd(2, A), fnd(3, A)], [fnd(0, EMPTY), fnd(1, A), fnd(2, A), fnd(3, A)],
        [fnd(0, FOREIGN), fnd(1, A), fnd(2, A), fnd(3, A)],
        # one peer answering three times is one answer
        [fnd(1, A), fnd(1, A), fnd(1, A), fin()], [fnd(1, FORGED), fnd(1, FORGED), fnd(1, FORGED), fnd(2, A), fin()],
        [fin("notfound")], [fin("timeout")], [fin("quorumfailed")], [fnd(1, A), fin("quorumfailed")], [],
    ]
    # a second reader of the same vault arrives while the first read's query is in flight
    rd2 = {"e": "read2"}
    scripts += [
        [fnd(0, B), fnd(1, A), fnd(2, A), rd2, fnd(3, A)],          # stale copy held by more peers, newer one received
        [fnd(0, B), fnd(1, A), fnd(2, A), rd2, fin()],
        [fnd(0, B), fnd(1, A), rd2, fnd(2, A), fnd(3, A)],
        [fnd(1, A), fnd(2, A), rd2, fnd(0, B), fnd(3, A)],
        [fnd(1, A), rd2, fnd(2, A), fnd(3, A)],
        [fnd(1, FORGED), fnd(2, FORGED), rd2, fnd(0, A), fin()],    # the cached majority copy is forged
        [fnd(1, EMPTY), fnd(2, EMPTY), rd2, fnd(0, A), fin()],
        [fnd(1, FOREIGN), rd2, fin()],
        [rd2, fnd(1, A), fnd(2, A), fnd(3, A)],
        [fnd(0, B), fnd(4, M), fnd(1, A), fnd(2, A), rd2, fin("timeout")],
    ]
    n_scripted = len(scripts)
    n_rand = 120 if tier == "quick" else 1500
    for _ in range(n_rand):
        k = rng.choice([1, 2, 3, 4, 5, 6, 7])
        ev = [fnd(rng.randrange(6), rng.choice([A, A, B, B, M, FORGED, FOREIGN, UNSIGNED, EMPTY, 7, 8, 9])) for _ in range(k)]
        if rng.random() < 0.5 and len(ev) >= 2:
            ev.insert(rng.randrange(1, len(ev) + 1), {"e": "read2"})
        if rng.random() < 0.6:
            ev.append(fin(rng.choice(["finished", "finished", "notfound", "timeout", "quorumfailed"])))
        scripts.append(ev)
    return [{"op": "vault_kad", "kind": "vault_kad/%s" % ("scripted" if i < n_scripted else "random"), "owner": OWNER,
             "recs": pool, "events": ev} for i, ev in enumerate(scripts)]


def gen_repeated(rng, tier, build):
    """contents with repeated chunk-aligned blocks: the data map then names one encrypted chunk several times.
    Honest holders (and a few tampering ones): what comes back for the address must be exactly what was stored."""
    cases = []
    if build == "default":
        specs = [{"len": n, "fill": f} for n in (3, 6, 30, 300, 3000, 30000) for f in ("zero", "rep3")]
        specs += [{"len": n, "fill": "zero"} for n in (4, 3001, 5 * 1048576, 4 * 1048576 + 17)]
        if tier != "quick":
            specs += [{"len": 7 * 1048576, "fill": "zero"}, {"len": 3 * 1048576, "fill": "rep3"}]
    else:
        M = 1024
        pats = ["aaa", "aab", "aba", "baa", "aaaa", "aaaab", "baaaa", "aaaaab", "abaaaab", "aaaabaaaa", "aaaaaaaaaaaa"]
        specs = [{"fill": "blocks", "pattern": p, "block": M, "len": len(p) * M} for p in pats]
        specs += [{"fill": "blocks", "pattern": p, "block": M // 3, "len": len(p) * (M // 3)} for p in ("aaa", "aab", "aba")]
        specs += [{"len": n, "fill": "zero"} for n in (3 * M, 8 * M, 8 * M + 5, 40 * M)]
    for sp in specs:
        for mode in ("public", "private"):
            tps = [[]] + ([[{"target": 1, "with": {"t": "flip", "at": 0, "bit": 0}}]] if sp["len"] <= 30000 and mode == "public" else [])
            for tp in tps:
                cases.append(dict(sp, op="data", kind="data/%s/%s/repeated-%s" % (build, mode, "honest" if not tp else "flip"),
                                  seed=rng.randrange(1, 10 ** 6), mode=mode, order_seed=rng.randrange(0, 50), tamper=tp, build=build))
    return cases


def gen(ctx):
    rng = ctx.rng
    cases = gen_chunk_get(rng, 6 if ctx.tier == "quick" else 30)
    cases += gen_vault(rng, ctx.tier)
    cases += gen_data(rng, ctx.tier)
    cases += gen_repeated(rng, ctx.tier, "default")
    cases += gen_kad(rng, ctx.tier)
    return cases


# ------------------------------------------------------------------------------------------------
# oracle: the property on what the real client returned

def pad_is_authentic(body, owner):
    return body["t"] == "pad" and body["owner"] == owner and body["sig"]["t"] == "good" and body["sig"]["by"] == owner


def oracle(c, o):
    if "panic" in o:
        return [("panic", "%s panicked: %s" % (c["op"], o["panic"]))]
    v = []
    if c["op"] == "chunk_get":
        asked = bytes.fromhex(o["asked"])
        if not o.get("key_ok"):
            v.append(("wrong-key-asked", "chunk_get did not ask the network for exactly the requested address"))
        if o["res"] == "ok":
            val = bytes.fromhex(o["value"])
            if sha3(val) != asked:
                v.append(("chunk-not-authentic", "chunk_get(%s) returned Ok with content %s... whose SHA3-256 is %s"
                          % (asked.hex()[:12], val.hex()[:24], sha3(val).hex()[:12])))
            if bytes.fromhex(o["addr"]) != sha3(val):
                v.append(("chunk-address-not-content-hash", "returned Chunk carries address %s, its content hashes to %s"
                          % (o["addr"][:12], sha3(val).hex()[:12])))
        r = c["reply"]
        honest = r["t"] == "rec" and r.get("kind") == KIND_CHUNK and r["body"]["t"] == "chunk" \
            and sha3(bytes.fromhex(r["body"]["hex"])) == asked and r.get("key", "requested") == "requested"
        if honest and not (o["res"] == "ok" and o["value"] == r["body"]["hex"]):
            v.append(("honest-chunk-rejected", "an honest reply (the requested chunk) was not returned: %s" % o))
        return v
    if c["op"] == "vault_kad":
        owner = c.get("owner", OWNER)
        syn = kad_synth(c, o, 0) or ({"op": "vault", "kind": c["kind"], "owner": owner, "reply": {"t": "split", "recs": c["recs"]}},
                                     dict(o, order=list(range(len(c["recs"]))), keys=o.get("keys")))
        v = oracle(*syn)
        # among the versions the holders delivered before the query produced its outcome, no authentic
        # scratchpad version may be newer than the one handed back
        f, p = o["fetch"], o["pad"]
        by_enc = {r["body"].get("encoding"): r["body"] for r in c["recs"] if r["t"] == "rec" and r["body"]["t"] == "pad"}
        r2 = o.get("reader2")
        readers = [("fetch_and_decrypt_vault", f.get("encoding") if f["res"] == "ok" else None, (o.get("delivered") or [[]])[0]),
                   ("get_vault_from_network", p.get("encoding") if p["res"] == "ok" and not p.get("is_new") else None,
                    (o.get("delivered") or [[], []])[1] if len(o.get("delivered", [])) > 1 else None)]
        if r2:
            # the second, concurrent reader is judged like the first: generic authenticity clauses on what was
            # delivered to it, and nothing newer delivered before ITS answer
            syn2 = kad_synth(c, dict(o, observed=[r2["observed"]], fetch=r2["fetch"]), 0)
            if syn2:
                v += [(cl, "second concurrent reader: " + d) for cl, d in oracle(syn2[0], dict(syn2[1], pad={"res": "ok", "is_new": True}, no_pad=True))]
            readers.append(("second concurrent fetch_and_decrypt_vault", r2["fetch"].get("encoding") if r2["fetch"]["res"] == "ok" else None,
                            r2["delivered"]))
        for what, enc, deliv in readers:
            if enc is None or enc not in by_enc or deliv is None:
                continue
            got = by_enc[enc]["counter"]
            seen = [c["recs"][c["events"][ei]["rec"]] for ei in deliv if c["events"][ei]["e"] == "found"]
            best = [r["body"]["counter"] for r in seen
                    if r["t"] == "rec" and r.get("kind") == KIND_PAD and pad_is_authentic(r["body"], owner)
                    and r.get("key", "requested") == "requested"]
            if best and got < max(best):
                v.append(("vault-not-highest", "%s returned the version with counter %d although the holders had delivered an "
                          "authentic version with counter %d before its answer was produced (events %s)"
                          % (what, got, max(best), [(e["e"], e.get("peer"), e.get("rec")) for e in c["events"]])))
        return v
    if c["op"] == "vault":
        owner = c.get("owner", OWNER)
        recs = records_in(c["reply"], o.get("order") if c["reply"]["t"] == "split" else None)
        bodies = [r["body"] for _, r in recs if r["t"] == "rec" and r.get("kind") is not None and r["kind"] < 128]
        auth = [b for b in bodies if pad_is_authentic(b, owner)]
        wf_auth = [r["body"] for _, r in recs if r["t"] == "rec" and r.get("kind") == KIND_PAD and pad_is_authentic(r["body"], owner)]
        f, p = o["fetch"], o["pad"]
        if not o.get("key_ok"):
            v.append(("wrong-key-asked", "the vault read did not ask for exactly the owner's scratchpad address"))
        got_counter = None
        # which received version came back?  identified by data_encoding (unique per version in a case) and
        # judged only by what the case says about who signed what -- never by the code's own is_valid()
        by_enc = {}
        for b in bodies:
            if b["t"] == "pad":
                by_enc.setdefault(b.get("encoding", 0), []).append(b)
        for what, enc in (("get_vault_from_network", p.get("encoding") if p["res"] == "ok" and not p.get("is_new") else None),
                          ("fetch_and_decrypt_vault", f.get("encoding") if f["res"] == "ok" else None)):
            if enc is None:
                continue
            cands = by_enc.get(enc, [])
            if not any(pad_is_authentic(b, owner) for b in cands):
                desc = ", ".join("owner %s, signature %s, %s data, counter %d" % (
                    b["owner"], b["sig"], "empty" if not b["data"] else "some", b["counter"]) for b in cands) or "none received"
                v.append(("vault-unauthenticated", "%s handed back a version that is not owned and validly signed by the "
                          "requested key (%s); %d authentic version(s) were received" % (what, desc, len(auth))))
        if p["res"] == "ok" and not p["is_new"]:
            got_counter = p["counter"]
            if not (p["valid"] and p["owner_ok"]):
                v.append(("vault-unauthenticated", "get_vault_from_network handed back a pad with is_valid()=%s, owned by the "
                          "requested key=%s (counter %d)" % (p["valid"], p["owner_ok"], p["counter"])))
        if f["res"] == "ok":
            src = [b for b in auth if b.get("enc_to") == owner and b["data"] == f["data"]]
            garbled = [b for b in auth if b.get("enc_to") not in (None, owner)]
            if not src and not garbled:
                v.append(("vault-unauthenticated", "fetch_and_decrypt_vault returned %s, which is not the content of any "
                          "version owned and validly signed by the requested key (%d authentic version(s) received)"
                          % (f["data"], len(auth))))
            elif src:
                got_counter = src[0]["counter"] if got_counter is None else got_counter
        if not auth:
            if f["res"] == "ok" or (p["res"] == "ok" and not p["is_new"]):
                v.append(("vault-unauthenticated", "no authentic version was received, yet the read did not fail: %s" % o))
        if got_counter is not None and wf_auth and got_counter < max(b["counter"] for b in wf_auth):
            v.append(("vault-not-highest", "returned counter %d although an authentic version with counter %d was received"
                      % (got_counter, max(b["counter"] for b in wf_auth))))
        # honest holders: a single well-formed authentic version, or a split of well-formed authentic versions
        all_honest = c["reply"]["t"] in ("rec", "split") and recs and all(r["t"] == "rec" and r.get("kind") == KIND_PAD and pad_is_authentic(r["body"], owner)
                                  and r.get("key", "requested") == "requested" for _, r in recs)
        if all_honest and not o.get("no_pad"):
            top = max(r["body"]["counter"] for _, r in recs)
            if not (p["res"] == "ok" and not p["is_new"] and p["counter"] == top):
                v.append(("honest-vault-rejected", "only authentic versions were received (highest counter %d) but the "
                          "read gave %s" % (top, p)))
        return v
    if c["op"] == "data":
        if o.get("enc") != "ok":
            return [("encrypt-failed", "encrypt failed on %d bytes: %s" % (c.get("len", -1), o))]
        g = o["get"]
        if g["res"] == "ok" and not g["eq"]:
            v.append(("data-substituted", "%s read of %d stored bytes (%s) returned Ok with %s bytes that are not the stored data "
                      "(so they do not hash to the requested address); %s"
                      % (c["mode"], o.get("data_len", c.get("len", -1)), c.get("fill"), g.get("len"),
                         ("holders tampered: %s" % c["tamper"]) if c.get("tamper") else "all holders honest")))
        harmless = all(t["with"]["t"] == "chunk_of" and t["target"] == t["with"]["i"] and not t["with"].get("own_key")
                       for t in c.get("tamper", []))
        if harmless and g["res"] != "ok":
            v.append(("honest-data-rejected", "honest network but the read failed: %s" % g))
        for ch in o["chunks"]:
            if "hex" in ch and sha3(bytes.fromhex(ch["hex"])).hex() != ch["addr"]:
                v.append(("chunk-address-not-content-hash", "produced chunk %s is not addressed by its content hash" % ch["addr"][:12]))
        return v
    return v


# ------------------------------------------------------------------------------------------------
# model agreement

def coq_sum_bytes_or_code(ok_hex, code):
    return "(inl %s)" % cbytes(ok_hex) if ok_hex is not None else "(inr %s)" % cstr(code)


def vault_terms(c, o):
    order = o.get("order") or []
    rp = reply_term(c["reply"], order, o.get("keys"), o["asked_key"])
    key = cN(int(o["asked_key"], 16))
    f, p = o["fetch"], o["pad"]
    owner = c.get("owner", OWNER)
    if f["res"] == "ok":
        out = "(inl (Some %s, %s))" % (cbytes(f["data"]), cN(f["encoding"]))
    else:
        out = "(inr %s)" % cstr(f["code"])
    if p["res"] == "ok" and not p["is_new"]:
        pout = "(Some (%s, %s, %s))" % (cN(p["counter"]), cbool(p["valid"]), cbool(p["owner_ok"]))
    elif p["res"] == "ok":
        pout = "None"
    else:
        return ("false", "false")   # get_or_create_scratchpad can only fail with VaultBadOwner: unreachable after the repair
    return ("agree_vault %s %s %s %s" % (key, rp, cN(owner), out), "agree_vault_pad %s %s %s %s" % (key, rp, cN(owner), pout))


def kad_synth(c, o, k):
    """the reply-level case equivalent to what the real quorum accumulation delivered to the api caller for
    the k-th read of a kad-level case (None if the delivered record is not one of the planted ones)"""
    if k >= len(o.get("observed", [])):
        return None
    ob, recs, asked = o["observed"][k], c["recs"], o["asked_key"]
    rekey = lambda r, key: dict(r, key=("requested" if key == asked else key))
    if ob["t"] == "ok":
        if ob["i"] < 0:
            return None
        reply, keys, order = rekey(recs[ob["i"]], ob["key"]), [ob["key"]], []
    elif ob["t"] == "err":
        if "i" in ob:
            if ob["i"] < 0:
                return None
            reply, keys = {"t": "err", "e": ob["e"], "rec": rekey(recs[ob["i"]], ob["key"])}, [ob["key"]]
        else:
            reply, keys = {"t": "err", "e": ob["e"]}, []
        order = []
    else:
        if any(i < 0 for i in ob["order"]):
            return None
        keys = [asked] * len(recs)
        rr = list(recs)
        for i, key in zip(ob["order"], ob["keys"]):
            keys[i] = key
            rr[i] = rekey(recs[i], key)
        reply, order = {"t": "split", "recs": rr}, ob["order"]
    return ({"op": "vault", "kind": c["kind"], "owner": c.get("owner", OWNER), "reply": reply},
            dict(o, order=order, keys=keys))


def model_term(c, o):
    if "panic" in o:
        return "false"
    if c["op"] == "chunk_get":
        asked = int(o["asked"], 16)
        order = o.get("order") or []
        out = coq_sum_bytes_or_code(o["value"] if o["res"] == "ok" else None, o.get("code", ""))
        return "agree_chunk_get %s %s %s %s" % (chunk_table(c), reply_term(c["reply"], order, o.get("keys"), o["asked"]), cN(asked), out)
    if c["op"] == "vault":
        t = vault_terms(c, o)
        return None if t is None else "%s && %s" % t
    if c["op"] == "vault_kad":
        # the model starts where the network layer delivers its outcome to the api caller: evaluate it on the
        # outcome the real quorum accumulation delivered for each of the two reads
        a, b = kad_synth(c, o, 0), kad_synth(c, o, 1)
        if a is None or b is None:
            return None
        ta, tb = vault_terms(*a), vault_terms(*b)
        if ta is None or tb is None:
            return None
        terms = [ta[0], tb[1]]
        r2 = o.get("reader2")
        if r2:
            a2 = kad_synth(c, dict(o, observed=[r2["observed"]], fetch=r2["fetch"]), 0)
            if a2 is None:
                return None
            terms.append(vault_terms(*a2)[0])
        return " && ".join(terms)
    if c["op"] == "data":
        return data_term(c, o)
    return None


def data_term(c, o):
    """whole-data read over a tampered network: the model is run on the *shape* of the case -- which
    address gets an authentic chunk, a chunk with another hash, a record of another kind, an
    undecodable record or a network error -- and must predict success / the error the client reported"""
    if o.get("enc") != "ok":
        return "false"
    infos = o["levels"][0].get("infos") if o.get("levels") else None
    if infos is None or len(o["levels"]) != 1:
        return None
    n = len(infos)
    marks = ["FAuth"] * (n + 1)          # position n = the data map chunk
    for t in c.get("tamper", []):
        pos = n if t["target"] == "root" else t["target"] % n
        w = t["with"]
        if w["t"] == "chunk_of":
            m = "FAuth" if (w["i"] % n) == pos else ("FOtherRecord" if w.get("own_key") else "FOtherHash")
        elif w["t"] in ("flip", "truncate"):
            m = "FOtherRecord" if w.get("own_key") else "FOtherHash"
        elif w["t"] == "kind":
            m = "FAuth" if w["kind"] == KIND_CHUNK else ("FKind" if w["kind"] <= 7 else "FHeader")
        elif w["t"] == "err":
            dummy = "{| r_key := 0; r_hdr := None; r_body := BJunk |}"
            m = "(FNetErr %s)" % {"NotFound": "GNotFound", "Timeout": "GTimeout", "KindMismatch": "GKindMismatch",
                                  "DoesNotMatch": "(GDoesNotMatch %s)" % dummy,
                                  "NotEnoughCopies": "(GNotEnoughCopies %s)" % dummy}[w["e"]]
        elif w["t"] == "raw":
            m = "FHeader" if len(bytes.fromhex(w["hex"])) < 3 else "FDeser"
        else:
            return None
        marks[pos] = m
    g = o["get"]
    out = "None" if g["res"] == "ok" else "(Some %s)" % cstr(g["code"])
    return "agree_shadow_read %s %s %s %s" % (cbool(c["mode"] == "public"), cN(n), clist(marks), out)


def show(c, o):
    if c["op"] == "vault_kad":
        a = kad_synth(c, o, 0)
        return show(*a) if a else "tt"
    if c["op"] == "chunk_get":
        return "chunk_get (tab_hash %s) %s %s" % (chunk_table(c), reply_term(c["reply"], o.get("order") or [], o.get("keys"), o["asked"]), cN(int(o["asked"], 16)))
    if c["op"] == "vault":
        rp = reply_term(c["reply"], o.get("order") or [], o.get("keys"), o["asked_key"])
        key = cN(int(o["asked_key"], 16))
        return "(fetch_and_decrypt_vault %s %s %s, get_vault %s %s %s)" % (key, rp, cN(c.get("owner", OWNER)), key, rp, cN(c.get("owner", OWNER)))
    return "tt"


def nontrivial(c, o):
    if "panic" in o:
        return None
    if c["op"] == "vault_kad":
        return ("kad", tuple((e["e"], e.get("rec")) for e in c["events"]), o["fetch"]["res"], o["fetch"].get("code"),
                tuple(ob["t"] for ob in o.get("observed", [])), bool(o.get("reader2")))
    if c["op"] == "chunk_get":
        return (c["kind"], o["res"], o.get("code"))
    if c["op"] == "vault":
        r = c["reply"]
        shape = r["t"] if r["t"] != "split" else "split%d" % len(r["recs"])
        names = tuple(sorted((x.get("kind"), x["body"]["t"], x["body"].get("owner"), x["body"].get("sig", {}).get("t"))
                             for x in (r["recs"] if r["t"] == "split" else [r]) if x["t"] == "rec"))
        return (shape, names, o["fetch"]["res"], o["fetch"].get("code"), tuple(o.get("order") or [])[:1])
    if c["op"] == "data":
        return (c["kind"], c["len"], o.get("get", {}).get("res"), o.get("get", {}).get("code"))
    return None


def pipeline_retry(ctx, target, cases, binary, *a, **kw):
    """ctx.pipeline, robust against another check running in parallel: if that one regenerates and
    rebuilds gen/Consts.vo between our Coq build and our model evaluation, coqc refuses our model
    objects ("inconsistent assumptions over library V.gen.Consts"); rebuild and evaluate again."""
    for attempt in range(3):
        ctx.coq_make([target])
        mark = (len(ctx.impl_viol), len(ctx.tie_breaks), ctx.cov["evaluations"], dict(ctx.cov["distribution"]),
                ctx.cov["traces_validated_against_impl"], set(ctx._nontrivial), list(ctx.cov["samples"]))
        ctx.pipeline(cases, binary, *a, **kw)
        stale = [t for t in ctx.tie_breaks[mark[1]:] if t[0] == "model-eval" and "inconsistent assumptions" in str(t[2])]
        if not stale or attempt == 2:
            return
        ctx.log("gen/Consts.vo was rebuilt by a parallel check during this run; rebuilding the model and evaluating again")
        del ctx.impl_viol[mark[0]:]
        del ctx.tie_breaks[mark[1]:]
        ctx.cov["evaluations"], ctx.cov["distribution"], ctx.cov["traces_validated_against_impl"] = mark[2], mark[3], mark[4]
        ctx._nontrivial, ctx.cov["samples"] = mark[5], mark[6]


def run(ctx):
    ctx.regen_consts()
    binary = ctx.cargo_build("c15")       # the long step first: keeps Coq build and model evaluation close together
    ctx.prove("props/C15.v", THEOREMS, extra_trusted=[
        "model coq/model/ClientRead.v (+ SelfEnc.v for whole-data reads), hand-written, tied to autonomi's "
        "chunk_get / get_vault_from_network / fetch_and_decrypt_vault and ant-networking's split handling by this "
        "run's correspondence",
        "symbolic BLS (signer, counter, ciphertext named explicitly); SHA3-256 as a table computed by python hashlib",
        "translator tools/extract_consts.py: RecordKind wire tags of Chunk / Scratchpad, RecordHeader::SIZE",
        "harness/crates/c15 (Rust driver, serde mirror of Scratchpad for forged pads), tools/props/C15.py"])
    cases = ctx.corpus() + ([] if ctx.replay else gen(ctx))
    cases_small = [c for c in cases if c.get("build") == "small"]
    cases = [c for c in cases if c.get("build") != "small"]
    if not ctx.replay:
        cases_small += gen_repeated(ctx.rng, ctx.tier, "small")
    pipeline_retry(ctx, "props/C15.v", cases, binary, oracle, model_term, IMPORTS, nontrivial=nontrivial, show=show,
                 relation="Client::{chunk_get, fetch_and_decrypt_vault, get_or_create_scratchpad, data_get, data_get_public} "
                          "== ClientRead.{chunk_get, fetch_and_decrypt_vault, get_vault} / SelfEnc shadow read")
    if cases_small and binary:
        # whole-data reads of repeated chunk-aligned blocks need a run of >= 4 equal chunks in the large-file regime:
        # the MAX_CHUNK_SIZE=1024 build of the same harness (shared with C14)
        from props.C14 import build_small
        small = build_small(ctx)
        if small:
            pipeline_retry(ctx, "props/C15.v", cases_small, small, oracle, model_term, IMPORTS, nontrivial=nontrivial, show=show,
                           relation="Client::{data_get, data_get_public} == SelfEnc shadow read [MAX_CHUNK_SIZE=1024 build]")
