"""C20 -- upgraded services keep every setting, and antnode accepts what antctl writes.

harness/crates/c20 runs the real add_node (=> InstallNodeServiceCtxBuilder::build) and the real
NodeService::build_upgrade_install_context on the recorded service, and the real antnode binary (built
from the same tree with the cfg-guarded early exit that prints the parsed options) on both argument
lists.  The model (coq/model/SvcArgs.v) is compared token for token; the oracle states the property on
the two service definitions and on what antnode made of them."""
import itertools
import os
import re
from vpc import core
from vpc.core import cN, cbool, clist, copt, cstr, cpair

IMPORTS = "Require Import V.model.SvcArgs."
THEOREMS = ["install_upgrade_equiv", "upgrade_keeps_definition", "upgrade_port_is_the_only_difference",
            "every_installed_flag_is_known", "interp_install_is_intended", "written_args_conflict_free",
            "builders_match_source", "network_id_reaches_protocol_strings", "lifecycle_keeps_settings",
            "evm_subcommand_wins", "upgrade_installs_the_regenerated_definition",
            "testnet_never_queries_mainnet", "log_limits_as_written"]
RULE = ("option combinations over 27 parameters (peers: first/local/addrs/urls/testnet/ignore-cache/cache dir; "
        "network id, home-network, log format, upnp, ip, node/metrics/rpc ports, metrics server, owner (incl. upper "
        "case), log-file limits, rewards address, EVM network incl. custom, auto-restart, environment, user, user "
        "mode, observed port, upgrade-time environment): quick = a pairwise-complete covering set + 250 seeded random "
        "combinations + the genesis-with-peers stream; thorough = a 3-wise-complete covering set + 6000 random; a "
        "case is distinct by its full option vector, non-trivial when at least 3 optional settings are present")
ASSUMPTIONS = [
    "clap (third party) decides acceptance and interpretation: established by running the real antnode binary on "
    "every generated argument list (both builders), comparing its Debug dump with the intended configuration, and letting "
    "its real start-up run up to the first bootstrap-cache flush in a scratch HOME to see WHERE key, logs and cache land; "
    "the Coq theorems cover the builders, antnode's regenerated flag/arity/conflict tables and a positional reader",
    "the upgrade options are composed as cmd/node.rs::upgrade composes them (environment: provided or registry-wide; "
    "the auto_restart literal is re-read from the source); cmd/node.rs itself hard-wires the real ServiceController",
    "option combinations antctl's own command line refuses (--local with --network-contacts-url) are not installable "
    "and not generated; genesis + peers arises through ANT_PEERS and is generated",
    "the full option product (> 2^25) is covered by the theorems, not by execution (pairwise / 3-wise coverings run)",
]

PEER_A = "/ip4/1.2.3.4/udp/1200/quic-v1/p2p/12D3KooWRi6wF7yxWLuPSNskXc6kQ5cJ6eaymeMbCRdTnMesPgFx"
PEER_B = "/ip4/10.1.2.3/udp/40001/quic-v1"
REW_A = "0x03B770D9cD32077cC0bF330c13C114a87643B124"
REW_B = "0x8464135c8F25Da09e49BC8782676a84730C318bC"
CUSTOM = {"url": "http://localhost:8545", "token": "0x5FbDB2315678afecb367f032d93F642f64180aa3",
          "payments": "0x8464135c8F25Da09e49BC8782676a84730C318bC"}

# a service environment that names ANOTHER custom EVM network than any written sub-command
ENV_CUSTOM = [["RPC_URL", "http://other.example:9999/"], ["PAYMENT_TOKEN_ADDRESS", "0x1111111111111111111111111111111111111111"],
              ["DATA_PAYMENTS_ADDRESS", "0x2222222222222222222222222222222222222222"], ["UNRELATED", "x"]]

PARAMS = [
    ("first", [False, True]), ("local", [False, True]), ("addrs", [[], [PEER_A], [PEER_A, PEER_B], [PEER_B]]),
    ("urls", [[], ["http://a.example/contacts"], ["http://a.example/c", "http://b.example/d?x=1"]]),
    ("testnet", [False, True]), ("ignore_cache", [False, True]), ("cache_dir", [None, "$B/cache dir"]),
    ("network_id", [None, 5, 255]), ("home", [False, True]), ("log_format", [None, "json", "default"]),
    ("upnp", [False, True]), ("ip", [None, "10.0.0.1"]), ("node_port", [None, 12000]),
    ("metrics_port", [None, 13000]), ("enable_metrics", [False, True]), ("owner", [None, "bob", "Alice Smith"]),
    ("max_arch", [None, 0, 1, 7, 5000]), ("max_log", [None, 1, 9, 2000]), ("rewards", [REW_A, REW_B]),
    ("evm", ["one", "sepolia", CUSTOM]), ("auto_restart", [False, True]),
    ("env", [None, [["K", "V"], ["RUST_LOG", "a=b,c"]], [["EVM_NETWORK", "arbitrum-sepolia"], ["K", "V"]],
             [["EVM_NETWORK", "arbitrum-one"]], ENV_CUSTOM]),
    ("user", [None, "root"]), ("user_mode", [False, True]), ("rpc_ip", [None, "1.2.3.4"]), ("rpc_port", [8081, None]),
    ("observed_port", [None, 12001]), ("upgrade_env", [None, [["X", "Y"]], [["EVM_NETWORK", "arbitrum-sepolia"]], ENV_CUSTOM]),
    ("start_service", [True, False]), ("force", [False, True]),
    ("lifecycle", [[], ["start"], ["start", "stop"], ["refresh"], ["start", "refresh", "stop", "refresh", "start"]]),
]
PEER_KEYS = ("first", "local", "addrs", "urls", "testnet", "ignore_cache", "cache_dir")


def mk_case(vec):
    c = {"kind": "cfg", "peers": {}}
    for (k, _), v in zip(PARAMS, vec):
        if k in PEER_KEYS:
            c["peers"][k] = v
        else:
            c[k] = v
    return c


def installable(c):
    p = c["peers"]
    # antctl's own clap refuses --local together with --network-contacts-url
    if p["local"] and p["urls"]:
        return False
    # user-mode services run as the invoking user
    if c["user_mode"] and c["user"]:
        return False
    return True


def cli_reachable(c):
    """combinations the antctl command line itself can produce (genesis + peers needs ANT_PEERS)"""
    p = c["peers"]
    return not (p["first"] and (p["addrs"] or p["urls"]))


def covering(rng, t, tries=60):
    """greedy t-wise covering array over PARAMS, restricted to installable combinations"""
    idx = list(range(len(PARAMS)))
    need = set()
    for cols in itertools.combinations(idx, t):
        for vals in itertools.product(*[range(len(PARAMS[c][1])) for c in cols]):
            need.add((cols, vals))
    rows = []
    stale = 0
    while need and stale < 40:
        best, bestcov = None, -1
        for _ in range(tries):
            row = [rng.randrange(len(v)) for _, v in PARAMS]
            # seed the row with one still-uncovered tuple
            cols, vals = rng.choice(tuple(need)) if len(need) < 4000 else next(iter(need))
            for cc, vv in zip(cols, vals):
                row[cc] = vv
            case = mk_case([PARAMS[i][1][row[i]] for i in idx])
            if not installable(case) or not cli_reachable(case):
                continue
            cov = sum(1 for cols2 in itertools.combinations(idx, t)
                      if (cols2, tuple(row[c] for c in cols2)) in need) if t == 2 else \
                sum(1 for cols2 in rng.sample(list(itertools.combinations(idx, t)), 300)
                    if (cols2, tuple(row[c] for c in cols2)) in need)
            if cov > bestcov:
                best, bestcov = row, cov
        if best is None or bestcov <= 0:
            stale += 1
            continue
        stale = 0
        rows.append(best)
        for cols2 in itertools.combinations(idx, t):
            need.discard((cols2, tuple(best[c] for c in cols2)))
    return [mk_case([PARAMS[i][1][r[i]] for i in idx]) for r in rows], len(need)


def random_case(rng):
    while True:
        c = mk_case([rng.choice(v) for _, v in PARAMS])
        if installable(c) and cli_reachable(c):
            return c


def genesis_with_peers():
    """`ANT_PEERS=... antctl add --first`: cmd/node.rs extends the peers of a genesis node from the environment"""
    out = []
    for addrs, urls in (([PEER_A], []), ([PEER_A, PEER_B], []), ([], ["http://a.example/contacts"]), ([PEER_A], ["http://a.example/c"])):
        vec = [v[0] for _, v in PARAMS]
        c = mk_case(vec)
        c["peers"].update({"first": True, "addrs": addrs, "urls": urls})
        out.append(c)
    return out


# ------------------------------------------------------------------------------------------ model rendering
def c_cfg(c, o, observed=False):
    """the option combination as the model's `cfg` (textual forms as recorded by the implementation)"""
    rec = o["recorded"]
    p = c["peers"]
    evm = rec["evm"]
    if isinstance(evm, dict):
        cevm = "(EvmCustom %s %s %s)" % (cstr(evm["url"]), cstr(evm["token"]), cstr(evm["payments"]))
    else:
        cevm = {"evm-arbitrum-one": "EvmOne", "evm-arbitrum-sepolia": "EvmSepolia"}.get(evm, "EvmOne")
    lf = {None: "None", "json": "(Some LJson)", "default": "(Some LDefault)"}[c["log_format"]]
    metrics = c["metrics_port"] if c["metrics_port"] is not None else (40000 if c["enable_metrics"] else None)
    rpc = "%s:%d" % (c["rpc_ip"] or "127.0.0.1", c["rpc_port"] if c["rpc_port"] is not None else 40000)
    logdir = "$B/logs/antnode1"
    fields = [
        cstr(rpc), cstr("$B/data/antnode1"), cstr(logdir),
        cbool(p["first"]), cbool(p["local"]), clist([cstr(a) for a in p["addrs"]]), clist([cstr(u) for u in p["urls"]]),
        cbool(p["testnet"]), cbool(p["ignore_cache"]), copt(p["cache_dir"], cstr),
        copt(c["network_id"], cN), cbool(c["home"]), lf, cbool(c["upnp"]), copt(c["ip"], cstr),
        copt(c["observed_port"] if (observed and c["observed_port"] is not None) else c["node_port"], cN),
        copt(metrics, cN), copt(c["owner"].lower() if c["owner"] else None, cstr),
        copt(c["max_arch"], cN), copt(c["max_log"], cN), cstr(rec["rewards"]), cevm,
        cbool(c["auto_restart"]), cstr("antnode1"), cstr("$B/data/antnode1/antnode"), copt(c["user"], cstr),
    ]
    return "(mkCfg %s)" % " ".join(fields)


def listen_port(c):
    """the port the running node reports (harness LiveRpc)"""
    return c["observed_port"] if c["observed_port"] is not None else (c["node_port"] if c["node_port"] is not None else 45000)


def upgrade_port(c):
    """the --port the upgrade is expected to carry: the observed one once the node has been started"""
    life = c.get("lifecycle") or []
    if "start" in life or (not life and c["observed_port"] is not None):
        return listen_port(c)
    return c["node_port"]


def c_life(c):
    life = c.get("lifecycle") or []
    if not life:
        return clist(["(LStart %s)" % cN(c["observed_port"])] if c["observed_port"] is not None else [])
    return clist([{"start": "(LStart %s)" % cN(listen_port(c)), "stop": "LStop", "refresh": "LRefresh"}[x] for x in life])


def c_env(e):
    return copt(e, lambda l: clist([cpair(cstr(k), cstr(v)) for k, v in l]))


def c_ctx(x):
    return "(mkCtx %s %s %s %s %s %s)" % (clist([cstr(a) for a in x["args"]]), cbool(x["autostart"]), c_env(x["env"]),
                                           cstr(x["label"]), cstr(x["program"]), copt(x["username"], cstr))


def upgrade_env(c):
    return c["upgrade_env"] if c["upgrade_env"] is not None else c["env"]


def model_term(c, o):
    if "panic" in o or "add_error" in o or "upgrade_error" in o or "lifecycle_error" in o:
        return "false"
    t = "agree_ctxs_upgrade %s %s %s (mkU false %s) %s %s %s %s" % (
        c_cfg(c, o), c_env(c["env"]), c_life(c), c_env(upgrade_env(c)),
        cbool(c.get("force", False)), cbool(c.get("start_service", True)),
        c_ctx(o["install"]), c_ctx(o["upgrade"]))
    # what the node reports it runs with == the model's protocol strings for this configuration
    for which in ("install", "upgrade"):
        r = (o.get("antnode") or {}).get(which)
        if r and "VERIF_EFFECTS" in r["dump"]:
            pr = protocol_report(r)
            if pr is None or pr["held_identify_protocol"] != pr["identify_protocol"]:
                return "false"
            t += " && agree_protocol %s %s %s" % (c_cfg(c, o), cstr(pr["network_id"]), clist(
                [cstr(pr[k]) for k in ("identify_node", "identify_client", "req_response", "identify_protocol")]))
            ev = evm_report(r)
            if ev is None:
                return "false"
            t += " && agree_evm %s %s %s" % (c_cfg(c, o), c_env(o[which]["env"]), cstr(ev))
            lg = log_report(r)
            if lg is None:
                return "false"
            t += " && agree_log_limits %s %s %s" % (c_cfg(c, o), cN(lg[0]), cN(lg[1]))
            us, ms, _ = seen_sources(c, r)
            t += " && agree_sources %s %d%%nat 0%%nat 5%%nat 100%%nat %s %s" % (c_cfg(c, o), usable_peers(c), cbool(us), cbool(ms))
    return t


def show(c, o):
    return "(install_args %s, upgrade_args %s)" % (c_cfg(c, o), c_cfg(c, o, True))


# ------------------------------------------------------------------------------------------ oracle
def norm(s):
    s = re.sub(r"\s+", "", s)
    return s.replace(",)", ")").replace(",]", "]").replace(",}", "}")


def parse_dump(d):
    """top-level fields of the pretty Debug dump of Opt"""
    out, cur = {}, None
    for line in d.splitlines():
        m = re.match(r"^    (\w+): (.*)$", line)
        if m:
            cur = m.group(1)
            out[cur] = m.group(2)
        elif cur and line.startswith("    "):
            out[cur] += line
    return {k: norm(v).rstrip(",") for k, v in out.items()}


def q(s):
    return '"%s"' % s


def some(x):
    return "Some(%s)" % x


def intended(c, o, port):
    """what the configuration means, as the fields of antnode's Opt"""
    rec = o["recorded"]
    p = c["peers"]
    evm = rec["evm"]
    if isinstance(evm, dict):
        e = "Some(EvmCustom{rpc_url:%s,payment_token_address:%s,data_payments_address:%s})" % (
            q(evm["url"]), q(evm["token"]), q(evm["payments"]))
    else:
        e = {"evm-arbitrum-one": "Some(EvmArbitrumOne)", "evm-arbitrum-sepolia": "Some(EvmArbitrumSepolia)"}[evm]
    metrics = c["metrics_port"] if c["metrics_port"] is not None else (rec["metrics_port"] or 0)
    genesis = p["first"]
    peers = "PeersArgs{first:%s,addrs:[%s],network_contacts_url:[%s],local:%s,disable_mainnet_contacts:%s,ignore_cache:%s,bootstrap_cache_dir:%s}" % (
        str(p["first"]).lower(), "" if genesis else ",".join(p["addrs"]), "" if genesis else ",".join(q(u) for u in p["urls"]),
        str(p["local"]).lower(), str(p["testnet"]).lower(), str(p["ignore_cache"]).lower(),
        some(q(p["cache_dir"])) if p["cache_dir"] else "None")
    want = {
        "home_network": str(c["home"]).lower(), "upnp": str(c["upnp"]).lower(),
        "log_output_dest": "Path(%s)" % q(rec["log_dir"]),
        "log_format": {None: "None", "json": "Some(Json)", "default": "Some(Default)"}[c["log_format"]],
        "max_log_files": some(c["max_log"]) if c["max_log"] is not None else "None",
        "max_archived_log_files": some(c["max_arch"]) if c["max_arch"] is not None else "None",
        "network_id": some(c["network_id"]) if c["network_id"] is not None else "None",
        "rewards_address": some(q(rec["rewards"])), "evm_network": e, "root_dir": some(q(rec["data_dir"])),
        "port": str(port if port is not None else 0), "ip": c["ip"] or "0.0.0.0", "peers": peers,
        "rpc": some(rec["rpc"]), "owner": some(q(c["owner"].lower())) if c["owner"] else "None",
        "metrics_server_port": str(metrics),
    }
    return {k: norm(v) for k, v in want.items()}


HARNESS_FILES = {"$B/antnode", "$B/data/antnode1/antnode", "$B/node_registry.json"}
DEFAULT_CACHE_DIR = "$B/home/.local/share/autonomi/bootstrap_cache/"


PROTO_KEYS = ("network_id", "held_identify_protocol", "identify_protocol", "identify_node", "identify_client", "req_response")


def protocol_report(r):
    m = re.search(r"^VERIF_PROTOCOL (.*)$", r.get("dump", ""), re.M)
    if not m:
        return None
    d = dict(re.findall(r'(\w+)="([^"]*)"', m.group(1)))
    return d if all(k in d for k in PROTO_KEYS) else None


def strip_peers(d):
    """the gathered initial peers arrive in fetch-completion order: not part of the parsed-options comparison"""
    return re.sub(r"^VERIF_PEERS .*$", "", d, flags=re.M)


def mainnet_hosts():
    src = open(os.path.join(core.REPO, "ant-bootstrap/src/contacts.rs")).read()
    m = re.search(r"const MAINNET_CONTACTS: &\[&str\] = &\[(.*?)\];", src, re.S)
    return {re.sub(r"^https?://([^/:]+).*$", r"\1", u) for u in re.findall(r'"([^"]+)"', m.group(1))}


MAINNET = None


def usable_peers(c):
    """--peer addresses that survive craft_valid_multiaddr: the ones carrying /p2p/<peer id>"""
    return sum(1 for a in c["peers"]["addrs"] if "/p2p/" in a)


def seen_sources(c, r):
    global MAINNET
    if MAINNET is None:
        MAINNET = mainnet_hosts()
    url_hosts = {re.sub(r"^https?://([^/:]+).*$", r"\1", u) for u in c["peers"]["urls"]}
    hosts = []
    for line in r.get("requests", []):
        m = re.match(r"^(?:GET|HEAD|POST) https?://([^/: ]+)|^CONNECT ([^: ]+):", line)
        hosts.append((m.group(1) or m.group(2)) if m else line)
    return (any(h in url_hosts for h in hosts), any(h in MAINNET for h in hosts),
            [h for h in hosts if h not in url_hosts and h not in MAINNET])


def expect_no_peers(c):
    p = c["peers"]
    return not p["first"] and not p["local"] and usable_peers(c) == 0 and not p["urls"] and p["testnet"]


def contacts(c, which, r):
    """which contact endpoints the node queried for the written peers arguments (everything it fetches goes to the
    harness's recording proxy)"""
    p = c["peers"]
    urls_seen, mainnet_seen, other = seen_sources(c, r)
    out = []
    if p["testnet"] and mainnet_seen:
        out.append(("testnet-node-queries-mainnet", "%s-time arguments carry --testnet, yet the node queried the mainnet contacts: %s"
                    % (which, [x for x in r["requests"]][:4])))
    bad = []
    quiet = p["first"] or p["local"]
    if quiet and (urls_seen or mainnet_seen or other):
        bad.append("a %s node queried %s" % ("genesis" if p["first"] else "local", r["requests"][:4]))
    if other:
        bad.append("unexpected requests to %s" % other[:4])
    if not p["urls"] and urls_seen:
        bad.append("a contacts URL was queried though none is configured")
    if not quiet and p["urls"] and not urls_seen:
        bad.append("the configured contacts URLs %s were not queried" % p["urls"])
    if not quiet and not p["testnet"] and not mainnet_seen:
        bad.append("a default (non --testnet) node did not query the mainnet contacts")
    started = r["code"] == 0
    if expect_no_peers(c) and started:
        bad.append("nothing names a peer (--testnet, no usable --peer, no contacts URL) yet the node found initial peers")
    if not expect_no_peers(c) and not started:
        bad.append("the node gave up during start-up (exit %s): %s" % (r["code"], r["stderr"].strip().splitlines()[0][:200] if r["stderr"].strip() else ""))
    if bad:
        out.append(("contacts-not-as-configured", "%s-time arguments: %s" % (which, "; ".join(bad))))
    return out


def log_report(r):
    m = re.search(r"^VERIF_LOGCFG max_uncompressed_log_files=(\d+) max_log_files=(\d+)$", r.get("dump", ""), re.M)
    return (int(m.group(1)), int(m.group(2))) if m else None


def evm_report(r):
    m = re.search(r'^VERIF_EVM resolved="(.*)"$', r.get("dump", ""), re.M)
    return m.group(1) if m else None


def effects(c, o, which, r):
    """arguments whose interpretation is an EFFECT: after antnode's real start-up (root dir + key, logging, first
    bootstrap-cache flush, HOME inside the scratch dir) every file must be where the definition says"""
    rec = o["recorded"]
    p = c["peers"]
    bad = []
    files = [f for f in r.get("files", []) if f not in HARNESS_FILES]
    m = re.search(r'VERIF_EFFECTS root_dir="(.*?)" log_output_dest="(.*?)"', r["dump"])
    if not m:
        bad.append("antnode did not reach the end of its start-up effects")
    elif (m.group(1), m.group(2)) != (rec["data_dir"], rec["log_dir"]):
        bad.append("antnode uses root dir %r / log destination %r, the definition says %r / %r"
                   % (m.group(1), m.group(2), rec["data_dir"], rec["log_dir"]))
    keys = [f for f in files if f.endswith("/secret-key")]
    if keys != [rec["data_dir"] + "/secret-key"]:
        bad.append("node key file(s) %s, expected only %s/secret-key" % (keys, rec["data_dir"]))
    logs = [f for f in files if f.endswith(".log")]
    if not logs or any(not f.startswith(rec["log_dir"] + "/") for f in logs):
        bad.append("log file(s) %s, expected under %s/" % (logs, rec["log_dir"]))
    caches = [f for f in files if re.search(r"/bootstrap_cache[^/]*\.json$", f)]
    want_dir = (p["cache_dir"] + "/") if p["cache_dir"] else DEFAULT_CACHE_DIR
    # a local-mode node does not flush (a local genesis node still writes its empty cache once); whatever is
    # written has to be in the intended directory, and a non-local node must have written its cache there
    misplaced = [f for f in caches if not f.startswith(want_dir) or "/" in f[len(want_dir):]]
    if misplaced or len(caches) > 1 or (not p["local"] and len(caches) != 1):
        bad.append("bootstrap cache file(s) %s, expected %s directly under %s"
                   % (caches, "at most one" if p["local"] else "exactly one", want_dir))
    other = [f for f in files if f not in keys and f not in logs and f not in caches]
    if other:
        bad.append("unexpected file(s) %s" % other)
    # the run-time configuration derived from the arguments: network id and the protocol strings
    net_bad = None
    pr = protocol_report(r)
    want_id = str(c["network_id"] if c["network_id"] is not None else 1)
    if pr is None:
        bad.append("antnode did not report its network id / protocol strings")
    else:
        wrong = {k: v for k, v in pr.items() if (k == "network_id" and v != want_id) or
                 (k != "network_id" and not v.endswith("/" + want_id))}
        if wrong:
            net_bad = "network id %s is not what the node runs with: %s" % (want_id, wrong)
    net = re.search(r"^EVM network: (\w+)", r["dump"], re.M)
    want_net = "Custom" if isinstance(rec["evm"], dict) else {"evm-arbitrum-one": "ArbitrumOne", "evm-arbitrum-sepolia": "ArbitrumSepolia"}[rec["evm"]]
    if not net or net.group(1) != want_net:
        bad.append("effective EVM network %s, intended %s" % (net.group(1) if net else None, want_net))
    elif want_net == "Custom":
        low = r["dump"].lower()
        if rec["evm"]["token"].lower() not in low or rec["evm"]["payments"].lower() not in low:
            bad.append("effective custom EVM network does not carry the configured contract addresses")
    out = [("effect-at-intended-location", "%s-time arguments: %s" % (which, "; ".join(bad)))] if bad else []
    # the limits the log appender is really built with: archives kept <= the written limit (0 => none), plain files
    # as written
    lg = log_report(r)
    if lg is None:
        out.append(("log-limits-not-effective", "%s-time arguments: the node did not report its log appender limits" % which))
    else:
        u, t = lg
        lb = []
        if c["max_log"] is not None and u != c["max_log"]:
            lb.append("keeps %d plain log files, --max-log-files says %d" % (u, c["max_log"]))
        if c["max_arch"] is not None and t - u != c["max_arch"]:
            lb.append("keeps up to %d archived log files, --max-archived-log-files says %d" % (t - u, c["max_arch"]))
        if t < u:
            lb.append("total %d below the plain-file count %d" % (t, u))
        if lb:
            out.append(("log-limits-not-effective", "%s-time arguments: %s" % (which, "; ".join(lb))))
    # the EVM network the node resolves is the one named by the written sub-command, whatever the service
    # environment the manager wrote holds
    ev = evm_report(r)
    want_ev = ("evm-custom %s %s %s" % (rec["evm"]["url"], rec["evm"]["token"], rec["evm"]["payments"])) \
        if isinstance(rec["evm"], dict) else rec["evm"]
    if ev != want_ev:
        out.append(("evm-network-overridden", "%s-time arguments name %r but the node resolves %r (service environment %s)"
                    % (which, want_ev, ev, o[which]["env"])))
    if net_bad:
        out.append(("network-id-not-effective", "%s-time arguments: %s" % (which, net_bad)))
    return out


def pairs(args):
    """flag/value pairs of a token list up to the sub-command, by antnode's own reading order-insensitively"""
    return sorted(args)


def oracle(c, o):
    if "panic" in o:
        return [("panic", "the builders panicked: %s" % o["panic"])]
    if "add_error" in o or "upgrade_error" in o or "lifecycle_error" in o:
        return [("builder-error", "add_node / lifecycle / build_upgrade_install_context failed on an installable combination: %s"
                 % (o.get("add_error") or o.get("upgrade_error") or o.get("lifecycle_error")))]
    v = []
    ins, upg = o["install"], o["upgrade"]
    # same program, user, label; nothing else in the definition
    for fld in ("program", "username", "label", "contents", "working_directory"):
        if ins[fld] != upg[fld]:
            v.append(("definition-field-changed", "%s differs: installed %r, upgraded %r" % (fld, ins[fld], upg[fld])))
    if o["install_user_mode"] != o["upgrade_user_mode"]:
        v.append(("definition-field-changed", "user mode differs"))
    if ins["autostart"] != upg["autostart"]:
        v.append(("autostart-lost", "installed with autostart=%s, the upgrade writes autostart=%s (registry records auto_restart=%s)"
                  % (ins["autostart"], upg["autostart"], o["recorded"]["auto_restart"])))
    if upg["env"] != upgrade_env(c) or ins["env"] != c["env"]:
        v.append(("environment-changed", "environment: installed %r, upgraded %r, expected %r" % (ins["env"], upg["env"], upgrade_env(c))))
    # same arguments, differing only in the observed port
    def strip_port(args):
        a = list(args)
        if "--port" in a:
            i = a.index("--port")
            del a[i:i + 2]
        return a
    a_i, a_u = ins["args"], upg["args"]
    eff_port = upgrade_port(c)
    if eff_port != c["node_port"]:
        if "--port" not in a_u or a_u[a_u.index("--port") + 1] != str(eff_port):
            v.append(("observed-port-not-used", "the upgrade does not pass the observed port %s" % eff_port))
        a_i, a_u = strip_port(a_i), strip_port(a_u)
    if sorted(a_i) != sorted(a_u) or len(a_i) != len(a_u):
        v.append(("arguments-differ", "upgrade arguments are not a rearrangement of the installed ones: only installed %s, only upgraded %s"
                  % ([x for x in a_i if x not in a_u], [x for x in a_u if x not in a_i])))
    an = o.get("antnode")
    if an:
        for which, port in (("install", c["node_port"]), ("upgrade", eff_port)):
            r = an[which]
            if "VERIF_EFFECTS" not in r["dump"]:
                cls = "genesis-with-peers-refused" if (c["peers"]["first"] and (c["peers"]["addrs"] or c["peers"]["urls"])) else "antnode-refuses"
                v.append((cls, "antnode exits %s on the %s-time arguments: %s" % (r["code"], which, r["stderr"].strip().splitlines()[0] if r["stderr"].strip() else "")))
                continue
            got = parse_dump(r["dump"])
            want = intended(c, o, port)
            # fields are matched by name; a field antnode no longer prints under that name is not judged here
            bad = {k: (got[k], w) for k, w in want.items() if k in got and got[k] != w}
            if bad:
                v.append(("misinterpreted", "antnode reads the %s-time arguments differently from the configuration: %s" % (which, bad)))
        for which in ("install", "upgrade"):
            r = an[which]
            if "VERIF_EFFECTS" in r["dump"]:
                v += effects(c, o, which, r)
                v += contacts(c, which, r)
        if "VERIF_EFFECTS" in an["install"]["dump"] and "VERIF_EFFECTS" in an["upgrade"]["dump"] and eff_port == c["node_port"] \
                and strip_peers(an["install"]["dump"]) != strip_peers(an["upgrade"]["dump"]):
            v.append(("interpretations-differ", "antnode parses the install-time and upgrade-time arguments to different options"))
    seen, out = set(), []
    for cls, d in v:
        if cls not in seen:
            seen.add(cls)
            out.append((cls, d))
    return out


def nontrivial(c, o):
    n_opt = sum(1 for k, _ in PARAMS if (c["peers"].get(k) if k in PEER_KEYS else c.get(k)) not in (None, False, [], "one"))
    return repr(c) if n_opt >= 3 else None


def build_antnode(ctx, timeout=3000):
    """the antnode binary from the same tree, with the verif cfg (early exit printing the parsed options)"""
    env = dict(os.environ)
    # its own target dir: ant-networking is also a cdylib, so cargo writes deps/libant_networking.rlib WITHOUT a
    # hash; in a target dir shared with the harness workspace (other features / profile) the two builds overwrite
    # each other's rlib while both fingerprints stay "fresh", and antnode then fails to link against the wrong one
    target = core.TARGET + "-antnode"
    env.update({"CARGO_NET_OFFLINE": "true", "CARGO_TARGET_DIR": target, "RUSTFLAGS": "--cfg %s -Awarnings" % core.GUARD})
    env.setdefault("CARGO_INCREMENTAL", "0")
    with core.Lock("cargo"):
        rc, out = core.sh("timeout %d cargo build --offline -p ant-node --bin antnode 2>&1" % timeout, cwd=core.REPO, env=env,
                          timeout=timeout + 30)
    if rc != 0:
        ctx.tie_break("harness-build", "antnode", "the antnode binary no longer builds with the verif cfg:\n" + out[-4000:])
        return None
    return os.path.join(target, "debug", "antnode")


def run(ctx):
    ctx.regen_consts()
    ctx.level = "proof"
    ctx.prove("props/C20.v", THEOREMS, extra_trusted=[
        "model coq/model/SvcArgs.v (the two builders transcribed push by push) tied to the code by token-for-token "
        "comparison with the real InstallNodeServiceCtxBuilder / build_upgrade_install_context on every generated combination",
        "tools/consts.d/svc.py: push order of both builders, antnode's flag/arity table, declared conflicts, sub-commands "
        "re-read from the source (clap attributes) on every run",
        "clap, the real antnode binary with the cfg-guarded early exit (acceptance and interpretation by execution)",
        "harness/crates/c20, tools/props/C20.py (generator, oracle, Debug-dump reader)"])
    binary = ctx.cargo_build("c20")
    if binary is None:
        return
    antnode = build_antnode(ctx)
    rng = ctx.rng
    cases = ctx.corpus()
    if not ctx.replay:
        thorough = ctx.tier == "thorough"
        cov, left = covering(rng, 3 if thorough else 2)
        ctx.log("covering set: %d combinations, %d %d-tuples left uncovered (not installable)" % (len(cov), left, 3 if thorough else 2))
        cases += cov + genesis_with_peers() + [random_case(rng) for _ in range(6000 if thorough else 250)]
        ctx.cov["distribution"]["covering-set"] = len(cov)
    ctx.pipeline(cases, binary, oracle, model_term, IMPORTS, nontrivial=nontrivial, show=show,
                 relation="real builders (add_node install ctx, build_upgrade_install_context) == SvcArgs.install_ctx / upgrade_ctx, token for token",
                 shard_size=100, env_extra={"USER": "root", "ANTNODE_BIN": antnode or ""})
    if antnode is None:
        return
