"""C19 -- service lifecycle state matches the managed processes, even under faults.

The real add_node / ServiceManager::{start,stop,remove,upgrade} / refresh_node_registry run in
harness/crates/c19 against a simulated OS (a ServiceControl + RpcActions implementation with a fault
plan: the set of call indices that fail); the same histories are evaluated by coq/model/SvcLifecycle.v
inside coqc and compared step by step (outcome, every recorded service, OS state, the complete call
log).  The oracle below states the property directly on what the implementation did."""
import itertools
import os
import re
from vpc.core import cN, cbool, clist, copt, cstr

IMPORTS = "Require Import V.model.SvcLifecycle."
THEOREMS = ["running_has_live_pid", "refresh_syncs", "stop_leaves_nothing", "remove_leaves_nothing",
            "removed_stays_removed", "failed_op_never_newly_running", "port_conflict_refused",
            "names_and_dirs_unique", "save_load_identity", "lifecycle_invariants", "lifecycle_constants", "ok_clears_record",
            "add_saves_every_recorded_service", "save_load_all_values", "connected_peers_encoding_injective",
            "registry_serde_as_in_source"]
RULE = ("histories = lists of add / start / stop / remove / upgrade / refresh / kill / out-of-band restart over the services added so "
        "far, each with a fault plan (set of call indices that fail); quick: every history of <= 3 operations "
        "over the 15-operation alphabet (2 services) with every 0- and 1-fault placement, a seeded sample of "
        "2-fault placements, 201 directed port-boundary histories, plus seeded long histories (to 12 ops, option variants: port ranges, metrics "
        "server, genesis, keep-directories, forced / not-started / missing-binary upgrades, dynamic start-up "
        "delay); thorough: every history of <= 4 operations with every 0/1-fault placement, every 2-fault placement of "
        "the histories of <= 3 operations and 20000 sampled 2-fault placements of those of 4; a case is "
        "distinct/non-trivial by (sequence of (op kind, outcome), number of faults that hit a call)")
ASSUMPTIONS = [
    "the simulated OS is truthful: start of an unknown unit fails, uninstall of an unknown unit reports "
    "ServiceDoesNotExists, get_process_pid answers ServiceProcessNotFound exactly when no process runs from "
    "that binary; a fault is an error return without effect",
    "stop/remove clauses and removed-stays-removed are claimed for the antctl command discipline (every "
    "command refreshes the registry first, cmd/node.rs) and while no faulted get_process_pid hid a live "
    "process; without them the model proves the clauses false (recorded observations, not findings)",
    "serde_json and the file system are third-party: save/load identity of the real registry file is "
    "established by execution after every step; the Coq theorem covers the model's field encoding",
    "refresh_node_registry(full_refresh = true) needs a live gRPC endpoint and is not driven",
]

# the harness creates a scratch directory tree per history: keep it on tmpfs when there is one
ENV = {"USER": "root"}
if os.path.isdir("/dev/shm") and os.access("/dev/shm", os.W_OK):
    ENV["TMPDIR"] = "/dev/shm"

KINDS = {"port": 0, "install": 1, "pid": 2, "start": 3, "stop": 4, "uninstall": 5, "wait": 6,
         "rpc_connected": 7, "rpc_node_info": 8, "rpc_network_info": 9}
BAD = 999999


# ------------------------------------------------------------------------------------------ rendering
def c_prange(v):
    if v is None:
        return "None"
    if isinstance(v, list):
        return "(Some (PRange %s %s))" % (cN(v[0]), cN(v[1]))
    return "(Some (PSingle %s))" % cN(v)


def c_op(o):
    k = o["op"]
    i = "%d%%nat" % o.get("i", 0)
    if k == "add":
        return "(OAdd (mkAdd %s %s %s %s %s %s))" % (
            copt(o.get("count"), cN), c_prange(o.get("node_port")), c_prange(o.get("metrics_port")),
            c_prange(o.get("rpc_port")), cbool(o.get("metrics", False)), cbool(o.get("first", False)))
    if k == "start":
        return "(OStart %s %s)" % (i, cbool(o.get("dyn", False)))
    if k == "stop":
        return "(OStop %s)" % i
    if k == "remove":
        return "(ORemove %s %s)" % (i, cbool(o.get("keep", False)))
    if k == "upgrade":
        return "(OUpgrade %s %s %s %s %s %s)" % (
            i, cbool(o.get("force", False)), cbool(o.get("start", True)), cN(o.get("tv", 2)),
            cbool(o.get("binok", True)), cbool(o.get("dyn", False)))
    if k == "refresh":
        return "ORefresh"
    if k == "kill":
        return "(OKill %s)" % i
    if k == "restart":
        return "(ORestart %s)" % i
    raise ValueError(k)


def num_of(name, pat):
    m = re.fullmatch(pat, name)
    return int(m.group(1)) if m else BAD


def o2n(x):
    return 0 if x is None else x + 1


def svc_view(n):
    name = n["name"]
    shape_ok = (n["data_dir"] == "data/" + name and n["log_dir"] == "logs/" + name and
                n["bin"] == "data/" + name + "/antnode" and n["data_dir_exists"] == n["log_dir_exists"])
    v = n["version"] if isinstance(n["version"], int) else BAD
    return [n["number"], n["status"], o2n(n["pid"]), v, o2n(n["node_port"]), o2n(n["metrics_port"]), n["rpc_port"],
            o2n(n.get("peers_n")), int(n["listen"]), int(n["peer_id"]), int(n["first"]),
            (int(n["data_dir_exists"]) if shape_ok else 7)]


def os_view(s):
    os_ = s["os"]
    inst = []
    for name, prog in os_["installed"]:
        k = num_of(name, r"antnode(\d+)")
        inst.append(k if prog == "data/%s/antnode" % name else BAD)
    procs = []
    for path, pid in os_["procs"]:
        procs.append((num_of(path, r"data/antnode(\d+)/antnode"), pid))
    flat = []
    for k, p in sorted(procs):
        flat += [k, p]
    return [[os_["next_pid"], os_["next_port"], os_["nc"]], sorted(inst), flat, list(reversed(s["killed"]))]


def nn(ll):
    return clist([clist([cN(x) for x in l]) for l in ll])


def log_view(log):
    out = []
    for kind, arg, faulted in log:
        if kind in ("port", "wait"):
            a = 0 if arg == "" else BAD
        elif kind == "pid":
            a = num_of(arg, r"data/antnode(\d+)/antnode")
        else:
            a = num_of(arg, r"antnode(\d+)")
        out.append([KINDS.get(kind, BAD), a, int(faulted)])
    return out


def model_term(c, o):
    if "panic" in o:
        return "false"
    steps = []
    for s in o["steps"]:
        steps.append("(%s, %s, %s, %s, %s)" % (cN(s["out"]), nn([svc_view(n) for n in s["reg"]]),
                                               clist([cstr(n["name"]) for n in s["reg"]]), nn(os_view(s)),
                                               cbool(s.get("disk_same", True))))
    return "agree_hist %s %s %s %s" % (clist([cN(f) for f in c.get("faults", [])]),
                                       clist([c_op(x) for x in c["ops"]]), clist(steps), nn(log_view(o["log"])))


def show(c, o):
    F = clist([cN(f) for f in c.get("faults", [])])
    ops = clist([c_op(x) for x in c["ops"]])
    return ("let w := run %s %s in (map (svc_view (wenv w)) (reg w), os_view (wenv w), log_view (wenv w), "
            "map (fun k => snd (step %s (run %s (firstn k %s)) (nth k %s ORefresh))) (seq 0 (List.length %s)))"
            % (F, ops, F, F, ops, ops, ops))


# ------------------------------------------------------------------------------------------ oracle
OKS = (0, 10, 11, 12, 13)
MANAGER_OPS = ("start", "stop", "remove", "upgrade")


def requested_ports(op):
    ps = set()
    for k in ("node_port", "metrics_port", "rpc_port"):
        v = op.get(k)
        if v is None:
            continue
        if isinstance(v, list):
            ps.update(range(v[0], v[1] + 1))
        else:
            ps.add(v)
    return ps


def oracle(c, o):
    """The property, stated on the recorded execution of the real code and the simulated OS."""
    if "panic" in o:
        return [("panic", "the lifecycle code panicked: %s" % o["panic"])]
    v = []
    pre = {"reg": [], "os": {"installed": [], "procs": [], "nc": 0}, "killed": []}
    probe_fault = False         # some get_process_pid call was made to fail
    prev_kind = None
    for k, (op, s) in enumerate(zip(c["ops"], o["steps"])):
        kind = op["op"]
        calls = o["log"][pre["os"]["nc"]:s["os"]["nc"]]
        if any(x[0] == "pid" and x[2] for x in calls):
            probe_fault = True
        procs = {p: pid for p, pid in s["os"]["procs"]}
        installed = {nme for nme, _ in s["os"]["installed"]}
        where = "step %d (%s)" % (k, kind)
        if not s["reload_ok"]:
            v.append(("reload-differs", where + ": the registry file saved after the step does not load back to the same state"))
        # a service recorded as running has a live process with the recorded pid
        for n in s["reg"]:
            if n["status"] == 1:
                livepid = procs.get(n["bin"])
                if n["pid"] is None or (livepid != n["pid"] and n["pid"] not in s["killed"]):
                    v.append(("running-without-process", "%s: %s recorded Running with pid %s, live pid %s"
                              % (where, n["name"], n["pid"], livepid)))
                elif kind == "refresh" and not probe_fault and livepid != n["pid"]:
                    v.append(("stale-running-after-refresh", "%s: %s still Running (pid %s) though its process is gone"
                              % (where, n["name"], n["pid"])))
            elif n["pid"] is not None:
                v.append(("pid-without-running", "%s: %s has status %d but records pid %s" % (where, n["name"], n["status"], n["pid"])))
        i = op.get("i", 0)
        step_probe_fault = any(x[0] == "pid" and x[2] for x in calls)
        pre_procs = {p: pid for p, pid in pre["os"]["procs"]}
        pre_installed = {nme for nme, _ in pre["os"]["installed"]}
        if kind in MANAGER_OPS and i < len(s["reg"]) and i < len(pre["reg"]):
            n = s["reg"][i]
            b = pre["reg"][i]
            was_live = b["bin"] in pre_procs
            # "a successful stop or removal leaves no process and no recorded PID" -- after ANY stop / removal /
            # upgrade-without-start that reports success, whatever came before and whatever was made to fail
            done = (kind in ("stop", "remove") and s["out"] == 0) or \
                   (kind == "upgrade" and not op.get("start", True) and s["out"] in (11, 12))
            if done:
                if n["pid"] is not None or n["status"] == 1:
                    v.append(("%s-ok-but-recorded-running" % kind, "%s: reported success (code %d) but %s is recorded with "
                              "status %d and pid %s" % (where, s["out"], n["name"], n["status"], n["pid"])))
                if kind == "remove" and (n["status"] != 3 or n["name"] in installed):
                    v.append(("remove-incomplete", "%s: reported success but %s has status %d, still installed: %s"
                              % (where, n["name"], n["status"], n["name"] in installed)))
                if n["bin"] in procs:
                    what = "%s: reported success (code %d) but the process of %s is alive (pid %s)" % (
                        where, s["out"], n["name"], procs[n["bin"]])
                    if was_live and b["status"] != 1:
                        # known class: the process was launched by a start that then failed (or otherwise escaped
                        # the registry) and the record was not Running, so the manager does not touch it
                        v.append(("untracked-process-survives", what + "; before the operation it was alive while "
                                  "the record said status %d" % b["status"]))
                    elif was_live and b["status"] == 1 and step_probe_fault:
                        # known class: get_process_pid itself failed and any error is read as "already stopped"
                        v.append(("probe-error-treated-as-stopped", what + "; the get_process_pid call of this "
                                  "operation was made to fail"))
                    else:
                        v.append(("%s-left-process" % kind, what))
        # a failed operation never newly records a service as running
        if kind in MANAGER_OPS + ("add",) and s["out"] not in OKS:
            for j, n in enumerate(s["reg"]):
                was = pre["reg"][j]["status"] if j < len(pre["reg"]) else None
                if n["status"] == 1 and was != 1 and (n["pid"] is None or procs.get(n["bin"]) != n["pid"]):
                    v.append(("failed-op-newly-running", "%s failed (code %d) yet %s went from %s to Running "
                              "with no such process" % (where, s["out"], n["name"], was)))
        # a removed service (no process, no definition left) stays removed
        for j, p in enumerate(pre["reg"]):
            if p["status"] == 3 and p["bin"] not in pre_procs and p["name"] not in pre_installed:
                if j >= len(s["reg"]) or s["reg"][j]["status"] != 3 or s["reg"][j]["name"] != p["name"]:
                    v.append(("removed-came-back", "%s: %s was Removed and is now %s" % (
                        where, p["name"], s["reg"][j]["status"] if j < len(s["reg"]) else "gone")))
        # add_node saves what it records: the file it leaves is the in-memory registry, also when the batch is cut
        # short; and a new service never takes a name that is still installed from an earlier (lost) record
        if kind == "add":
            if not s.get("disk_same", True):
                v.append(("add-unsaved-services", "%s (code %d): the registry file add_node left differs from its in-memory "
                          "registry: recorded services would be lost to the next command" % (where, s["out"])))
            for n in s["reg"][len(pre["reg"]):]:
                if n["name"] in pre_installed:
                    v.append(("add-reuses-installed-name", "%s: new service %s takes the name of a service definition that "
                              "is already installed" % (where, n["name"])))
        # names and directories are never shared
        for fld in ("name", "data_dir", "log_dir", "number"):
            vals = [n[fld] for n in s["reg"]]
            dup = sorted({str(x) for x in vals if vals.count(x) > 1})
            if dup:
                v.append(("duplicate-name-or-dir", "%s: two recorded services share %s %s" % (where, fld, dup)))
        # a requested port already on record is refused
        if kind == "add":
            taken = set()
            for n in pre["reg"]:
                taken.update(x for x in (n["node_port"], n["metrics_port"], n["rpc_port"]) if x is not None)
            clash = requested_ports(op) & taken
            if clash and (s["out"] in OKS or s["reg"] != pre["reg"] or s["os"]["installed"] != pre["os"]["installed"]):
                v.append(("port-conflict-accepted", "%s: requested port(s) %s already recorded, outcome %d, registry %s"
                          % (where, sorted(clash), s["out"], "changed" if s["reg"] != pre["reg"] else "unchanged")))
        pre = s
        prev_kind = kind
    # one violation per class and case is enough
    seen, out = set(), []
    for cls, d in v:
        if cls not in seen:
            seen.add(cls)
            out.append((cls, d))
    return out


# ------------------------------------------------------------------------------------------ generator
def alphabet():
    ops = [{"op": "add"}, {"op": "add", "count": 2}]
    for i in (0, 1):
        ops += [{"op": "start", "i": i}, {"op": "stop", "i": i}, {"op": "remove", "i": i},
                {"op": "upgrade", "i": i, "tv": 2}, {"op": "kill", "i": i}, {"op": "restart", "i": i}]
    ops.append({"op": "refresh"})
    return ops


def exhaustive(maxlen):
    al = alphabet()
    out = []
    for first in al[:2]:
        for ln in range(0, maxlen):
            for rest in itertools.product(al, repeat=ln):
                out.append([first] + list(rest))
    return out


def rand_prange(rng, count):
    base = rng.choice([5000, 5001, 5002, 6000, 6001, 12000])
    if rng.random() < 0.15:
        return rng.choice([40000, 40001, 40002, 50001, 50002])       # collide with allocated / observed ports
    if count in (None, 1) and rng.random() < 0.7:
        return base
    c = count or 1
    if rng.random() < 0.8 and c >= 2:
        return [base, base + c - 1]
    return [base, base + rng.choice([1, 2])]


def rand_op(rng, nsvc):
    r = rng.random()
    i = rng.randrange(0, max(1, nsvc + (1 if rng.random() < 0.05 else 0)))
    if r < 0.16 or nsvc == 0:
        count = rng.choice([None, None, 1, 2, 2, 3, 0])
        o = {"op": "add"}
        if count is not None:
            o["count"] = count
        if rng.random() < 0.4:
            o["node_port"] = rand_prange(rng, count)
        if rng.random() < 0.25:
            o["metrics_port"] = rand_prange(rng, count)
        if rng.random() < 0.25:
            o["rpc_port"] = rand_prange(rng, count)
        if rng.random() < 0.5:
            o["rpc_ip"] = rng.choice(["127.0.0.1", "10.0.0.7", "0.0.0.0"])
        if rng.random() < 0.3:
            o["metrics"] = True
        if rng.random() < 0.12:
            o["first"] = True
        return o
    if r < 0.36:
        return {"op": "start", "i": i, "dyn": rng.random() < 0.4}
    if r < 0.50:
        return {"op": "stop", "i": i}
    if r < 0.62:
        return {"op": "remove", "i": i, "keep": rng.random() < 0.3}
    if r < 0.76:
        return {"op": "upgrade", "i": i, "force": rng.random() < 0.25, "start": rng.random() < 0.75,
                "tv": rng.choice([1, 2, 2, 3, 4]), "binok": rng.random() < 0.9, "dyn": rng.random() < 0.3}
    if r < 0.90:
        return {"op": "refresh"}
    return {"op": rng.choice(["kill", "restart"]), "i": i}


def rand_history(rng, cmd_style):
    n = rng.randrange(3, 13)
    ops, nsvc = [], 0
    while len(ops) < n:
        o = rand_op(rng, nsvc)
        if o["op"] == "add":
            nsvc += o.get("count", 1) if o.get("count") is not None else 1
        if cmd_style and o["op"] in MANAGER_OPS:
            ops.append({"op": "refresh"})
        ops.append(o)
    nf = rng.choice([0, 1, 1, 2, 2, 3])
    return {"faults": sorted(rng.sample(range(0, 6 * n), nf)), "ops": ops}


def directed():
    """port-boundary histories: a second add requests a single port / the first / the last port of a range
    that an earlier service records as node, metrics or rpc port (incl. allocated and observed ports)"""
    out = []
    for fld in ("node_port", "metrics_port", "rpc_port"):
        for first in ({"op": "add", fld: 6000}, {"op": "add", "count": 3, fld: [6000, 6002]}):
            taken = [6000] if "count" not in first else [6000, 6001, 6002]
            for fld2 in ("node_port", "metrics_port", "rpc_port"):
                for t in taken:
                    out.append([first, {"op": "add", fld2: t}])
                    out.append([first, {"op": "add", "count": 2, fld2: [t - 1, t]}])
                    out.append([first, {"op": "add", "count": 2, fld2: [t, t + 1]}])
                    out.append([first, {"op": "add", "count": 3, fld2: [t - 2, t]}])
                out.append([first, {"op": "add", "count": 2, fld2: [5998, 5999]}])
                out.append([first, {"op": "add", "count": 2, fld2: [6003, 6004]}])
    for fld2 in ("node_port", "metrics_port", "rpc_port"):
        # ports handed out by get_available_port (40000 rpc, 40001 metrics) and the port observed after a start (50001)
        pre = [{"op": "add", "metrics": True}, {"op": "start", "i": 0}]
        for t in (40000, 40001, 50001):
            out.append(pre + [{"op": "add", fld2: t}])
            out.append(pre + [{"op": "add", "count": 2, fld2: [t - 1, t]}])
        # a removed service still blocks its ports
        out.append([{"op": "add", "node_port": 6000}, {"op": "remove", "i": 0}, {"op": "add", fld2: 6000}])
    # the RPC address (None / loopback / another interface) is orthogonal to every port option and every recorded
    # port role: the same histories again with --rpc-address on the requesting add, and on the recording one
    with_addr = []
    for ops in out:
        for ip in ("127.0.0.1", "10.0.0.7"):
            ops2 = [dict(o) for o in ops]
            ops2[-1]["rpc_ip"] = ip
            with_addr.append(ops2)
        ops3 = [dict(o) for o in ops]
        ops3[0]["rpc_ip"] = "10.0.0.7"
        with_addr.append(ops3)
    out += with_addr
    return [{"faults": [], "ops": ops} for ops in out]


def batch_add_histories():
    """batch adds whose later iterations make calls that can fail (no fixed rpc port / metrics server on),
    followed by another add from the file: every single-fault placement is run on them"""
    out = []
    for first in ({"op": "add", "count": 2, "metrics": True}, {"op": "add", "count": 3},
                  {"op": "add", "count": 3, "metrics": True, "node_port": [7000, 7002]},
                  {"op": "add", "count": 2, "rpc_port": [7100, 7101], "metrics": True}):
        out.append({"faults": [], "ops": [first, {"op": "add"}]})
        out.append({"faults": [], "ops": [{"op": "add"}, first, {"op": "add", "count": 2}]})
    return out


def dead_process_histories():
    """a service recorded Running whose process has died (or whose probe is made to fail by a placement), then
    every operation that has to end with 'nothing running, nothing recorded'"""
    pre = [{"op": "add"}, {"op": "start", "i": 0}]
    out = []
    for tail in ([{"op": "stop", "i": 0}], [{"op": "remove", "i": 0}], [{"op": "refresh"}, {"op": "remove", "i": 0}],
                 [{"op": "upgrade", "i": 0, "tv": 2, "start": False}], [{"op": "upgrade", "i": 0, "tv": 2, "start": False, "force": True}],
                 [{"op": "upgrade", "i": 0, "tv": 2}], [{"op": "start", "i": 0}], [{"op": "refresh"}, {"op": "stop", "i": 0}]):
        out.append({"faults": [], "ops": pre + [{"op": "kill", "i": 0}] + tail})
        out.append({"faults": [], "ops": pre + [{"op": "restart", "i": 0}] + tail})
        out.append({"faults": [], "ops": pre + [{"op": "restart", "i": 0}, {"op": "refresh"}] + tail})
        out.append({"faults": [], "ops": pre + tail})
    return out


class Runner:
    """runs batches through ctx.pipeline and remembers how many calls each case made"""

    def __init__(self, ctx, binary):
        self.ctx, self.binary, self.ncalls = ctx, binary, {}

    def _oracle(self, c, o):
        if "steps" in o and o["steps"]:
            self.ncalls[c["_id"]] = o["steps"][-1]["os"]["nc"]
        return oracle(c, o)

    def run(self, cases):
        if not cases:
            return
        self.ctx.pipeline(cases, self.binary, self._oracle, model_term, IMPORTS, nontrivial=nontrivial, show=show,
                          relation="real add_node/ServiceManager/refresh_node_registry + simulated OS == "
                                   "SvcLifecycle.step, step by step (outcome, registry, OS, call log)",
                          shard_size=400, env_extra=ENV)


def nontrivial(c, o):
    if "panic" in o:
        return ("panic",)
    hits = sum(1 for x in o["log"] if x[2])
    return (tuple((op["op"], s["out"]) for op, s in zip(c["ops"], o["steps"])), hits)


def placements(runner, base, rng, limit=None):
    """all single-fault placements over the calls a history makes"""
    out = []
    for c in base:
        m = runner.ncalls.get(c["_id"], 0)
        for i in range(m):
            out.append({"faults": c["faults"] + [i], "ops": c["ops"]})
    if limit is not None and len(out) > limit:
        out = rng.sample(out, limit)
    return out


def second_placements(runner, singles, rng, limit=None):
    out = []
    for c in singles:
        m = runner.ncalls.get(c["_id"], 0)
        for j in range(c["faults"][-1] + 1, m):
            out.append({"faults": c["faults"] + [j], "ops": c["ops"]})
    if limit is not None and len(out) > limit:
        out = rng.sample(out, limit)
    return out


def tag(cases, start):
    for k, c in enumerate(cases):
        c["_id"] = start + k
        c.setdefault("kind", "hist")
    return start + len(cases)


def run(ctx):
    ctx.regen_consts()
    ctx.prove("props/C19.v", THEOREMS, extra_trusted=[
        "model coq/model/SvcLifecycle.v (hand-written transcription of ServiceManager / add_node / "
        "refresh_node_registry / NodeService callbacks + the simulated OS) tied to the code by this run's "
        "step-by-step correspondence incl. the complete ServiceControl/RPC call log",
        "harness/crates/c19 (the simulated OS and fault plan as ServiceControl + RpcActions implementations; "
        "save + reload of the registry file after every step)",
        "tools/props/C19.py (generator, oracle, canonicaliser); tools/consts.d/svc.py (numbering basis, "
        "refresh-first discipline of cmd/node.rs re-read from the source)"])
    binary = ctx.cargo_build("c19")
    if binary is None:
        return
    r = Runner(ctx, binary)
    nid = 0
    corpus = ctx.corpus()
    nid = tag(corpus, nid)
    r.run(corpus)
    if ctx.replay:
        return
    rng = ctx.rng
    thorough = ctx.tier == "thorough"
    base = [{"faults": [], "ops": ops} for ops in exhaustive(4 if thorough else 3)] + dead_process_histories() + batch_add_histories()
    nid = tag(base, nid)
    r.run(base)
    singles = placements(r, base, rng)
    nid = tag(singles, nid)
    r.run(singles)
    if thorough:
        # every 2-fault placement of every history of <= 3 operations, and a large sample for length 4
        short = [c for c in singles if len(c["ops"]) <= 3]
        doubles = second_placements(r, short, rng, None) + \
            second_placements(r, [c for c in singles if len(c["ops"]) > 3], rng, 20000)
    else:
        doubles = second_placements(r, singles, rng, 1500)
    nid = tag(doubles, nid)
    r.run(doubles)
    dirs = directed()
    nid = tag(dirs, nid)
    r.run(dirs)
    ctx.cov["distribution"]["directed port-boundary histories"] = len(dirs)
    longs = [rand_history(rng, k % 2 == 0) for k in range(3000 if thorough else 500)]
    nid = tag(longs, nid)
    r.run(longs)
    ctx.cov["exhaustive"] = True
    ctx.cov["distribution"]["histories<=%d-ops exhaustive" % (4 if thorough else 3)] = len(base)
    ctx.cov["distribution"]["single-fault placements"] = len(singles)
    ctx.cov["distribution"]["double-fault placements"] = len(doubles)
    ctx.cov["distribution"]["long random histories"] = len(longs)
