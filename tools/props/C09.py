"""C09 -- records held by a node replicate to in-range neighbours and replicas converge.

Implementation side: harness/crates/c09 wires two or three REAL nodes (node-mode SwarmDriver with its
record store, replication fetcher and routing table + the real ant-node Node) together in one
process; the case decides which undelivered message is delivered when. Model side:
coq/model/Replication.v run step by step on what the implementation did (agree_case)."""
import json
from vpc.core import cN, clist, cbool

IMPORTS = "Require Import V.model.Replication."
THEOREMS = ["advertises_everything_held", "advert_reaches_every_candidate", "acts_only_on_close_holders",
            "acts_only_on_k_closest",
            "fetches_only_unheld", "immutable_replicates_identically", "fetched_record_is_holders_or_merge",
            "mutable_converges_if_fetched", "scratchpad_highest_counter_wins", "sync_replicates_missing",
            "periodic_replication_converges_outside_known", "periodic_replication_converges_refuted",
            "replication_targets_are_peers_within_range", "range_sync_is_assignment", "range_history_last_wins", "in_range_advert_is_fetched",
            "out_of_range_not_fetched",
            "delivery_order_irrelevant_for_missing", "on_replicate_without_range",
            "on_replicate_matches_fetcher_model"]
RULE = ("scenarios over 2-3 real nodes: (a) every node seeded with records of all kinds through the real "
        "replication-path validation, mutual or one-directional routing-table entries, interval replication "
        "at every node, all messages delivered in a seeded random order, several rounds; (b) divergent "
        "versions of a register / transaction set / scratchpad at one key on two nodes (F16 witness family); "
        "(c) explicit replication lists from holders that are self / unknown / not a peer, lists naming held "
        "keys, keys the holder cannot serve, repeated lists while a fetch is in flight; (d) partial "
        "deliveries and lost messages; (e) receivers with a finite responsible range: the store's range is set "
        "to the distance of the r-th nearest of the advertised keys (at / one below / one above), a record put "
        "into the receiver makes the driver copy it into the fetcher, then the range grows / shrinks / grows "
        "again with or without a further put (the un-synced lag), and lists with 0, 1, 2 or more new keys "
        "within / between / beyond the ranges arrive (families regrow, regrow-lag, zigzag, boundary); "
        "(f) routing tables of more than K_VALUE peers with lists from the holder at an exact distance rank "
        "(K-2, K-1, K, K+1, ...); (g) an advertiser whose range is exactly on / one off the distance of its r-th "
        "nearest routing-table peer (r around CLOSE_GROUP_SIZE+1, family edge); (h) two versions of a mutable "
        "record handed to / fetched by a node that did not hold it while the store's AddLocalRecordAsStored "
        "follow-up is held back, both orders (family window); (i) a store above MAX_RECORDS_COUNT/10 records that "
        "runs its irrelevant-record clean-up before a list arrives (family bigstore); (j) failing disk writes at "
        "the receiver, repaired, records re-offered (family diskfail). A case is distinct/non-trivial by (family, number of nodes, number of "
        "effective steps, set of message kinds delivered, whether a fetch stored something, whether stores "
        "ended equal)")
ASSUMPTIONS = [
    "the closest-K set and the replication targets are NOT taken from the node: the model and the oracle compute them from the routing-table peers and SHA-256-XOR distances the harness computes itself, K_VALUE re-read from the libp2p-kad source",
    "distances between nodes and keys / peers are computed by the harness (SHA-256 of the key / PeerId bytes, XOR, big-endian) independently of the repository's own conversion and handed to the model as a table",
    "the fetcher's range itself is not observable through a hook: the oracle judges from the ranges the TEST set and the points where a PutLocalRecord command was handled (where the driver copies the store's range into the fetcher); the density tick that also copies it is not reachable from the harness",
    "the fetcher is modelled only inside the envelope of the bridge theorem on_replicate_matches_fetcher_model (idle queue, cap not reached, no advertised unheld entry already in flight next to another unheld one) and without timeouts; the agreement stops comparing a run at the step that leaves the envelope (the oracle still judges it); full transcription and theorems: C08",
    "record validity (signatures, content address) is a flag computed by the generator from how the record was built (C04/C06/C07 verify the validators)",
    "the record store's index-vs-cache window (between PutLocalRecord and AddLocalRecordAsStored) is not in the Coq model: the lock-step comparison ends at the first hold_local op of a case, the oracle judges the rest from what the store serves",
    "libp2p transport is replaced by the harness; message loss/reordering is explicit in the case"]


# ---------------------------------------------------------------------------------------------
class Names:
    def __init__(self):
        self.keys, self.bases, self.hashes = {}, {}, {}

    def kid(self, name):
        return self.keys.setdefault(json.dumps(name, sort_keys=True), len(self.keys) + 1)

    def bid(self, base):
        return self.bases.setdefault(json.dumps(base, sort_keys=True), len(self.bases) + 1)

    def hid(self, hexs):
        return self.hashes.setdefault(hexs, len(self.hashes) + 1)


def pad_valid(p):
    s = p.get("sig")
    return isinstance(s, dict) and s.get("by") == p["owner"] and s.get("ctr") == p["ctr"] and s.get("data") == p["data"]


def tx_valid(t):
    s = t.get("sig")
    return isinstance(s, dict) and s.get("by") == t["owner"] and s.get("content") == t["content"]


def canon(desc, names):
    """describe-JSON of a stored/served record -> hashable canonical content"""
    t = desc.get("t")
    if t == "chunk" and isinstance(desc.get("c"), dict) and "d" in desc["c"]:
        return ("chunk", desc["c"]["d"])
    if t == "pad":
        p = desc["pad"]
        if "owner" not in p:
            return ("raw", json.dumps(desc, sort_keys=True))
        return ("pad", p["owner"], p["ctr"], p["data"], pad_valid(p))
    if t == "reg":
        return ("reg", names.bid(desc["base"]), frozenset(o.get("id", -1) for o in desc["ops"]))
    if t == "txs":
        return ("txs", frozenset(x.get("owner", 0) * 1000 + x.get("content", -1) for x in desc["list"]))
    return ("raw", json.dumps(desc, sort_keys=True))


def content_term(c):
    if c[0] == "chunk":
        return "(CChunk %s)" % cN(c[1])
    if c[0] == "pad":
        return "(CPad %s %s %s %s)" % (cN(c[1]), cN(c[2]), cN(c[3]), cbool(c[4]))
    if c[0] == "reg":
        return "(CReg %s %s)" % (cN(c[1]), clist([cN(x) for x in sorted(c[2])]))
    if c[0] == "txs":
        return "(CTxs %s)" % clist([cN(x) for x in sorted(c[1])])
    return "(CChunk 999999)"


def body_canon(body, names):
    """canonical content + validity of a record the generator asks to seed"""
    t = body["t"]
    if t == "chunk":
        return ("chunk", body["c"]["d"]), True
    if t == "pad":
        return ("pad", body["owner"], body["ctr"], body["data"], pad_valid(body)), True
    if t == "reg":
        base = {"owner": body["owner"], "meta": body["meta"], "perm": body["perm"], "osig": body["osig"]}
        return ("reg", names.bid(base), frozenset(o["id"] for o in body["ops"])), True
    if t == "txs":
        return ("txs", frozenset(x["owner"] * 1000 + x["content"] for x in body["list"] if tx_valid(x))), True
    return ("raw", "?"), False


def rtype_term(t, names):
    if t == "chunk":
        return "TChunk"
    if t == "pad":
        return "TPad"
    if isinstance(t, dict) and "nc" in t:
        return "(TNonChunk %s)" % cN(names.hid(t["nc"]))
    if isinstance(t, dict) and "ncb" in t:
        return "(TNonChunk %s)" % cN(names.hid("%02x" % t["ncb"] * 32))
    return "TChunk"


def peer_n(i):
    return i if i >= 0 else 900 - i      # node index, phantom (100 + seed), or an identifier no node has


def msg_term(m, names):
    if m["t"] == "replicate":
        keys = clist(["(%s, %s)" % (cN(names.kid(k)), rtype_term(t, names)) for k, t in m["keys"]])
        return "(Replicate %s %s %s %s)" % (cN(peer_n(m["from"])), cN(peer_n(m["to"])), cN(peer_n(m["holder"])), keys)
    if m["t"] == "fetch":
        return "(Fetch %s %s %s)" % (cN(peer_n(m["from"])), cN(peer_n(m["to"])), cN(names.kid(m["key"])))
    return "(Fetch 999 999 999)"


def held_term(state, names):
    out = []
    for i, n in enumerate(state):
        items = clist(["(%s, %s)" % (cN(names.kid(h["key"])), content_term(canon(h["content"], names))) for h in n["held"] if not h.get("unindexed")])
        infl = clist(["(%s, %s)" % (cN(names.kid(k)), rtype_term(t, names)) for k, t in n.get("inflight", [])])
        cl = clist([cN(peer_n(p)) for p in n["closest_k"]])
        out.append("(%s, %s, %s, %s)" % (cN(i), items, infl, cl))
    return clist(out)


def holder_of_advert(op):
    h = op["holder"]
    return h if 0 <= h < 10 else (998 if h == -3 else 100 + h)   # 100 + seed: how the harness names a non-node peer


def distances(o):
    """the harness's own SHA-256-XOR distances: per node, key -> distance and routing-table peer -> distance"""
    kd = [{json.dumps(k, sort_keys=True): int(d) for k, d in n.get("dists", [])} for n in o["final"]]
    pd = [{p: int(d) for p, d in n.get("peer_dists", [])} for n in o["final"]]
    return kd, pd


def table_term(i, n, pd):
    return clist(["(%s, %s)" % (cN(peer_n(p)), cN(pd[i].get(p, 0))) for p in n.get("rt", [])])


def model_term(c, o):
    if "panic" in o or "steps" not in o:
        return "false"
    names = Names()
    steps = o["steps"]
    kd, pd = distances(o)
    SETUP = ("connect", "phantom", "dump", "settle")
    nconn = 0
    for s in steps:
        if s["eff"].get("op") in ("connect", "phantom"):
            nconn += 1
        else:
            break
    base_state = steps[nconn - 1]["state"] if nconn else o["final"]
    init = clist(["(mkNode %s [] %s [] None None)" % (cN(i), table_term(i, n, pd)) for i, n in enumerate(base_state)])
    ops = []
    tab = {}
    for s in steps:
        for n in s["state"]:
            for h in n["held"]:
                if isinstance(h["type"], dict) and "nc" in h["type"]:
                    tab[canon(h["content"], names)] = names.hid(h["type"]["nc"])
    prev_state = base_state
    pending_sets = []
    for si, s in enumerate(steps[nconn:]):
        e = s["eff"]
        before = steps[nconn + si - 1]["state"] if nconn + si > 0 else base_state
        # the routing table (hence closest-k and candidates) a node works with in this step
        # is the one it had when the step began; what changed during the previous step is applied first
        sets = []
        for i, n in enumerate(before):
            if n.get("rt") != prev_state[i].get("rt"):
                sets.append("(OSetTable %s %s)" % (cN(i), table_term(i, n, pd)))
        prev_state = before
        if e.get("op") in ("hold_local", "break_disk"):
            # (break_disk: failed disk writes -- a put that is taken back -- are not in the model either)
            # the model does not carry the store's index / cache split: the comparison ends where the case
            # starts holding back AddLocalRecordAsStored (the oracle judges the rest of the run)
            break
        if "deliver" in e:
            opt = "(ODeliver %s)" % msg_term(e["deliver"], names)
        elif "drop" in e:
            opt = "(ODrop %s)" % msg_term(e["drop"], names)
        elif e.get("op") == "seed":
            cc, ok = body_canon(e["body"], names)
            keyok = e.get("keyok", True) and ok
            opt = "(OSeed %s %s %s %s)" % (cN(e["node"]), cN(names.kid(e["key"])), content_term(cc), cbool(keyok))
        elif e.get("op") == "replicate":
            opt = "(OReplicate %s)" % cN(e["node"])
        elif e.get("op") == "advert":
            keys = clist(["(%s, %s)" % (cN(names.kid(k)), rtype_term(t, names)) for k, t in e["keys"]])
            opt = "(OAdvert %s %s %s)" % (cN(e["to"]), cN(holder_of_advert(e)), keys)
        elif e.get("op") == "set_range" and "value" in e:
            opt = "(OSetRange %s %s)" % (cN(e["node"]), cN(int(e["value"])))
        elif e.get("op") == "cleanup" and e.get("before", 0) >= e.get("threshold", 1 << 30):
            opt = "(OCleanup %s)" % cN(e["node"])
        else:
            pending_sets += sets
            continue
        before_pool = clist([msg_term(m, names) for m in (steps[nconn + si - 1]["pool"] if nconn + si > 0 else [])])
        for st in pending_sets + sets:
            ops.append("(%s, %s, %s)" % (st, before_pool, held_term(before, names)))
        pending_sets = []
        pool = clist([msg_term(m, names) for m in s["pool"]])
        ops.append("(%s, %s, %s)" % (opt, pool, held_term(s["state"], names)))
    tabt = clist(["(%s, %s)" % (content_term(k), cN(v)) for k, v in tab.items()])
    dtab = clist(["(%s, %s, %s)" % (cN(i), cN(names.kid(json.loads(k))), cN(d)) for i, m in enumerate(kd) for k, d in sorted(m.items())])
    return "agree_case %s %s %s %s" % (tabt, dtab, init, clist(ops))


def show(c, o):
    return model_term(c, o).replace("agree_case", "show_case", 1)


# ---------------------------------------------------------------------------------------------
# model-independent oracle: the property's clauses over what the real nodes did
def merge_expected(old, new):
    """store_replicated_in_record as the PROPERTY describes it (independent of the Coq model)"""
    if new[0] == "pad" and not new[4]:
        return old
    if old is None:
        return new
    if old[0] == "chunk":
        return old
    if old[0] == "pad" and new[0] == "pad":
        return new if new[2] > old[2] else old
    if old[0] == "reg" and new[0] == "reg" and old[1] == new[1]:
        return ("reg", old[1], old[2] | new[2])
    if old[0] == "txs" and new[0] == "txs":
        return ("txs", old[1] | new[1])
    return old


KVALUE = 20          # K_VALUE; run() re-reads it from the translator's output (coq/gen/Consts.v, repl_k_value)


def read_k_value(name="repl_k_value"):
    import os
    import re
    from vpc import core
    try:
        txt = open(os.path.join(core.COQ, "gen", "Consts.v")).read()
    except OSError:
        return None
    m = re.search(r"Definition %s : N := (\d+)\." % name, txt)
    return int(m.group(1)) if m else None


def norm_type(t):
    """record type of a list entry as the dumps print it (ops say {"ncb": n} for a NonChunk of 32 bytes n)"""
    if isinstance(t, dict) and "ncb" in t:
        return json.dumps({"nc": ("%02x" % t["ncb"]) * 32}, sort_keys=True)
    return json.dumps(t, sort_keys=True)


CGS = 5              # CLOSE_GROUP_SIZE; run() re-reads it (repl_close_group_size)


def expected_candidates(j, node_state, pd, rng_):
    """get_replicate_candidates(self) as the PROPERTY reads it: the routing-table peers within the node's
    responsible range (distance <= range, the peer exactly on it included) when there are at least
    CLOSE_GROUP_SIZE of them, else the CLOSE_GROUP_SIZE nearest -- by the harness's own XOR distances and the
    range the TEST set"""
    peers = sorted(node_state.get("rt", []), key=lambda p: pd[j].get(p, 1 << 300))
    if rng_ is not None:
        inr = [p for p in peers if pd[j].get(p, 1 << 300) <= rng_]
        if len(inr) >= CGS:
            return inr
    return peers[:CGS]


def expected_closest(j, node_state, pd):
    """get_closest_k_value_local_peers as the PROPERTY reads it: the node itself and the K_VALUE - 1 nearest
    peers of its routing table -- K_VALUE entries including self -- by the harness's own XOR distances"""
    peers = sorted(node_state.get("rt", []), key=lambda p: pd[j].get(p, 1 << 300))
    return [j] + peers[:KVALUE - 1]


def oracle(c, o):
    v = []
    if "panic" in o:
        return [("panic", "harness panicked: " + o["panic"][:200])]
    names = Names()
    steps = o["steps"]
    kd, pd = distances(o)
    nn = len(o["final"])
    store_range = [None] * nn     # what the TEST set through set_range
    sync_range = [None] * nn      # ... as of the last PutLocalRecord handled by the node (the sync point)
    offered = {}                  # (receiver b, key) -> [was the key within b's synced range when a close holder's list naming it (b not holding it) was handled]
    ck_reported = set()
    prev = None
    prev_idx = None
    prev_state = None
    cand_reported = set()
    holding = set()               # nodes whose AddLocalRecordAsStored commands the case is holding back
    broken = set()                # nodes whose disk writes the case makes fail
    unlisted_reported = set()
    wanted_from = {}      # (node, key) -> holders a fetch of key was scheduled or queued for
    fetched_from = set()  # (node, key, holder): a fetch that was actually delivered to the holder
    any_drop = False
    for s in steps:
        for x in s["log"]:
            if "keys_to_fetch" in x:
                for holder, key in x["keys_to_fetch"]:
                    wanted_from.setdefault((x["node"], json.dumps(key, sort_keys=True)), set()).add(holder)
        for j, n in enumerate(s["state"]):
            for q in n.get("queued", []):
                wanted_from.setdefault((j, json.dumps(q[0], sort_keys=True)), set()).add(q[2])
        d = s["eff"].get("deliver")
        if d and d.get("t") == "fetch":
            fetched_from.add((d["from"], json.dumps(d["key"], sort_keys=True), d["to"]))
        if "drop" in s["eff"]:
            any_drop = True
    for si, s in enumerate(steps):
        e = s["eff"]
        st = s["state"]
        # `held`: what the node's store serves (cache included); `idx`: what its index lists (what add_keys and
        # the interval list work from) -- they differ only while an AddLocalRecordAsStored is held back
        held = [{json.dumps(h["key"], sort_keys=True): (canon(h["content"], names), json.dumps(h["type"], sort_keys=True)) for h in n["held"]} for n in st]
        idx = [{json.dumps(h["key"], sort_keys=True) for h in n["held"] if not h.get("unindexed")} for n in st]
        pheld = prev if prev is not None else [dict() for _ in st]
        pidx = prev_idx if prev_idx is not None else [set() for _ in st]
        sent = [x["sent"] for x in s["log"] if "sent" in x]
        fetch_events = [x for x in s["log"] if "keys_to_fetch" in x]
        if e.get("op") == "replicate":
            i = e["node"]
            mine = sorted(json.dumps([json.loads(k), json.loads(t)], sort_keys=True) for k, (_, t) in pheld[i].items() if k in pidx[i])
            reps = [m for m in sent if m["t"] == "replicate" and m["from"] == i]
            targets = sorted(m["to"] for m in reps)
            bsti = prev_state[i] if prev_state is not None else st[i]
            want_targets = sorted(expected_candidates(i, bsti, pd, store_range[i])) if mine else []
            if targets != want_targets:
                v.append(("advert-targets", "step %d: node %d sent its list to %s; the peers of its routing table within its responsible range %s (at least %d of them, else the %d nearest) are %s"
                          % (si, i, targets, store_range[i], CGS, CGS, want_targets)))
            for m in reps:
                got = sorted(json.dumps(x, sort_keys=True) for x in m["keys"])
                if got != mine or m["holder"] != i:
                    v.append(("advert-incomplete", "step %d: node %d advertised %s but holds %s" % (si, i, got, mine)))
        if e.get("op") == "hold_local":
            holding.add(e["node"])
        if e.get("op") == "release_local":
            holding.discard(e["node"])
        if e.get("op") == "break_disk":
            broken.add(e["node"])
        if e.get("op") == "fix_disk":
            broken.discard(e["node"])
        # a node must not serve (RecordStore::get, hence GetReplicatedRecord) a record its index does not list --
        # it would never advertise it -- except while the store's own follow-up command is being held back
        for j, n in enumerate(st):
            if j in holding:
                continue
            for h in n["held"]:
                if h.get("unindexed") and (j, json.dumps(h["key"], sort_keys=True)) not in unlisted_reported:
                    unlisted_reported.add((j, json.dumps(h["key"], sort_keys=True)))
                    v.append(("serves-unlisted-record", "step %d: node %d serves %s from its store although its index (what it advertises, what add_keys treats as held) does not list it%s"
                              % (si, j, json.dumps(h["key"], sort_keys=True), " -- its disk write had failed" if any("write_failed" in x for s2 in steps[:si + 1] for x in s2["log"]) else "")))
        # the helper's answer against the independently computed closest-K set
        for j, n in enumerate(st):
            want_ck = expected_closest(j, n, pd)
            if n["closest_k"] != want_ck and j not in ck_reported:
                ck_reported.add(j)
                v.append(("closest-k-wrong", "step %d: get_closest_k_value_local_peers of node %d answers %d entries %s; the node itself plus the %d nearest of its %d routing-table peers are %s"
                          % (si, j, len(n["closest_k"]), n["closest_k"], KVALUE - 1, len(n.get("rt", [])), want_ck)))
        if e.get("op") == "set_range" and "value" in e:
            store_range[e["node"]] = int(e["value"])
        # the candidates helper against the independently computed targets
        for j, n in enumerate(st):
            want_c = expected_candidates(j, n, pd, store_range[j])
            if sorted(n["candidates"]) != sorted(want_c) and j not in cand_reported:
                cand_reported.add(j)
                v.append(("candidates-wrong", "step %d: get_replicate_candidates of node %d answers %s; the routing-table peers within its responsible range %s (at least %d, else the %d nearest) are %s"
                          % (si, j, sorted(n["candidates"]), store_range[j], CGS, CGS, sorted(want_c))))
        if "deliver" in e or e.get("op") == "advert":
            m = e.get("deliver") or {"t": "replicate", "to": e["to"], "holder": holder_of_advert(e) if e["holder"] >= 10 or e["holder"] < 0 else e["holder"], "keys": e["keys"]}
            if m["t"] == "replicate" and 0 <= m["to"] < len(st):
                j = m["to"]
                bst = prev_state[j] if prev_state is not None else st[j]
                ck = expected_closest(j, bst, pd)
                close = m["holder"] in ck and m["holder"] != j
                acted = [x for x in fetch_events if x["node"] == j] or [x for x in sent if x["t"] == "fetch" and x["from"] == j]
                if not close and acted:
                    rank = sorted(bst.get("rt", []), key=lambda p: pd[j].get(p, 1 << 300))
                    rk = rank.index(m["holder"]) + 1 if m["holder"] in rank else None
                    v.append(("acted-on-far-holder", "step %d: node %d fetched on a list from holder %s (the %s nearest of its %d routing-table peers) which is not among its %d closest %s (or is itself)"
                              % (si, j, m["holder"], rk, len(rank), KVALUE, ck)))
                if close:
                    # the responsible range: judged from the ranges the test set and the sync points only
                    r = sync_range[j]
                    unheld = [(json.dumps(k, sort_keys=True), norm_type(t)) for k, t in m["keys"] if json.dumps(k, sort_keys=True) not in pidx[j]]
                    infl_b = {(json.dumps(k, sort_keys=True), json.dumps(t, sort_keys=True)) for k, t in bst.get("inflight", [])}
                    infl_a = {(json.dumps(k, sort_keys=True), json.dumps(t, sort_keys=True)) for k, t in st[j].get("inflight", [])}
                    qd_b = {(json.dumps(q[0], sort_keys=True), json.dumps(q[1], sort_keys=True)) for q in bst.get("queued", [])}
                    qd_a = {(json.dumps(q[0], sort_keys=True), json.dumps(q[1], sort_keys=True)) for q in st[j].get("queued", [])}
                    for k, t in unheld:
                        d = kd[j].get(k)
                        if d is None:
                            continue
                        offered.setdefault((j, k), []).append(r is None or d <= r)
                        if r is None or d <= r:
                            if (k, t) not in infl_a and (k, t) not in qd_a:
                                v.append(("in-range-not-fetched", "step %d: node %d was sent %s by its close peer %s; it does not hold it and its distance %d is within the node's responsible range %s (as of its last stored record), yet it is neither being fetched nor queued"
                                          % (si, j, k, m["holder"], d, r)))
                        elif len(unheld) != 1:
                            # (exactly one new key: the fast path of C08's F15 fetches it whatever the range)
                            if ((k, t) in infl_a and (k, t) not in infl_b) or ((k, t) in qd_a and (k, t) not in qd_b):
                                v.append(("out-of-range-fetched", "step %d: node %d starts fetching / queues %s from a list of %d new keys although its distance %d is beyond the node's responsible range %d"
                                          % (si, j, k, len(unheld), d, r)))
                for x in fetch_events:
                    for holder, key in x["keys_to_fetch"]:
                        if json.dumps(key, sort_keys=True) in pidx[x["node"]]:
                            v.append(("fetched-held", "step %d: node %d schedules a fetch of %s which it already holds" % (si, x["node"], key)))
            if m["t"] == "fetch" and 0 <= m["to"] < len(st):
                j, h = m["from"], m["to"]
                k = json.dumps(m["key"], sort_keys=True)
                served = pheld[h].get(k)
                if served is not None and j not in broken:
                    want = merge_expected(pheld[j].get(k, (None,))[0] if k in pheld[j] else None, served[0])
                    got = held[j].get(k, (None, None))[0]
                    if got != want:
                        cls = "replica-differs" if k not in pheld[j] else "merge-wrong"
                        if k in pheld[j] and k not in pidx[j] and pheld[j][k][0][0] == "reg" and served[0][0] == "reg":
                            cls = "register-overwritten-before-indexed"
                        v.append((cls, "step %d: node %d fetched %s from node %d which serves %s; it now holds %s, expected %s" % (si, j, m["key"], h, served[0], got, want)))
                    elif k not in pheld[j] and k in idx[j] and held[j][k][1] != served[1]:
                        v.append(("replica-differs", "step %d: node %d stored %s under another record type (%s) than the holder's (%s)" % (si, j, m["key"], held[j][k][1], served[1])))
        if e.get("op") == "seed":
            i = e["node"]
            cc, ok = body_canon(e["body"], names)
            k = json.dumps(e["key"], sort_keys=True)
            if i in broken:
                pass
            elif ok and e.get("keyok", True):
                want = merge_expected(pheld[i][k][0] if k in pheld[i] else None, cc)
                got = held[i].get(k, (None,))[0]
                if got != want:
                    cls = "merge-wrong"
                    if k in pheld[i] and k not in pidx[i] and pheld[i][k][0][0] == "reg" and cc[0] == "reg":
                        # known (HEAD): validate_and_store_register decides "present locally" from the store's index,
                        # which lags the cache until AddLocalRecordAsStored is handled
                        cls = "register-overwritten-before-indexed"
                    v.append((cls, "step %d: node %d was handed %s for %s while holding %s; it now holds %s, expected %s" % (si, i, cc, e["key"], pheld[i].get(k), got, want)))
            elif held[i] != pheld[i]:
                v.append(("invalid-accepted", "step %d: node %d changed its store on a record presented under a key it does not belong to" % (si, i)))
        # sync points: wherever a node handled LocalSwarmCmd::PutLocalRecord its fetcher takes the store's range
        for x in s["log"]:
            if "put_local" in x and store_range[x["node"]] is not None:
                sync_range[x["node"]] = store_range[x["node"]]
        prev = held
        prev_idx = idx
        prev_state = st
    # convergence after full rounds
    if c.get("full_rounds") and not o.get("undelivered"):
        fin = o["final"]
        for a in range(len(fin)):
            for b in range(len(fin)):
                if a == b or b not in expected_candidates(a, fin[a], pd, store_range[a]) or a not in expected_closest(b, fin[b], pd):
                    continue
                ha = {json.dumps(h["key"], sort_keys=True): canon(h["content"], names) for h in fin[a]["held"]}
                hb = {json.dumps(h["key"], sort_keys=True): canon(h["content"], names) for h in fin[b]["held"] if not h.get("unindexed")}
                for k, ca in ha.items():
                    if k not in hb:
                        # only an IN-RANGE neighbour has to take the record: every time a close peer's list offered
                        # it to b, it was beyond b's responsible range (as of b's last stored record)
                        offers = offered.get((b, k), [])
                        if offers and not any(offers):
                            continue
                        v.append(("not-replicated", "after %d full rounds node %d still lacks %s held by its neighbour %d (distance %s to node %d; offered %d time(s), within its responsible range %d time(s))"
                                  % (c["full_rounds"], b, k, a, kd[b].get(k), b, len(offers), sum(offers))))
                    elif hb[k] != ca and merge_expected(hb[k], ca) != hb[k]:
                        # (scratchpads carry no version in their type tag: a queued fetch of one is legitimately
                        #  cleared by storing ANY version of it, so for them this stays the known class)
                        if ca[0] in ("reg", "txs") and a in wanted_from.get((b, k), set()) and (b, k, a) not in fetched_from and not any_drop:
                            # not the known class: node b HAD scheduled / queued a fetch of this key from a (it
                            # did not hold the key then) and that fetch was never carried out
                            v.append(("scheduled-fetch-lost", "node %d queued or scheduled a fetch of %s from node %d, every message was delivered, yet the fetch was never made and the versions still differ: %s vs %s" % (b, k, a, ca, hb[k])))
                        else:
                            v.append(("held-key-other-version", "after %d full rounds nodes %d and %d still hold different versions of %s: %s vs %s" % (c["full_rounds"], a, b, k, ca, hb[k])))
    return v


def nontrivial(c, o):
    if "steps" not in o:
        return None
    kinds = sorted({(s["eff"].get("deliver") or {}).get("t", "") for s in o["steps"]})
    stored = any(len(o["steps"][i]["state"][j]["held"]) != len(o["steps"][i - 1]["state"][j]["held"])
                 for i in range(1, len(o["steps"])) for j in range(len(o["final"])) if "deliver" in o["steps"][i]["eff"])
    eq = len({json.dumps(sorted(json.dumps(h, sort_keys=True) for h in n["held"])) for n in o["final"]}) == 1
    return (c.get("kind"), len(c["nodes"]), len(o["steps"]), tuple(kinds), stored, eq)


# ---------------------------------------------------------------------------------------------
def rec_chunk(d):
    return {"key": {"chunk": {"d": d}}, "hdr": 1, "body": {"t": "chunk", "c": {"d": d}}}


def rec_pad(owner, ctr, data, valid=True):
    sig = {"by": owner, "ctr": ctr, "data": data} if valid else "junk"
    return {"key": {"owner": owner}, "hdr": 5, "body": {"t": "pad", "owner": owner, "ctr": ctr, "data": data, "sig": sig}}


def rec_reg(owner, meta, ops):
    return {"key": {"reg": [owner, meta]}, "hdr": 3,
            "body": {"t": "reg", "owner": owner, "meta": meta, "perm": "anyone", "osig": {"by": owner},
                     "ops": [{"id": i, "writer": owner, "sig": "ok"} for i in ops]}}


def rec_txs(owner, contents):
    return {"key": {"owner": owner}, "hdr": 2,
            "body": {"t": "txs", "list": [{"owner": owner, "content": x, "sig": {"by": owner, "content": x}} for x in contents]}}


def connects(n, rng, full=True):
    ops = []
    for a in range(n):
        for b in range(n):
            if a != b and (full or rng.random() < 0.7):
                ops.append({"op": "connect", "a": a, "b": b})
    return ops


def seed(node, rec):
    d = {"op": "seed", "node": node}
    d.update(rec)
    return d


def gen_missing(rng, idx):
    n = rng.choice([2, 2, 3])
    nodes = rng.sample(range(1, 60), n)
    full = rng.random() < 0.7
    ops = connects(n, rng, full)
    recs = []
    owners = rng.sample(range(1, 40), 6)
    for j in range(rng.randint(1, 6)):
        k = rng.choice(["chunk", "chunk", "pad", "reg", "txs"])
        if k == "chunk":
            recs.append(rec_chunk(idx * 10 + j))
        elif k == "pad":
            recs.append(rec_pad(owners[j], rng.randint(0, 5), j))
        elif k == "reg":
            recs.append(rec_reg(owners[j], j + 1, rng.sample(range(1, 9), rng.randint(0, 3))))
        else:
            recs.append(rec_txs(owners[j], rng.sample(range(1, 9), rng.randint(1, 3))))
    for r in recs:
        ops.append(seed(rng.randrange(n), r))
    rounds = rng.randint(1, 3)
    for _ in range(rounds):
        order = list(range(n))
        rng.shuffle(order)
        for i in order:
            ops.append({"op": "replicate", "node": i})
        ops.append({"op": "run", "picks": [rng.randrange(0, 7) for _ in range(8)]})
    return {"kind": "missing", "nodes": nodes, "ops": ops, "full_rounds": rounds if full else 0}


def gen_divergent(rng, idx):
    n = rng.choice([2, 3])
    nodes = rng.sample(range(1, 60), n)
    ops = connects(n, rng, True)
    o = rng.randint(1, 30)
    kind = rng.choice(["reg", "txs", "pad"])
    if kind == "reg":
        a, b = rec_reg(o, 1, rng.sample(range(1, 6), 2)), rec_reg(o, 1, rng.sample(range(4, 9), 2))
    elif kind == "txs":
        a, b = rec_txs(o, rng.sample(range(1, 6), 2)), rec_txs(o, rng.sample(range(4, 9), 2))
    else:
        a, b = rec_pad(o, rng.randint(0, 3), 1), rec_pad(o, rng.randint(4, 7), 2)
    ops += [seed(0, a), seed(1, b)]
    if rng.random() < 0.5:
        ops.append(seed(rng.randrange(n), rec_chunk(idx * 10)))
    rounds = rng.randint(1, 3)
    for _ in range(rounds):
        for i in range(n):
            ops.append({"op": "replicate", "node": i})
        ops.append({"op": "run", "picks": [rng.randrange(0, 5) for _ in range(5)]})
    if rng.random() < 0.5:
        # the "fetched in both directions" scenario: hand each side the other's version
        ops += [seed(1, a), seed(0, b)]
        rounds = 0
    return {"kind": "divergent-" + kind, "nodes": nodes, "ops": ops, "full_rounds": rounds}


def gen_adverts(rng, idx):
    n = rng.choice([2, 3])
    nodes = rng.sample(range(1, 60), n)
    ops = connects(n, rng, rng.random() < 0.6)
    ops.append(seed(0, rec_chunk(idx * 10 + 1)))
    ops.append(seed(0, rec_reg(5, 1, [1])))
    ops.append(seed(n - 1, rec_chunk(idx * 10 + 2)))
    for _ in range(rng.randint(2, 6)):
        holder = rng.choice([0, 1, n - 1, 77, 78, -3])
        to = rng.randrange(n)
        keys = []
        for _ in range(rng.randint(1, 3)):
            c = rng.choice([idx * 10 + 1, idx * 10 + 2, idx * 10 + 3, idx * 10 + 4])
            keys.append([{"chunk": {"d": c}}, rng.choice(["chunk", "chunk", "pad", {"ncb": rng.randint(1, 5)}])])
        if rng.random() < 0.3:
            keys.append([{"reg": [5, 1]}, {"ncb": 9}])
        ops.append({"op": "advert", "to": to, "holder": holder, "keys": keys})
        r = rng.random()
        if r < 0.5:
            ops.append({"op": "run", "picks": [rng.randrange(0, 4)]})
        elif r < 0.7:
            ops.append({"op": "deliver", "i": rng.randrange(0, 4)})
        elif r < 0.8:
            ops.append({"op": "drop", "i": rng.randrange(0, 4)})
    ops.append({"op": "run", "picks": [0]})
    return {"kind": "adverts", "nodes": nodes, "ops": ops, "full_rounds": 0}


def gen_partial(rng, idx):
    c = gen_missing(rng, idx)
    ops = []
    for o in c["ops"]:
        if o["op"] == "run":
            for _ in range(rng.randint(0, 4)):
                ops.append({"op": rng.choice(["deliver", "deliver", "deliver", "drop"]), "i": rng.randrange(0, 6)})
        else:
            ops.append(o)
    ops.append({"op": "run", "picks": [rng.randrange(0, 3)]})
    c.update({"kind": "partial", "ops": ops, "full_rounds": 0})
    return c


def gen_ranged(rng, idx):
    """the advertiser has a responsible range that leaves some of its records outside: it must still
    advertise every record it holds"""
    n = rng.choice([2, 3])
    nodes = rng.sample(range(1, 60), n)
    ops = connects(n, rng, True)
    recs = [rec_chunk(idx * 10 + j) for j in range(rng.randint(2, 6))]
    if rng.random() < 0.5:
        recs.append(rec_pad(rng.randint(1, 30), 1, 1))
    for r in recs:
        ops.append(seed(0, r))
    pivot = rng.choice(recs)
    ops.append({"op": "set_range", "node": 0, "range": {"key": pivot["key"], "below": rng.random() < 0.7}})
    if rng.random() < 0.3:
        ops.append({"op": "set_range", "node": 1, "range": "max"})
    for _ in range(rng.randint(1, 2)):
        ops.append({"op": "replicate", "node": 0})
        ops.append({"op": "run", "picks": [rng.randrange(0, 5) for _ in range(4)]})
    return {"kind": "ranged", "nodes": nodes, "ops": ops, "full_rounds": 1}


def gen_crowded(rng, idx):
    """the receiver's routing table holds more than K peers and its range covers them all: a list is
    acted on only when its holder is among the K closest -- the node itself and its K-1 nearest peers.
    Lists are aimed at exact distance ranks around the boundary (the harness resolves {"rank": r} to the
    r-th nearest routing-table peer of the receiver by its own distances)"""
    K = KVALUE
    nodes = rng.sample(range(1, 60), 2)
    phantoms = [x for x in rng.sample(range(60, 200), rng.randint(30, 70)) if x not in nodes]
    ops = [{"op": "connect", "a": 0, "b": 1}, {"op": "connect", "a": 1, "b": 0},
           {"op": "phantom", "node": 1, "seeds": phantoms}]
    if rng.random() < 0.5:
        ops.append({"op": "phantom", "node": 0, "seeds": rng.sample(phantoms, 6)})
    for j in range(rng.randint(1, 4)):
        ops.append(seed(0, rec_chunk(idx * 10 + j)))
    ops.append({"op": "set_range", "node": 1, "range": "max"})
    ops.append({"op": "replicate", "node": 0})
    ops.append({"op": "run", "picks": [0]})
    # explicit lists from routing-table peers at chosen ranks (1 = nearest); K-1 is the last one acted on
    ranks = [K - 1, K] if rng.random() < 0.8 else []
    ranks += rng.sample([1, 2, K - 3, K - 2, K - 1, K, K + 1, K + 2, K + 5, 2 * K], rng.randint(1, 3))
    rng.shuffle(ranks)
    d = 5
    for r in ranks:
        keys = [[{"chunk": {"d": idx * 10 + d + x}}, "chunk"] for x in range(rng.randint(1, 2))]
        d += 2
        ops.append({"op": "advert", "to": 1, "holder": {"rank": r}, "keys": keys})
        if rng.random() < 0.6:
            ops.append({"op": "run", "picks": [0]})
    # ... and one from a routing-table-only peer chosen whatever its rank
    h = rng.choice(phantoms)
    ops.append({"op": "advert", "to": 1, "holder": h, "keys": [[{"chunk": {"d": idx * 10 + 4}}, "chunk"]]})
    ops.append({"op": "run", "picks": [0]})
    return {"kind": "crowded", "nodes": nodes, "ops": ops, "full_rounds": 0}


def among(recs, rank, delta=0):
    return {"among": [r["key"] for r in recs], "rank": rank, "delta": delta}


def gen_regrow(rng, idx, variant=None):
    """the RECEIVER (node 1) has a finite responsible range that changes over time. The store's range is set
    to the distance of the r-th nearest of the advertised keys; a record put into node 1 is where the driver
    copies it into the fetcher. Variants: regrow (R1, put, R2 > R1, put), regrow-lag (R2 set but nothing put
    since: the fetcher legitimately still filters with R1), zigzag (shrink, grow, shrink ...), boundary (one
    range exactly at / one below / one above a key's distance)."""
    variant = variant or rng.choice(["regrow", "regrow", "regrow-lag", "zigzag", "boundary"])
    n = rng.choice([2, 2, 3])
    nodes = rng.sample(range(1, 60), n)
    ops = connects(n, rng, True)
    m = rng.randint(5, 9)
    recs = [rec_chunk(idx * 20 + j) for j in range(m)]
    if rng.random() < 0.4:
        recs[rng.randrange(m)] = rec_pad(rng.randint(1, 30), 1, 1)
    if rng.random() < 0.3:
        recs[rng.randrange(m)] = rec_reg(rng.randint(31, 40), 1, [1, 2])
    syncs = [rec_chunk(idx * 20 + 10 + j) for j in range(6)]
    for r in recs:
        ops.append(seed(0, r))
    if rng.random() < 0.3:
        ops.append(seed(1, rng.choice(recs)))          # the receiver already holds one of them
    nsync = 0

    def put():
        nonlocal nsync
        ops.append(seed(1, syncs[nsync]))
        nsync += 1

    dl = lambda: rng.choice([0, 0, 0, -1, 1])
    if variant in ("regrow", "regrow-lag"):
        i = rng.randint(0, m - 4)
        j = rng.randint(i + 2, m - 1 if rng.random() < 0.2 else m - 2)
        ops.append({"op": "set_range", "node": 1, "range": among(recs, i, dl())})
        put()
        ops.append({"op": "set_range", "node": 1, "range": among(recs, j, dl())})
        if variant == "regrow":
            put()
    elif variant == "zigzag":
        ranks = [rng.randint(0, m - 1) for _ in range(rng.randint(3, 5))]
        for r in ranks:
            ops.append({"op": "set_range", "node": 1, "range": among(recs, r, dl())})
            if rng.random() < 0.75:
                put()
    else:
        ops.append({"op": "set_range", "node": 1, "range": among(recs, rng.randint(0, m - 1), rng.choice([-1, 0, 1]))})
        if rng.random() < 0.85:
            put()
    if rng.random() < 0.35:
        # explicit lists first: one new key beyond the range (fast path), two new keys, held keys mixed in
        for _ in range(rng.randint(1, 2)):
            sub = rng.sample(recs, rng.randint(1, min(4, m)))
            ops.append({"op": "advert", "to": 1, "holder": 0, "keys": [[r["key"], {1: "chunk", 5: "pad", 3: {"ncb": 7}}[r["hdr"]]] for r in sub]})
            if rng.random() < 0.5:
                ops.append({"op": "run", "picks": [rng.randrange(0, 4)]})
    rounds = rng.randint(1, 2)
    for _ in range(rounds):
        for x in range(n):
            ops.append({"op": "replicate", "node": x})
        ops.append({"op": "run", "picks": [rng.randrange(0, 6) for _ in range(5)]})
    return {"kind": variant, "nodes": nodes, "ops": ops, "full_rounds": rounds}


def gen_bigstore(rng, idx, count=None):
    """node 1 holds more than MAX_RECORDS_COUNT/10 filler records spread over the whole key space, gets a
    responsible range = the distance of one of the keys node 0 is about to advertise (exactly / one above),
    stores one more record (the fetcher takes the range) and runs its irrelevant-record clean-up, which drops
    every filler beyond the range. Node 0's list then carries >= 2 new keys: the one AT the range is farther
    than everything node 1 still holds and must be fetched all the same"""
    nodes = rng.sample(range(1, 60), 2)
    ops = connects(2, rng, True)
    m = rng.randint(4, 7)
    recs = [rec_chunk(idx * 20 + j) for j in range(m)]
    for r in recs:
        ops.append(seed(0, r))
    ops.append({"op": "bulk_store", "node": 1, "count": count or rng.choice([1640, 1640, 1700, 1630]), "salt": idx})
    j = rng.randint(1, m - 2)
    ops.append({"op": "set_range", "node": 1, "range": among(recs, j, rng.choice([0, 0, 1]))})
    ops.append(seed(1, rec_chunk(idx * 20 + 10)))
    ops.append({"op": "cleanup", "node": 1})
    if rng.random() < 0.5:
        ops.append({"op": "advert", "to": 1, "holder": 0, "keys": [[r["key"], "chunk"] for r in recs]})
    else:
        ops.append({"op": "replicate", "node": 0})
    ops.append({"op": "run", "picks": [rng.randrange(0, 4) for _ in range(3)]})
    if rng.random() < 0.5:
        ops.append({"op": "cleanup", "node": 1})
        ops.append({"op": "replicate", "node": 0})
        ops.append({"op": "run", "picks": [0]})
    return {"kind": "bigstore", "nodes": nodes, "ops": ops, "full_rounds": 0}


def gen_diskfail(rng, idx):
    """node 1's disk writes fail while it takes up node 0's records (the store takes each put back:
    RemoveFailedLocalRecord); the disk is repaired and the neighbour offers the records again in later rounds:
    node 1 must end up holding (index + store) every one of them, and must never serve a record it does not list"""
    nodes = rng.sample(range(1, 60), 2)
    ops = connects(2, rng, True)
    recs = [rec_chunk(idx * 10 + j) for j in range(rng.randint(1, 3))]
    if rng.random() < 0.4:
        recs[0] = rec_pad(rng.randint(1, 30), 1, 1)
    for r in recs:
        ops.append(seed(0, r))
    ops.append({"op": "break_disk", "node": 1})
    if rng.random() < 0.5:
        ops.append(seed(1, recs[0]))
    ops.append({"op": "replicate", "node": 0})
    ops.append({"op": "run", "picks": [rng.randrange(0, 3)]})
    ops.append({"op": "fix_disk", "node": 1})
    rounds = rng.randint(1, 2)
    for _ in range(rounds):
        ops.append({"op": "replicate", "node": 0})
        ops.append({"op": "replicate", "node": 1})
        ops.append({"op": "run", "picks": [rng.randrange(0, 3)]})
    return {"kind": "diskfail", "nodes": nodes, "ops": ops, "full_rounds": rounds}


def gen_edge(rng, idx):
    """the ADVERTISER's responsible range sits exactly on / one below / one above the distance of its r-th
    nearest routing-table peer (r around CLOSE_GROUP_SIZE .. +2, as the density tick sets it: the distance
    of the (CLOSE_GROUP_SIZE+1)-th closest), with more than CLOSE_GROUP_SIZE + 2 peers in the table: the
    list must go to every table peer within the range, the one exactly on it included"""
    nodes = rng.sample(range(1, 60), 2)
    phantoms = [x for x in rng.sample(range(60, 200), rng.randint(7, 16)) if x not in nodes]
    ops = [{"op": "connect", "a": 0, "b": 1}, {"op": "connect", "a": 1, "b": 0},
           {"op": "phantom", "node": 0, "seeds": phantoms}]
    for j in range(rng.randint(1, 3)):
        ops.append(seed(0, rec_chunk(idx * 10 + j)))
    for _ in range(rng.randint(1, 3)):
        r = rng.choice([CGS - 1, CGS, CGS, CGS + 1, CGS + 1, CGS + 1, CGS + 2, CGS + 3, len(phantoms)])
        ops.append({"op": "set_range", "node": 0, "range": {"peer_rank": r, "delta": rng.choice([0, 0, 0, -1, 1])}})
        ops.append({"op": "replicate", "node": 0})
        ops.append({"op": "run", "picks": [0]})
    return {"kind": "edge", "nodes": nodes, "ops": ops, "full_rounds": 0}


def gen_window(rng, idx):
    """two versions of one mutable record reach a node that does not hold the key yet, the second while the
    store's follow-up of the first (AddLocalRecordAsStored, sent after the spawned disk write) has not been
    handled by the driver: the harness holds that command back. Both orders; the stored version must be the
    merge of what was accepted (highest counter / union)"""
    n = rng.choice([2, 3])
    nodes = rng.sample(range(1, 60), n)
    ops = connects(n, rng, True)
    o = rng.randint(1, 30)
    kind = rng.choice(WINDOW_KINDS)
    if kind == "pad":
        c1, c2 = rng.sample(range(0, 9), 2)
        a, b = rec_pad(o, c1, 1), rec_pad(o, c2, 2)
    elif kind == "txs":
        a, b = rec_txs(o, rng.sample(range(1, 6), 2)), rec_txs(o, rng.sample(range(4, 9), 2))
    else:
        a, b = rec_reg(o, 1, rng.sample(range(1, 6), 2)), rec_reg(o, 1, rng.sample(range(4, 9), 2))
    if rng.random() < 0.3:
        ops.append(seed(1, rec_chunk(idx * 10)))
    via_fetch = n == 3 and rng.random() < 0.5
    if via_fetch:
        # the two versions sit on nodes 0 and 2 and are advertised under different record types, so node 1
        # runs both fetches concurrently; the case delivers the two answers inside the window
        ops += [seed(0, a), seed(2, b)]
        ops.append({"op": "advert", "to": 1, "holder": 0, "keys": [[a["key"], {"ncb": 3}]]})
        ops.append({"op": "advert", "to": 1, "holder": 2, "keys": [[a["key"], "pad" if kind == "pad" else {"ncb": 4}]]})
        ops.append({"op": "hold_local", "node": 1})
        ops.append({"op": "run", "picks": [rng.randrange(0, 2)]})
    else:
        ops.append({"op": "hold_local", "node": 1})
        ops += [seed(1, a), seed(1, b)]
        if rng.random() < 0.3:
            ops.append(seed(1, a))
    ops.append({"op": "release_local", "node": 1})
    ops.append({"op": "dump"})
    if rng.random() < 0.5:
        for x in range(n):
            ops.append({"op": "replicate", "node": x})
        ops.append({"op": "run", "picks": [0]})
    return {"kind": "window-" + kind, "nodes": nodes, "ops": ops, "full_rounds": 0}


WINDOW_KINDS = ["pad", "pad", "txs", "reg"]


def gen_midflight(rng, idx):
    """the holder's mutable record changes between its advertisement and the fetch being served: the
    fetcher must still treat the fetch as done when the (newer) record is stored"""
    nodes = rng.sample(range(1, 60), 2)
    ops = connects(2, rng, True)
    o = rng.randint(1, 30)
    kind = rng.choice(["reg", "txs", "pad"])
    if kind == "reg":
        v1, v2 = rec_reg(o, 1, [1]), rec_reg(o, 1, [1, 2])
    elif kind == "txs":
        v1, v2 = rec_txs(o, [1]), rec_txs(o, [1, 2])
    else:
        v1, v2 = rec_pad(o, 1, 1), rec_pad(o, 2, 2)
    ops.append(seed(0, v1))
    if rng.random() < 0.5:
        ops.append(seed(0, rec_chunk(idx * 10)))
    ops.append({"op": "replicate", "node": 0})
    ops.append({"op": "deliver", "i": 0})          # the list reaches node 1: fetches are now pending
    ops.append(seed(0, v2))                        # the holder's copy moves on
    ops.append({"op": "run", "picks": [rng.randrange(0, 3)]})
    ops.append({"op": "replicate", "node": 0})
    ops.append({"op": "run", "picks": [0]})
    return {"kind": "midflight-" + kind, "nodes": nodes, "ops": ops, "full_rounds": 1}


def gen_saturated(rng, idx):
    """node 1's fetcher is at its parallel-fetch cap when node 2's list arrives, so node 2's version of a
    mutable record waits in the queue; node 0's version of the same key is fetched first (single-key list,
    which bypasses the cap); later lists and freed slots must still lead to node 2's version being fetched"""
    nodes = rng.sample(range(1, 60), 3)
    ops = connects(3, rng, True)
    for j in range(21 + rng.randint(0, 3)):
        ops.append(seed(0, rec_chunk(idx * 100 + j)))
    o = rng.randint(1, 30)
    kind = rng.choice(["reg", "txs"])
    if kind == "reg":
        va, vc = rec_reg(o, 1, [1, 2]), rec_reg(o, 1, [1, 3])
    else:
        va, vc = rec_txs(o, [1, 2]), rec_txs(o, [1, 3])
    ops.append({"op": "replicate", "node": 0})
    ops.append({"op": "run_replicates"})             # node 0's list saturates node 1's fetcher; no fetch is delivered yet
    ops.append(seed(0, va))                          # node 0 now holds its version (so it will not fetch node 2's)
    ops.append(seed(2, vc))
    ops.append(seed(2, rec_chunk(idx * 100 + 50)))
    ops.append({"op": "replicate", "node": 2})
    ops.append({"op": "run_replicates"})             # node 2's list: node 1 can only queue it
    ops.append({"op": "advert", "to": 1, "holder": 0, "keys": [[va["key"], {"ncb": 7}]]})
    ops.append({"op": "run_fetch_of", "key": va["key"]})
    ops.append({"op": "replicate", "node": 0})
    ops.append({"op": "run_replicates"})
    ops.append({"op": "run", "picks": [rng.randrange(0, 5) for _ in range(5)]})
    return {"kind": "saturated-" + kind, "nodes": nodes, "ops": ops, "full_rounds": 1}


def gen(ctx):
    rng = ctx.rng
    n = 135 if ctx.tier == "quick" else 2250
    cases = []
    fams = [gen_missing, gen_missing, gen_divergent, gen_adverts, gen_partial, gen_ranged, gen_crowded, gen_midflight,
            gen_saturated, gen_regrow, gen_regrow, gen_crowded, gen_edge, gen_window, gen_diskfail]
    for i in range(n):
        f = fams[i % len(fams)]
        cases.append(f(rng, 100 + i))
    for i in range(1 if ctx.tier == "quick" else 6):
        cases.append(gen_bigstore(rng, 5000 + i, 1640 if i == 0 else None))
    return cases


def run(ctx):
    global KVALUE
    ctx.regen_consts()
    global CGS
    g = read_k_value("repl_close_group_size")
    if g is not None:
        CGS = g
    k = read_k_value()
    if k is None:
        ctx.tie_break("translator", "repl_k_value", "K_VALUE could not be re-read from the source (coq/gen/Consts.v has no repl_k_value)")
    else:
        KVALUE = k
    ctx.prove("props/C09.v", THEOREMS, extra_trusted=[
        "model coq/model/Replication.v (hand-written) tied to the code by this run's lock-step correspondence over real multi-node executions",
        "harness/crates/c09 (transport + event loop between real SwarmDrivers / Nodes; hooks: verif_handle_replicate_cmd, verif_try_recv_*, read-only views)",
        "tools/props/C09.py (generator, canonicaliser, oracle)"])
    binary = ctx.cargo_build("c09")
    cases = ctx.corpus() + ([] if ctx.replay else gen(ctx))
    ctx.pipeline(cases, binary, oracle, model_term, IMPORTS, nontrivial=nontrivial, show=show, shard_size=8,
                 relation="real multi-node replication (try_interval_replication, add_keys_to_replication_fetcher, "
                          "fetch_replication_keys_without_wait, handle_query, store_replicated_in_record) "
                          "== Replication.step, step by step (pool of undelivered messages and every node's store)")
